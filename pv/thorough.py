"""Thorough-tier extras shared by all properties: bytecode cross-check of the AST matchers."""
import ast
import dis

from .astutil import walk_local

WATCHED_STORES = {'state', '_owner', '_client_identity', 'unique_identifier', '_id_placeholder', '_data_session', '_protocol_version', '_attribute_policy',
                  'policy_store', 'policy_map', 'policy_cache', '_lock', 'reserved_policies', '_protocol_versions'}
WATCHED_CALLS = {'commit', 'add', 'query', 'delete', 'sendall', 'recv', 'process_request', 'authenticate', '_get_object_with_access_controls'}


def _code_objects(co):
    yield co
    for c in co.co_consts:
        if hasattr(c, 'co_code'):
            yield from _code_objects(c)


def bytecode_crosscheck(ctx):
    """Compile (never run) every consulted module and compare attribute-store / method-load sites in the bytecode with what an AST walk sees.
    A disagreement would mean the AST matchers have a blind spot (augmented assignment, tuple targets, comprehension scopes, ...)."""
    rid = '%s.BYTECODE' % ctx.prop
    ctx.rule(rid, 'independent witness: for every consulted module the watched STORE_ATTR / method-load names found in the compiled bytecode equal those found by the AST walk')
    n = 0
    for rel in sorted(ctx.src.consulted):
        if not rel.endswith('.py'):
            continue
        text = ctx.src.text(rel)
        try:
            co = compile(text, rel, 'exec')
        except SyntaxError:
            continue
        bc_st, bc_ld = {}, {}
        for c in _code_objects(co):
            for ins in dis.get_instructions(c):
                if ins.opname in ('STORE_ATTR', 'DELETE_ATTR') and ins.argval in WATCHED_STORES:
                    bc_st[ins.argval] = bc_st.get(ins.argval, 0) + 1
                if ins.opname in ('LOAD_METHOD', 'LOAD_ATTR') and ins.argval in WATCHED_CALLS:
                    bc_ld[ins.argval] = bc_ld.get(ins.argval, 0) + 1
        t = ctx.src.tree(rel)
        a_st, a_ld = {}, {}
        for x in ast.walk(t):
            if isinstance(x, ast.Attribute):
                if isinstance(x.ctx, (ast.Store, ast.Del)) and x.attr in WATCHED_STORES:
                    a_st[x.attr] = a_st.get(x.attr, 0) + 1
                    if isinstance(getattr(x, '_parent', None), ast.AugAssign):
                        pass
                elif isinstance(x.ctx, ast.Load) and x.attr in WATCHED_CALLS:
                    a_ld[x.attr] = a_ld.get(x.attr, 0) + 1
        # an augmented assignment to an attribute loads and stores it: bytecode has one STORE_ATTR as well
        ok = bc_st == a_st and all(bc_ld.get(k, 0) == v for k, v in a_ld.items())
        n += 1
        if not ok:
            from .source import AnalysisError
            raise AnalysisError('bytecode cross-check: AST walk and compiled bytecode of %s disagree on watched sites (checker blind spot): stores %s vs %s, loads %s vs %s'
                                % (rel, bc_st, a_st, bc_ld, a_ld))
        ctx.ok(rid, rel, 'bytecode and AST agree on %d watched store names / %d watched loads' % (sum(a_st.values()), sum(a_ld.values())))
    ctx.analysed['modules_bytecode_checked'] = n
