"""pv - PyKMIP property verification by static analysis (stdlib only)."""
