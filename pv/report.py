"""Obligations, findings, known-findings matching, evidence and exit codes."""
import json
import os
import time

from .source import AnalysisError

VERIF = os.path.dirname(os.path.dirname(os.path.abspath(__file__)))
KNOWN_FILE = os.path.join(VERIF, 'known_findings.json')


class Finding:
    def __init__(self, rule, key, site, message, detail=None):
        self.rule, self.key, self.site, self.message = rule, key, site, message
        self.detail = detail or {}

    def full_key(self):
        return '%s|%s' % (self.rule, self.key)

    def as_dict(self):
        return {'rule': self.rule, 'key': self.full_key(), 'site': self.site,
                'message': self.message, 'detail': self.detail}


class Ctx:
    """Per-run context handed to the rule modules."""

    def __init__(self, prop, tier, src, seed=0):
        self.prop, self.tier, self.src, self.seed = prop, tier, src, seed
        self.obligations = []     # (rule, site, fact)
        self.findings = []
        self.analysed = {}
        self.floors = {}
        self.rules = {}
        self.not_decided = []
        self.assumptions = []
        self.info = []
        self.t0 = time.time()

    # -- rule API -------------------------------------------------------
    def rule(self, rid, text):
        self.rules[rid] = text

    def ok(self, rule, site, fact=''):
        self.obligations.append((rule, site, fact, True))

    def fail(self, rule, key, site, message, **detail):
        self.obligations.append((rule, site, message, False))
        self.findings.append(Finding(rule, key, site, message, detail))

    def check(self, cond, rule, key, site, ok_fact, fail_msg, **detail):
        if cond:
            self.ok(rule, site, ok_fact)
        else:
            self.fail(rule, key, site, fail_msg, **detail)
        return cond

    def count(self, name, n, floor=None):
        self.analysed[name] = n
        if floor is not None:
            self.floors[name] = floor
            if n < floor:
                raise AnalysisError('instance floor not met: %s = %d < %d (anchor vanished or universe shrank)'
                                    % (name, n, floor))

    def need(self, cond, what):
        if not cond:
            raise AnalysisError(what)

    def note(self, text):
        self.info.append(text)


def load_known():
    if not os.path.isfile(KNOWN_FILE):
        return []
    with open(KNOWN_FILE) as f:
        return json.load(f).get('findings', [])


def finish(ctx, explanation, write=True, quiet=False):
    """Classify findings, write evidence + replay files, print lines, return exit code."""
    known = {k['key']: k for k in load_known()
             if k.get('property') == ctx.prop and k.get('status') == 'known'}
    viol, kn = [], []
    for f in ctx.findings:
        (kn if f.full_key() in known else viol).append(f)
    # a known finding whose construct moved to another function of the same class (a handler split into helpers, a helper renamed):
    # the listed key `rule|Class.function|construct` matches nothing any more and exactly one unlisted finding of the same rule has the
    # same class and the same construct text.  One listed entry covers one site: a second site with the same construct stays a violation.
    def parts(key):
        p = key.split('|')
        return (p[0], p[1].split('.')[0], '|'.join(p[2:])) if len(p) >= 3 and '.' in p[1] else None
    hit = {f.full_key() for f in kn}
    moved = {}
    for k, e in known.items():
        pk = parts(k)
        if k in hit or pk is None or not pk[2]:
            continue
        same = [f for f in viol if parts(f.full_key()) == pk]
        if len(same) == 1 and id(same[0]) not in {id(x) for x in moved.values()}:
            moved[k] = same[0]
    # the same source line seen twice - once inside a caller the helper was expanded into, once in the helper itself - is one site
    def line_of(f):
        return f.site.split(' ')[0]
    for f in list(viol):
        pf = parts(f.full_key())
        if pf and any(parts(g.full_key()) == pf and line_of(g) == line_of(f) for g in kn):
            viol.remove(f)
            kn.append(f)
            twin = [g for g in kn if parts(g.full_key()) == pf and g.full_key() in known][0]
            known[f.full_key()] = dict(known[twin.full_key()], what='(same call site as %s, seen through an expanded helper) %s' % (twin.full_key().split('|')[1], known[twin.full_key()].get('what', '')))
    for k, f in moved.items():
        if f not in viol:
            continue
        viol.remove(f)
        kn.append(f)
        known[f.full_key()] = dict(known[k], what='(the construct listed as %s is now found in %s) %s' % (k, f.full_key().split('|')[1], known[k].get('what', '')))
    ev_dir = os.path.join(VERIF, 'evidence')
    lines = []
    seen_known = set()
    for f in kn:
        if f.full_key() in seen_known:
            continue
        seen_known.add(f.full_key())
        lines.append('KNOWN-FINDING: property=%s %s [%s] %s' % (ctx.prop, f.full_key(), f.site, known[f.full_key()].get('what', f.message)))
    replay_paths = []
    if write:
        rdir = os.path.join(ev_dir, 'replay')
        os.makedirs(rdir, exist_ok=True)
        for fn in os.listdir(rdir):
            if fn.startswith(ctx.prop + '-'):
                os.unlink(os.path.join(rdir, fn))
    for i, f in enumerate(viol):
        path = os.path.join(ev_dir, 'replay', '%s-%d.json' % (ctx.prop, i))
        if write:
            with open(path, 'w') as fh:
                json.dump({'property': ctx.prop, 'tier': ctx.tier, 'repo': ctx.src.root,
                           'rule_text': ctx.rules.get(f.rule, ''), **f.as_dict()}, fh, indent=1, default=str)
        replay_paths.append(path)
        lines.append('VIOLATION property=%s replay=%s' % (ctx.prop, path))
        lines.append('  %s  %s  at %s: %s' % (f.rule, f.key, f.site, f.message))
    n_obl = len(ctx.obligations)
    n_ok = sum(1 for o in ctx.obligations if o[3])
    distinct = len(set((o[0], o[1]) for o in ctx.obligations))
    samples = []
    per_rule = {}
    for o in ctx.obligations:
        per_rule.setdefault(o[0], [0, 0])
        per_rule[o[0]][0] += 1
        per_rule[o[0]][1] += 1 if o[3] else 0
    seen_rule = set()
    for o in ctx.obligations:
        if o[3] and o[0] not in seen_rule:
            seen_rule.add(o[0])
            samples.append({'rule': o[0], 'site': o[1], 'fact': o[2]})
    evidence = {
        'property_id': ctx.prop, 'tier': ctx.tier, 'seed': ctx.seed, 'level': 'other',
        'coverage': {
            'explanation': explanation,
            'obligations': n_obl, 'discharged': n_ok, 'known': len(kn), 'violated': len(viol),
            'evaluations': n_obl, 'distinct_nontrivial': distinct,
            'rule': 'one obligation per (rule, syntactic site) in the working tree; non-trivial = the site exists '
                    'and the rule predicate was evaluated on facts resolved from the source; distinct = distinct (rule, site) pairs',
            'samples': samples[:40],
            'per_rule': {k: {'obligations': v[0], 'discharged': v[1]} for k, v in sorted(per_rule.items())},
            'rules': ctx.rules,
            'analysed': ctx.analysed, 'floors': ctx.floors,
            'files_consulted': sorted(ctx.src.consulted),
            'not_decided': ctx.not_decided,
            'known_findings': [f.as_dict() for f in kn],
            'violations': [f.as_dict() for f in viol],
            'info': ctx.info,
            'exhaustive': True,
        },
        'assumptions': ctx.assumptions,
        'violations': len(viol),
        'wall_s': round(time.time() - ctx.t0, 3),
    }
    if write:
        os.makedirs(ev_dir, exist_ok=True)
        with open(os.path.join(ev_dir, ctx.prop + '.json'), 'w') as fh:
            json.dump(evidence, fh, indent=1, default=str)
    if not quiet:
        print('%s %s: %d obligations, %d discharged, %d known, %d violated; analysed %s; %.2fs'
              % (ctx.prop, ctx.tier, n_obl, n_ok, len(kn), len(viol),
                 ', '.join('%s=%s' % kv for kv in sorted(ctx.analysed.items())), time.time() - ctx.t0))
        for l in lines:
            print(l)
    return (1 if viol else 0), evidence, lines


def run_lifted(ctx, module, sub):
    """Run another property's rules in a sub-context for lifting.  If that analysis cannot see what it needs (AnalysisError) the host
    property's own rules still stand: the situation is recorded as a note and the lifted rule contributes nothing."""
    from .source import AnalysisError
    try:
        module.run(sub)
    except AnalysisError as e:
        ctx.note('lifted rules of %s could not be evaluated on this tree (%s); they are decided by that property\'s own check' % (sub.prop, str(e)[:160]))
        sub.findings = [f for f in sub.findings]
    return sub
