import argparse
import importlib
import json
import os
import sys
import traceback

from .source import SourceSet, AnalysisError
from .report import Ctx, finish

PROPS = ['C%02d' % i for i in range(1, 21)]


def run_property(prop, tier, src, seed=0, write=True, quiet=False):
    mod = importlib.import_module('pv.rules.' + prop.lower())
    ctx = Ctx(prop, tier, src, seed)
    mod.run(ctx)
    if tier == 'thorough':
        if hasattr(mod, 'run_thorough'):
            mod.run_thorough(ctx)
        from .thorough import bytecode_crosscheck
        bytecode_crosscheck(ctx)
        ctx.rule('%s.SELFTEST' % prop, 'checker self-test: every registered seeded violation of the current sources is reported by the named rule, every registered semantics-preserving rewrite stays silent')
        from .selftest import run_selftest
        run_selftest(ctx)
    code, ev, lines = finish(ctx, mod.EXPLANATION, write=write, quiet=quiet)
    return code, ctx, ev


def main(argv=None):
    ap = argparse.ArgumentParser(prog='pv')
    sub = ap.add_subparsers(dest='cmd', required=True)
    c = sub.add_parser('check')
    c.add_argument('prop')
    c.add_argument('--tier', default=os.environ.get('VERIF_TIER', 'quick'), choices=['quick', 'thorough'])
    c.add_argument('--repo', default=None)
    c.add_argument('--no-write', action='store_true')
    c.add_argument('--sub', action='append', default=[], help='ad-hoc in-memory edit rel@@old@@new (exactly one match)')
    e = sub.add_parser('explain')
    e.add_argument('path')
    a = ap.parse_args(argv)
    if a.cmd == 'explain':
        with open(a.path) as f:
            d = json.load(f)
        print(json.dumps(d, indent=1))
        print('\nTo re-decide on the current tree: python3 -m pv check %s' % d.get('property'))
        return 0
    seed = int(os.environ.get('VERIF_SEED', '0') or 0)
    props = PROPS if a.prop == 'all' else [a.prop]
    worst = 0
    shared_src = SourceSet(a.repo) if a.prop == 'all' and not a.sub else None
    for p in props:
        try:
            src = shared_src or SourceSet(a.repo)
            for spec in a.sub:
                rel, old, new = spec.split('@@')
                old = old.encode().decode('unicode_escape'); new = new.encode().decode('unicode_escape')
                txt = src.text(rel)
                if txt.count(old) != 1:
                    raise AnalysisError('--sub: %d matches for %r in %s' % (txt.count(old), old, rel))
                src = src.with_overlay(rel, txt.replace(old, new))
            code, ctx, ev = run_property(p, a.tier, src, seed, write=not a.no_write)
        except AnalysisError as ex:
            print('ANALYSIS-ERROR property=%s %s' % (p, ex))
            code = 2
        except Exception:
            print('ANALYSIS-ERROR property=%s internal error' % p)
            traceback.print_exc()
            code = 2
        worst = max(worst, code)
    return worst


if __name__ == '__main__':
    sys.exit(main())
