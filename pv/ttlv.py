"""TTLV schema extractor: for each class with its own read()/write() produce ordered element lists
(identity, tag, kind in {req,opt,rep}, version guards) for both directions (DESIGN.md section 1.6)."""
import ast
from .inline import flat

from .astutil import U, dotted, classes as classes_of, walk_local, is_self_attr, enum_member, call_name, params
from .index import Index
from .source import AnalysisError

VERSIONS = ['KMIP_1_0', 'KMIP_1_1', 'KMIP_1_2', 'KMIP_1_3', 'KMIP_1_4', 'KMIP_2_0']
TA2ATTRS = {'TEMPLATE_ATTRIBUTE': 'ATTRIBUTES', 'COMMON_TEMPLATE_ATTRIBUTE': 'COMMON_ATTRIBUTES', 'PRIVATE_KEY_TEMPLATE_ATTRIBUTE': 'PRIVATE_KEY_ATTRIBUTES',
            'PUBLIC_KEY_TEMPLATE_ATTRIBUTE': 'PUBLIC_KEY_ATTRIBUTES'}


def tag_of(e):
    em = enum_member(e, 'Tags')
    return em[1] if em else None


def version_cond(test):
    """kmip_version <op> enums.KMIPVersion.X -> (op, X)"""
    if isinstance(test, ast.Compare) and len(test.ops) == 1:
        l, r = test.left, test.comparators[0]
        em = enum_member(r, 'KMIPVersion')
        if isinstance(l, ast.Name) and l.id == 'kmip_version' and em:
            return (type(test.ops[0]).__name__, em[1])
    return None


def eval_guard(guards, v):
    iv = VERSIONS.index(v)
    for (op, x), pol in guards:
        ixx = VERSIONS.index(x)
        r = {'Lt': iv < ixx, 'LtE': iv <= ixx, 'Gt': iv > ixx, 'GtE': iv >= ixx, 'Eq': iv == ixx, 'NotEq': iv != ixx}[op]
        if r != pol:
            return False
    return True


def recv_name(e):
    if is_self_attr(e):
        return 'self.' + e.attr
    if isinstance(e, ast.Name):
        return e.id
    return U(e)


def is_raise_block(stmts):
    return any(isinstance(s, ast.Raise) for s in stmts)


class Schema:
    def __init__(self, src, index=None):
        self.src = src
        self.ix = index or Index(src)
        self._fixed = {}

    # ---- tags of classes / constructor calls
    def class_fixed_tag(self, ref):
        """Tag a class passes to its base __init__ (or ('default', T) when it is the default of a tag parameter)."""
        if ref in self._fixed:
            return self._fixed[ref]
        self._fixed[ref] = None
        k, init = self.ix.find_method(ref, '__init__')
        res = None
        if init is not None and not (k[0].endswith('primitives.py') and k[1] == 'Base'):
            ps = [a.arg for a in init.args.args]
            for n in ast.walk(init):
                if isinstance(n, ast.Call) and isinstance(n.func, ast.Attribute) and n.func.attr == '__init__':
                    for a in list(n.args) + [kw.value for kw in n.keywords]:
                        t = tag_of(a)
                        if t and t != 'DEFAULT':
                            res = t
            if res is None and 'tag' in ps:
                d = init.args.defaults
                off = len(ps) - len(d)
                i = ps.index('tag')
                if i >= off:
                    t = tag_of(d[i - off])
                    if t and t != 'DEFAULT':
                        res = ('default', t)
        self._fixed[ref] = res
        return res

    def ctor_tag(self, rel, call):
        if not isinstance(call, ast.Call):
            return None
        for kw in call.keywords:
            if kw.arg == 'tag':
                return tag_of(kw.value)
        ref = self.ix.resolve_class(rel, call.func)
        if ref is not None:
            for a in call.args:
                t = tag_of(a)
                if t:
                    return t
            ft = self.class_fixed_tag(ref)
            if isinstance(ft, tuple):
                return ft[1]
            return ft
        return None

    def codec_classes(self):
        """[(ref, read fn, write fn)] for classes in kmip/core that define both read and write themselves (primitives excluded)."""
        out = []
        for rel in self.src.modules('kmip/core'):
            if rel.endswith('primitives.py') or rel.endswith('utils.py'):
                continue
            t = self.src.tree(rel)
            for q, c in classes_of(t).items():
                own = {n.name: n for n in c.body if isinstance(n, ast.FunctionDef)}
                if 'read' in own and 'write' in own:
                    # helpers introduced after the rules were written (same class / module level) are expanded in place
                    out.append(((rel, q), flat(c, own['read']), flat(c, own['write'])))
        return out

    def extract(self, ref, fn, mode):
        return Extract(self, ref, fn, mode)


class Extract:
    def __init__(self, sch, ref, fn, mode):
        self.sch, self.ref, self.rel, self.fn, self.mode = sch, ref, ref[0], fn, mode
        self.cond_stack = []
        self.early_returns = []
        self.params = [a.arg for a in fn.args.args]
        self.streams = set()
        if len(self.params) > 1:
            self.out_stream = self.params[1]
            self.streams.add(self.params[1])
        self.assign = {}
        self.alias = {}
        self.events = []
        self.notes = []
        self.has_oversized = False
        self.class_guard = []     # guards under which the method raises VersionNotSupported at its top
        self.altgroup = None
        self._in_alt = False
        self.pre(fn.body)
        self.walk(fn.body, [], None)

    def pre(self, body):
        for n in ast.walk(ast.Module(body=body, type_ignores=[])):
            if isinstance(n, ast.Assign) and len(n.targets) == 1:
                t = n.targets[0]
                if isinstance(n.value, ast.Call) and (call_name(n.value) or '').endswith('BytearrayStream'):
                    self.streams.add(recv_name(t))
                if is_self_attr(t) and isinstance(n.value, ast.Name):
                    self.alias.setdefault(n.value.id, t.attr)
            if isinstance(n, ast.Call) and isinstance(n.func, ast.Attribute) and n.func.attr == 'append' and n.args and isinstance(n.args[0], ast.Name):
                self.alias.setdefault(n.args[0].id, recv_name(n.func.value).replace('self.', ''))

    def walk(self, stmts, guards, ctx):
        for si, s in enumerate(stmts):
            if isinstance(s, ast.Assign) and len(s.targets) == 1:
                self.assign[recv_name(s.targets[0])] = s.value
                self.scan_calls(s, guards, ctx)
            elif isinstance(s, (ast.Expr, ast.AugAssign, ast.Return)):
                self.scan_calls(s, guards, ctx)
            elif isinstance(s, ast.If):
                if isinstance(s.test, ast.UnaryOp) and isinstance(s.test.op, ast.Not) and s.orelse and version_cond(s.test) is None and self.presence(s.test) is None:
                    # `if not X: A else: B` is read as `if X: B else: A`
                    s = ast.copy_location(ast.If(test=s.test.operand, body=s.orelse, orelse=s.body), s)
                vc = version_cond(s.test)
                if vc:
                    if is_raise_block(s.body) and not guards and ctx is None and not self.events:
                        self.class_guard.append((vc, True))
                        self.walk(s.orelse, guards + [(vc, False)], ctx)
                        # statements after the if only run when the guard is false
                        continue_guards = guards + [(vc, False)]
                        rest = stmts[si + 1:]
                        self.walk(rest, continue_guards, ctx)
                        return
                    self.walk(s.body, guards + [(vc, True)], ctx)
                    self.walk(s.orelse, guards + [(vc, False)], ctx)
                    if s.body and isinstance(s.body[-1], ast.Return) and not s.orelse:
                        # `if <version cond>: ...; return` - what follows only runs when the condition is false
                        self.early_returns.append((vc, s.lineno))
                        self.walk(stmts[si + 1:], guards + [(vc, False)], ctx)
                        return
                    continue
                tn = self.tagnext(s.test)
                if tn is not None:
                    kind = 'req' if is_raise_block(s.orelse) else 'opt'
                    self.cond_stack.append(('tag', tn))
                    self.walk(s.body, guards, ('tag', tn, kind))
                    self.cond_stack.pop()
                    if not is_raise_block(s.orelse):
                        self.walk(s.orelse, guards, ctx)
                    continue
                tyn = self.typenext(s.test)
                if tyn is not None:
                    # a choice between encodings of one element: all arms of this if-chain form one alternative group
                    grp = self.altgroup if getattr(self, 'altgroup', None) is not None and getattr(self, '_in_alt', False) else id(s)
                    prev = (getattr(self, 'altgroup', None), getattr(self, '_in_alt', False))
                    self.altgroup, self._in_alt = grp, True
                    self.walk(s.body, guards, ctx if ctx else ('type', tyn, 'req'))
                    if not is_raise_block(s.orelse):
                        self.walk(s.orelse, guards, ctx if ctx else ('type', 'other', 'req'))
                    self.altgroup, self._in_alt = prev
                    continue
                if self.mode == 'write':
                    pres = self.presence(s.test)
                    if pres is not None:
                        name, pol = pres
                        body, orelse = (s.body, s.orelse) if pol else (s.orelse, s.body)
                        kind = 'req' if is_raise_block(orelse) else 'opt'
                        self.cond_stack.append(('pres', name.lstrip('_')))
                        self.walk(body, guards, ('pres', name, kind))
                        self.cond_stack.pop()
                        if not is_raise_block(orelse):
                            self.walk(orelse, guards, ctx)
                        continue
                if is_raise_block(s.body) and not s.orelse:
                    continue          # validation `if <bad>: raise`
                keep = ctx is not None and ctx[2] == 'rep'
                if is_raise_block(s.orelse) or (s.orelse and all(isinstance(x, ast.Break) for x in s.orelse) and keep):
                    self.walk(s.body, guards, ctx)          # the other arm rejects/leaves: presence is not optional here
                elif is_raise_block(s.body):
                    self.walk(s.orelse, guards, ctx)
                else:
                    # a test of the VALUE of a field decoded / held so far (not of its presence, the next tag or the version): elements under it
                    # exist only for some values of that field - recorded so that reader and writer can be compared on it
                    valued = [x for x in ast.walk(s.test) if is_self_attr(x)] and not any(isinstance(x, ast.Call) and isinstance(x.func, ast.Attribute) and x.func.attr in ('is_tag_next', 'is_type_next') for x in ast.walk(s.test))
                    valued = bool(valued) and self.presence(s.test) is None      # `if self.operation is not None` asks for presence, not for a value
                    if valued:
                        self.cond_stack.append(('value', ' '.join(U(s.test).split())[:60]))
                    self.walk(s.body, guards, ctx if keep else ('cond', U(s.test)[:50], 'opt'))
                    if valued:
                        self.cond_stack.pop()
                        self.cond_stack.append(('value', 'not (' + ' '.join(U(s.test).split())[:54] + ')'))
                    self.walk(s.orelse, guards, ctx if keep else ('cond', 'not ' + U(s.test)[:50], 'opt'))
                    if valued:
                        self.cond_stack.pop()
            elif isinstance(s, ast.While):
                tn = self.tagnext(s.test)
                self.walk(s.body, guards, ('tag', tn, 'rep') if tn else ('loop', U(s.test), 'rep'))
            elif isinstance(s, ast.For):
                srcn = recv_name(s.iter) if not isinstance(s.iter, ast.Call) else U(s.iter)
                if isinstance(s.target, ast.Name):
                    self.alias.setdefault(s.target.id, srcn.replace('self.', ''))
                self.scan_calls(ast.Expr(value=s.iter), guards, ctx)
                self.walk(s.body, guards, ('for', srcn, 'rep'))
            elif isinstance(s, ast.Try):
                self.walk(s.body, guards, ctx)
                for h in s.handlers:
                    self.walk(h.body, guards, ctx)
                self.walk(s.orelse, guards, ctx)
            elif isinstance(s, (ast.Raise, ast.Pass, ast.Break, ast.Continue, ast.Delete, ast.Assert)):
                pass
            else:
                self.notes.append('unhandled stmt %s at %d' % (type(s).__name__, s.lineno))

    def tagnext(self, test):
        if isinstance(test, ast.Call) and isinstance(test.func, ast.Attribute) and test.func.attr == 'is_tag_next' and test.args:
            a0 = test.args[0]
            if isinstance(a0, ast.Name) and tag_of(self.assign.get(a0.id)) :
                return tag_of(self.assign.get(a0.id))
            return tag_of(a0) or ('?' + U(a0))
        return None

    def typenext(self, test):
        if isinstance(test, ast.Call) and isinstance(test.func, ast.Attribute) and test.func.attr == 'is_type_next' and test.args:
            em = enum_member(test.args[0], 'Types')
            return em[1] if em else ('?' + U(test.args[0]))
        return None

    def presence(self, test):
        """(self attr, polarity) for presence tests on instance fields."""
        if is_self_attr(test):
            return test.attr, True
        if isinstance(test, ast.UnaryOp) and isinstance(test.op, ast.Not):
            p = self.presence(test.operand)
            return (p[0], not p[1]) if p else None
        if isinstance(test, ast.Compare) and len(test.ops) == 1:
            l, r = test.left, test.comparators[0]
            if isinstance(r, ast.Constant) and r.value is None and is_self_attr(l):
                if isinstance(test.ops[0], (ast.IsNot, ast.NotEq)):
                    return l.attr, True
                if isinstance(test.ops[0], (ast.Is, ast.Eq)):
                    return l.attr, False
            if isinstance(l, ast.Call) and call_name(l) == 'len' and l.args and is_self_attr(l.args[0]) and isinstance(r, ast.Constant) and r.value == 0:
                if isinstance(test.ops[0], (ast.Gt, ast.NotEq)):
                    return l.args[0].attr, True
                if isinstance(test.ops[0], ast.Eq):
                    return l.args[0].attr, False
        return None

    def scan_calls(self, s, guards, ctx):
        for n in ast.walk(s):
            if not (isinstance(n, ast.Call) and isinstance(n.func, ast.Attribute)):
                continue
            if n.func.attr == 'is_oversized':
                self.has_oversized = True
            if n.func.attr != self.mode:
                continue
            recv = n.func.value
            rn = recv_name(recv)
            if rn in self.streams or (isinstance(recv, ast.Call) and call_name(recv) == 'super'):
                continue
            if not n.args:
                continue
            a0 = recv_name(n.args[0])
            if a0 not in self.streams:
                self.notes.append('call %s.%s on non-stream %s at %d' % (rn, self.mode, a0, n.lineno))
                continue
            self.event(rn, guards, ctx, n, a0)

    def event(self, rn, guards, ctx, call, stream):
        ident = rn.replace('self.', '') if rn.startswith('self.') else rn
        seen = set()
        while not rn.startswith('self.') and ident in self.alias and ident not in seen:
            seen.add(ident)
            ident = self.alias[ident]
        ident = ident.lstrip('_')
        tag = None
        kind = 'req'
        if ctx:
            kind = ctx[2]
            if ctx[0] == 'tag':
                tag = ctx[1]
        cls = None
        v = self.assign.get(rn)
        if isinstance(v, ast.Call):
            cls = self.sch.ix.resolve_class(self.rel, v.func)
        if tag is None:
            tag = self.sch.ctor_tag(self.rel, v) if v is not None else None
        if tag is None and self.mode == 'write':
            tag = self.setter_tag(rn)
            if tag is None and not rn.startswith('self.') and rn in self.alias:
                tag = self.setter_tag('self.' + self.alias[rn]) if not self.alias[rn].startswith('self.') else self.setter_tag(self.alias[rn])
        if isinstance(tag, str) and tag.startswith('?'):
            tag = None          # self-describing element: its tag is whatever the field object carries
        self.events.append(dict(ident=ident, tag=tag, kind=kind, guards=list(guards), line=call.lineno, ctx=ctx[0] if ctx else None, stream=stream, cls=cls, recv=rn,
                                conds=list(self.cond_stack),
                                alt=self.altgroup if getattr(self, '_in_alt', False) else None))

    def setter_tag(self, rn):
        ix = self.sch.ix
        if not rn.startswith('self.'):
            v = self.assign.get(rn)
            if isinstance(v, ast.Call) and (call_name(v) or '').endswith('convert_template_attribute_to_attributes') and v.args:
                st = self.setter_tag(recv_name(v.args[0]))
                return TA2ATTRS.get(st, 'ATTRIBUTES')
            if isinstance(v, ast.Call) and (call_name(v) or '').endswith('convert_attributes_to_template_attribute') and v.args:
                return 'TEMPLATE_ATTRIBUTE'
            return None
        attr = rn[5:]
        tags = set()
        for k in ix.mro(self.ref):
            c = ix.class_node(k)
            for m_ in c.body:
                if not isinstance(m_, ast.FunctionDef) or m_.name in ('read', 'write'):
                    continue
                is_setter = m_.name == attr.lstrip('_') and any(isinstance(d, ast.Attribute) and d.attr == 'setter' for d in m_.decorator_list)
                for n in ast.walk(m_):
                    if isinstance(n, ast.Assign) and len(n.targets) == 1 and recv_name(n.targets[0]) == rn:
                        t = self.sch.ctor_tag(k[0], n.value)
                        if t:
                            tags.add(t)
                    if is_setter:
                        if isinstance(n, ast.Call) and isinstance(n.func, ast.Attribute) and n.func.attr == 'append' and n.args:
                            t = self.sch.ctor_tag(k[0], n.args[0])
                            if t:
                                tags.add(t)
                        if isinstance(n, ast.Call) and call_name(n) == 'isinstance' and len(n.args) == 2:
                            cands = n.args[1].elts if isinstance(n.args[1], ast.Tuple) else [n.args[1]]
                            for cnd in cands:
                                r = ix.resolve_class(k[0], cnd) if isinstance(cnd, (ast.Attribute, ast.Name)) else None
                                if r is not None:
                                    ft = self.sch.class_fixed_tag(r)
                                    if isinstance(ft, str):
                                        tags.add(ft)
                        if isinstance(n, ast.Compare) and isinstance(n.left, ast.Attribute) and n.left.attr == 'tag':
                            t = tag_of(n.comparators[0])
                            if t:
                                tags.add(t)
        if len(tags) == 1:
            return tags.pop()
        if len(tags) > 1:
            return '|'.join(sorted(tags))
        return None

    def flat(self, v):
        evs = [dict(e) for e in self.events if eval_guard(e['guards'], v)]
        out = []
        for e in evs:
            if out:
                p = out[-1]
                # alternatives of one element (type choice)
                if e['alt'] is not None and p['alt'] == e['alt']:
                    if p['tag'] != e['tag']:
                        p['tag'] = p['tag'] if p['tag'] == e['tag'] else (p['tag'] or e['tag'])
                    continue
                # do-while repetition: mandatory first read followed by a loop over the same element
                same = (p['tag'] is not None and p['tag'] == e['tag']) or (p['tag'] is None and e['tag'] is None and p['ident'] == e['ident'])
                if same and p['kind'] == 'req' and e['kind'] == 'rep':
                    p['kind'] = 'rep'
                    p['min1'] = True
                    continue
            out.append(e)
        return out

    def defined_under(self, v):
        return not any(eval_guard([g], v) for g in self.class_guard)
