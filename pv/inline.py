"""Source-level inlining of same-class helper methods ("extract method" undone).

Several rules reason about ONE function with a CFG (the session's message loop, the batch loop, the policy monitor's scan,
client operations).  A maintainer who moves part of such a function into a private helper of the same class changes nothing
about the behaviour, so the rules must see through it.  `get_method_flat(cls, name, keep)` returns a copy of the method in which
calls of same-class methods are replaced by the callee's body, recursively (bounded), wherever that can be done exactly:

  self.m(a, b)              as a statement
  x = self.m(a, b)          (x a name, a tuple of names, or an attribute)
  return self.m(a, b)
  if self.m(a, b): / if not self.m(a, b):        (the call is hoisted into a temporary first)

A callee is expanded only when: it is defined in the same class body, is not in `keep` (methods the rule treats as primitives),
is undecorated (or a staticmethod), takes no *args/**kwargs, is not a generator, has no nested scopes / global / nonlocal, is not
being expanded already (recursion), and - after moving the statements that follow an `if ...: return` into its else side -
every `return` is in tail position (no return inside a loop, a with, or a try that has a finally).  Everything else is left
as a call.  Nodes of the callee keep their own line numbers, so reports still point at the real source line.

Parameters whose argument is a name, a constant or an attribute chain and that the callee never rebinds are substituted;
the others are bound by an assignment in front of the body.  When the call's value is assigned to a name x and the callee
returns the same local r on every path, r is renamed to x (this restores the text before an "extract method" refactoring);
other callee locals that clash with a name of the caller get a suffix.
"""
import ast

MAX_DEPTH = 3


def clone(node):
    """deep copy of an AST without following _parent links"""
    if isinstance(node, list):
        return [clone(x) for x in node]
    if not isinstance(node, ast.AST):
        return node
    new = type(node)()
    for f in node._fields:
        if hasattr(node, f):
            setattr(new, f, clone(getattr(node, f)))
    for a in ('lineno', 'col_offset', 'end_lineno', 'end_col_offset', '_synthetic_keyerror'):
        if hasattr(node, a):
            setattr(new, a, getattr(node, a))
    return new


def _terminates(stmts):
    return bool(stmts) and isinstance(stmts[-1], (ast.Return, ast.Raise))


def _all_terminate(stmts):
    """every path through stmts ends in return/raise"""
    if not stmts:
        return False
    s = stmts[-1]
    if isinstance(s, (ast.Return, ast.Raise)):
        return True
    if isinstance(s, ast.If):
        return bool(s.orelse) and _all_terminate(s.body) and _all_terminate(s.orelse)
    if isinstance(s, ast.Try) and not s.finalbody:
        tail = s.orelse if s.orelse else s.body
        return _all_terminate(tail) and all(_all_terminate(h.body) for h in s.handlers)
    if isinstance(s, ast.With):
        return _all_terminate(s.body)
    return False


def _has_return(stmts):
    return any(isinstance(n, ast.Return) for s in stmts for n in ast.walk(s))


def _else_after_return(stmts):
    """move the statements that follow a terminating branch into the other branch:
       if c: ...return     rest   ->  if c: ...return  else: rest
       try: A except: ...return   rest  ->  try: A except: ...return  else: rest     (all handlers terminate, no finally)
    Only done where a return is involved (raise-only guards stay as they are)."""
    out = []
    for i, s in enumerate(stmts):
        rest = stmts[i + 1:]
        if isinstance(s, ast.If):
            s.body = _else_after_return(s.body)
            s.orelse = _else_after_return(s.orelse)
            if rest and _has_return(s.body + s.orelse):
                if _all_terminate(s.body) and not _all_terminate(s.orelse):
                    s.orelse = _else_after_return(s.orelse + rest)
                    out.append(s)
                    return out
                if s.orelse and _all_terminate(s.orelse) and not _all_terminate(s.body):
                    s.body = _else_after_return(s.body + rest)
                    out.append(s)
                    return out
        elif isinstance(s, ast.Try) and not s.finalbody:
            s.body = _else_after_return(s.body)
            s.orelse = _else_after_return(s.orelse)
            for h in s.handlers:
                h.body = _else_after_return(h.body)
            if rest and s.handlers and all(_all_terminate(h.body) for h in s.handlers) and any(_has_return(h.body) for h in s.handlers) \
                    and not _has_return(s.body) and not _all_terminate(s.orelse or [ast.Pass()]):
                s.orelse = _else_after_return(s.orelse + rest)
                out.append(s)
                return out
        elif isinstance(s, ast.With):
            s.body = _else_after_return(s.body)
        out.append(s)
    return out


_LOOP_K = [0]


def _lower_loop_returns(stmts):
    """`for x in xs: ... return V ...` (a return inside a loop, not the tail of the function) becomes
         hit__k = False;  for x in xs: ... [ret__k = V;] hit__k = True; break ...;  if hit__k: return V
    so that the only returns left sit in if-trees.  When every return of the loop hands back the same constant the constant is returned after
    the loop (no ret__k).  Loops with an else clause, returns inside an inner loop or inside try/with within the loop are left alone."""
    out = []
    for s in stmts:
        if isinstance(s, ast.If):
            s.body = _lower_loop_returns(s.body)
            s.orelse = _lower_loop_returns(s.orelse)
            out.append(s)
            continue
        if isinstance(s, (ast.For, ast.While)) and not s.orelse and _has_return(s.body):
            rets = []
            ok = [True]

            def scan(block):
                for t in block:
                    if isinstance(t, ast.Return):
                        rets.append(t)
                    elif isinstance(t, ast.If):
                        scan(t.body)
                        scan(t.orelse)
                    elif _has_return([t]):
                        ok[0] = False
            scan(s.body)
            if ok[0] and rets:
                _LOOP_K[0] += 1
                k = _LOOP_K[0]
                hit, ret = 'hit__%d' % k, 'ret__%d' % k
                consts = {(type(r.value.value), r.value.value) if isinstance(r.value, ast.Constant) else None for r in rets}
                same = len(consts) == 1 and None not in consts
                L = lambda node, at: ast.copy_location(node, at)

                def rewrite(block):
                    res = []
                    for t in block:
                        if isinstance(t, ast.Return):
                            if not same:
                                res.append(L(ast.Assign(targets=[L(ast.Name(id=ret, ctx=ast.Store()), t)], value=t.value if t.value is not None else L(ast.Constant(value=None), t)), t))
                            res.append(L(ast.Assign(targets=[L(ast.Name(id=hit, ctx=ast.Store()), t)], value=L(ast.Constant(value=True), t)), t))
                            res.append(L(ast.Break(), t))
                            break
                        if isinstance(t, ast.If):
                            t.body = rewrite(t.body)
                            t.orelse = rewrite(t.orelse)
                        res.append(t)
                    return res
                s.body = rewrite(s.body)
                out.append(L(ast.Assign(targets=[L(ast.Name(id=hit, ctx=ast.Store()), s)], value=L(ast.Constant(value=False), s)), s))
                out.append(s)
                rv = clone(rets[0].value) if same else L(ast.Name(id=ret, ctx=ast.Load()), s)
                out.append(L(ast.If(test=L(ast.Name(id=hit, ctx=ast.Load()), s), body=[L(ast.Return(value=rv), s)], orelse=[]), s))
                ast.fix_missing_locations(out[-1])
                continue
        out.append(s)
    return out


def _sink_rest(stmts, budget=None):
    """Returns that are not in tail position - `if a: if b: return X` followed by more statements - are made tail returns by copying the
    statements that follow the if-tree into every arm of it that can fall through (continuation duplication; bounded: the copied
    remainder is small and is copied at most 40 times).  Returns the new list, or None when a return sits in a loop / try / with or the
    bound is hit."""
    budget = budget if budget is not None else [2500]          # AST nodes that may be copied in total
    out = list(stmts)
    i = len(out) - 1
    while i >= 0:
        s = out[i]
        rest = out[i + 1:]
        if isinstance(s, ast.If) and _has_return([s]):
            # first make the arms themselves well-formed
            b = _sink_rest(s.body, budget)
            o = _sink_rest(s.orelse, budget) if s.orelse else []
            if b is None or o is None:
                return None
            s.body, s.orelse = b, o
            if rest:
                if sum(1 for r in rest for _ in ast.walk(r)) > 120:
                    return None

                def push(arm):
                    if _all_terminate(arm):
                        return arm
                    if arm and isinstance(arm[-1], ast.If) and _has_return([arm[-1]]):
                        last = arm[-1]
                        last.body = push(last.body)
                        last.orelse = push(last.orelse)
                        return arm
                    budget[0] -= rest_size
                    return arm + [clone(r) for r in rest]
                rest_size = sum(1 for r in rest for _ in ast.walk(r))
                s.body = push(s.body)
                s.orelse = push(s.orelse)
                if budget[0] < 0:
                    return None
                out = out[:i + 1]
        elif _has_return([s]) and not isinstance(s, ast.Return):
            return None                 # a return inside a loop / try / with that is not the tail: not handled here
        elif isinstance(s, ast.Return) and rest:
            out = out[:i + 1]           # dead code after a return
        i -= 1
    return out


def _tail_only(stmts):
    """every Return below is the last statement of a block in tail position"""
    for i, s in enumerate(stmts):
        last = i == len(stmts) - 1
        if isinstance(s, ast.Return):
            if not last:
                return False
            continue
        if isinstance(s, ast.If) and last:
            if not (_tail_only(s.body) and _tail_only(s.orelse)):
                return False
            continue
        if isinstance(s, ast.Try) and last and not s.finalbody:
            # with an else side the body must not return (its returns would skip the else side - fine - but the converted
            # assignment would fall into it)
            if s.orelse and _has_return(s.body):
                return False
            if not (_tail_only(s.body) and _tail_only(s.orelse) and all(_tail_only(h.body) for h in s.handlers)):
                return False
            continue
        if isinstance(s, ast.With) and last:
            if not _tail_only(s.body):
                return False
            continue
        if any(isinstance(n, ast.Return) for n in ast.walk(s)):
            return False
    return True


def _may_fall_off(stmts):
    return not _all_terminate(stmts)


def _params(fn, static):
    a = fn.args
    names = [x.arg for x in a.posonlyargs + a.args]
    if not static and names:
        names = names[1:]
    defaults = dict(zip(reversed(names), reversed(a.defaults)))
    for x, d in zip(a.kwonlyargs, a.kw_defaults):
        names.append(x.arg)
        if d is not None:
            defaults[x.arg] = d
    return names, defaults


def _is_static(fn):
    return any(isinstance(d, ast.Name) and d.id == 'staticmethod' for d in fn.decorator_list)


def _expandable(callee):
    if callee.decorator_list and not (_is_static(callee) and len(callee.decorator_list) == 1):
        return False
    if callee.args.kwarg:
        return False
    for n in ast.walk(callee):
        if n is callee:
            continue
        if isinstance(n, (ast.FunctionDef, ast.AsyncFunctionDef, ast.ClassDef, ast.Lambda, ast.Yield, ast.YieldFrom, ast.Global, ast.Nonlocal, ast.Await)):
            return False
    return True


def _pure_arg(e):
    if isinstance(e, (ast.Name, ast.Constant)):
        return True
    if isinstance(e, ast.Attribute):
        return _pure_arg(e.value)
    return False


class _Subst(ast.NodeTransformer):
    def __init__(self, names, exprs):
        self.names, self.exprs = names, exprs

    def visit_Name(self, node):
        if node.id in self.exprs and isinstance(node.ctx, ast.Load):
            return ast.copy_location(clone(self.exprs[node.id]), node)
        if node.id in self.names:
            return ast.copy_location(ast.Name(id=self.names[node.id], ctx=node.ctx), node)
        return node

    def visit_ExceptHandler(self, node):
        self.generic_visit(node)
        if node.name in self.names:
            node.name = self.names[node.name]
        return node


def _stored_names(stmts):
    out = set()
    for s in stmts:
        for n in ast.walk(s):
            if isinstance(n, ast.Name) and isinstance(n.ctx, (ast.Store, ast.Del)):
                out.add(n.id)
            if isinstance(n, ast.ExceptHandler) and n.name:
                out.add(n.name)
    return out


def _pure_elem(e):
    return _pure_arg(e)


def _row_ok(e, width):
    return isinstance(e, (ast.Tuple, ast.List)) and len(e.elts) == width and all(_pure_elem(x) for x in e.elts)


class _Unroller(ast.NodeTransformer):
    """loops and comprehensions over a tuple display of names (a *args parameter that was substituted): unrolled; likewise a loop
    `for a, b, c in [(A1, B1, C1), (A2, B2, C2)]` over a display of rows of names / constants / fields"""

    def visit_For(self, node):
        self.generic_visit(node)
        it = node.iter
        if not (isinstance(it, (ast.Tuple, ast.List)) and len(it.elts) <= 16):
            return node
        if isinstance(node.target, ast.Name):
            if not (len(it.elts) <= 8 and all(_pure_elem(e) for e in it.elts)):
                return node
            tnames = [node.target.id]
        elif isinstance(node.target, (ast.Tuple, ast.List)) and all(isinstance(x, ast.Name) for x in node.target.elts) and it.elts \
                and all(_row_ok(e, len(node.target.elts)) for e in it.elts):
            tnames = [x.id for x in node.target.elts]
        else:
            return node
        if node.orelse:
            return node
        for b in node.body:
            for n in ast.walk(b):
                if isinstance(n, (ast.Break, ast.Continue)):
                    return node
                if isinstance(n, ast.Name) and n.id in tnames and isinstance(n.ctx, (ast.Store, ast.Del)):
                    return node
        out = []
        for e in it.elts:
            sub = _Subst({}, {node.target.id: e} if isinstance(node.target, ast.Name) else dict(zip(tnames, e.elts)))
            for b in node.body:
                out.append(sub.visit(clone(b)))
        return out or [ast.copy_location(ast.Pass(), node)]

    def visit_ListComp(self, node):
        self.generic_visit(node)
        if len(node.generators) == 1:
            g = node.generators[0]
            if isinstance(g.iter, (ast.Tuple, ast.List)) and len(g.iter.elts) <= 8 and all(_pure_elem(e) for e in g.iter.elts) \
                    and isinstance(g.target, ast.Name) and not g.ifs and not g.is_async:
                elts = [_Subst({}, {g.target.id: e}).visit(clone(node.elt)) for e in g.iter.elts]
                return ast.copy_location(ast.List(elts=elts, ctx=ast.Load()), node)
        return node


def _fold_appends(stmts):
    """v = []  directly followed by  v.append(E1) ... v.append(Ek)   ->   v = [E1, ..., Ek]     (what an unrolled comprehension leaves)"""
    out = []
    i = 0
    while i < len(stmts):
        s = stmts[i]
        if isinstance(s, ast.Assign) and len(s.targets) == 1 and isinstance(s.targets[0], ast.Name) and isinstance(s.value, ast.List) and not s.value.elts:
            v = s.targets[0].id
            elts = []
            j = i + 1
            while j < len(stmts):
                t = stmts[j]
                if isinstance(t, ast.Expr) and isinstance(t.value, ast.Call) and isinstance(t.value.func, ast.Attribute) and t.value.func.attr == 'append' \
                        and isinstance(t.value.func.value, ast.Name) and t.value.func.value.id == v and len(t.value.args) == 1 and not t.value.keywords \
                        and not any(isinstance(x, ast.Name) and x.id == v for x in ast.walk(t.value.args[0])):
                    elts.append(t.value.args[0])
                    j += 1
                else:
                    break
            if elts:
                out.append(ast.copy_location(ast.Assign(targets=s.targets, value=ast.copy_location(ast.List(elts=elts, ctx=ast.Load()), s)), s))
                i = j
                continue
        for fld in ('body', 'orelse', 'finalbody'):
            b = getattr(s, fld, None)
            if isinstance(b, list) and b and isinstance(b[0], ast.stmt) and not isinstance(s, (ast.FunctionDef, ast.ClassDef)):
                setattr(s, fld, _fold_appends(b))
        out.append(s)
        i += 1
    return out


def _literal_iterables(stmts):
    """`rows = [<display of rows>]` assigned once and read only as the iterable of for-loops: the display is moved into the loops (then
    unrolled).  The rows are names / constants / field chains; no field named in them and none of the names is stored anywhere in the
    statements, so reading them at loop time instead of at the assignment yields the same objects."""
    mod = ast.Module(body=stmts, type_ignores=[])
    stores, loads = {}, {}
    stored_attrs = set()
    for n in ast.walk(mod):
        if isinstance(n, ast.Name):
            (stores if isinstance(n.ctx, (ast.Store, ast.Del)) else loads).setdefault(n.id, []).append(n)
        elif isinstance(n, ast.Attribute) and isinstance(n.ctx, (ast.Store, ast.Del)):
            stored_attrs.add(n.attr)
        elif isinstance(n, ast.Call) and isinstance(n.func, ast.Name) and n.func.id in ('setattr', 'delattr'):
            stored_attrs.add('*')
    iters = {id(n.iter): n for n in ast.walk(mod) if isinstance(n, ast.For)}

    def cells(d):
        for e in d.elts:
            if isinstance(e, (ast.Tuple, ast.List)):
                for x in e.elts:
                    yield x
            else:
                yield e

    def stable(x):
        while isinstance(x, ast.Attribute):
            if x.attr in stored_attrs or '*' in stored_attrs:
                return False
            x = x.value
        return isinstance(x, ast.Constant) or (isinstance(x, ast.Name) and len(stores.get(x.id, ())) <= 1)
    cands = {}

    def scan(block):
        for s in block:
            if isinstance(s, ast.Assign) and len(s.targets) == 1 and isinstance(s.targets[0], ast.Name) and isinstance(s.value, (ast.List, ast.Tuple)) and s.value.elts:
                v = s.targets[0].id
                if len(stores.get(v, ())) == 1 and loads.get(v) and all(id(l) in iters for l in loads[v]) and len(s.value.elts) <= 16 \
                        and all(_pure_elem(x) and stable(x) for x in cells(s.value)):
                    cands[v] = s
            for fld in ('body', 'orelse', 'finalbody'):
                b = getattr(s, fld, None)
                if isinstance(b, list) and b and isinstance(b[0], ast.stmt) and not isinstance(s, (ast.FunctionDef, ast.ClassDef)):
                    scan(b)
            if isinstance(s, ast.Try):
                for h in s.handlers:
                    scan(h.body)
    scan(mod.body)
    if not cands:
        return stmts
    for v, s in cands.items():
        for l in loads[v]:
            iters[id(l)].iter = clone(s.value)

    class Drop(ast.NodeTransformer):
        def visit_Assign(self, node):
            return ast.copy_location(ast.Pass(), node) if any(node is s for s in cands.values()) else node
    return Drop().visit(mod).body


def _simplify(stmts):
    stmts = _literal_iterables(stmts)
    mod = ast.Module(body=stmts, type_ignores=[])
    mod = _Unroller().visit(mod)
    return _fold_appends(mod.body)


def _fold_temp_lists(stmts):
    """t = [E0, E1]  directly followed by  x = t[k]  /  a, b = t   with t a generated temporary   ->   x = Ek  /  a = E0; b = E1"""
    out = []
    i = 0
    while i < len(stmts):
        s = stmts[i]
        nx = stmts[i + 1] if i + 1 < len(stmts) else None
        if (isinstance(s, ast.Assign) and len(s.targets) == 1 and isinstance(s.targets[0], ast.Name) and '__' in s.targets[0].id
                and isinstance(s.value, (ast.List, ast.Tuple)) and isinstance(nx, ast.Assign) and len(nx.targets) == 1):
            t = s.targets[0].id
            v = nx.value
            if isinstance(v, ast.Subscript) and isinstance(v.value, ast.Name) and v.value.id == t and isinstance(v.slice, ast.Constant) \
                    and isinstance(v.slice.value, int) and -len(s.value.elts) <= v.slice.value < len(s.value.elts):
                out.append(ast.copy_location(ast.Assign(targets=nx.targets, value=s.value.elts[v.slice.value]), nx))
                i += 2
                continue
            if isinstance(v, ast.Name) and v.id == t and isinstance(nx.targets[0], ast.Tuple):
                out.extend(_Flattener._assign_back(nx.targets[0], s.value, nx))
                i += 2
                continue
        out.append(s)
        i += 1
    return out


class _Flattener:
    def __init__(self, scope, keep, module_level=False):
        """scope: a ClassDef (methods called through self/cls/<ClassName>) or a Module (functions called by plain name)"""
        self.scope = scope
        self.module_level = module_level
        self.methods = {s.name: s for s in scope.body if isinstance(s, ast.FunctionDef)}
        self.keep = set(keep)
        self.k = 0
        self.expanded = []
        # module-level functions that the rules do not know (not in pv/prims.py for this module): expandable from methods too
        self.module_helpers = {}
        if not module_level:
            mod = scope
            while mod is not None and not isinstance(mod, ast.Module):
                mod = getattr(mod, '_parent', None)
            rel = getattr(mod, '_rel', None) if mod is not None else None
            if rel is not None:
                from .prims import PRIMS
                known = set(PRIMS.get(rel + '::', ()))
                self.module_helpers = {x.name: x for x in mod.body if isinstance(x, ast.FunctionDef) and x.name not in known}
                # helpers the class inherits from base classes of the same module that the rules do not know either (Base.read_exactly
                # called as self.read_exactly from every primitive): expandable like own helpers, unless overridden
                classes = {c.name: c for c in mod.body if isinstance(c, ast.ClassDef)}
                seen, todo = {scope.name}, [b.id for b in getattr(scope, 'bases', ()) if isinstance(b, ast.Name)]
                while todo:
                    bn = todo.pop(0)
                    if bn in seen or bn not in classes:
                        continue
                    seen.add(bn)
                    base = classes[bn]
                    bknown = PRIMS.get('%s::%s' % (rel, bn))
                    if bknown is not None:
                        for f in base.body:
                            if isinstance(f, ast.FunctionDef) and f.name not in bknown and f.name not in self.methods and not f.decorator_list:
                                self.methods[f.name] = f
                    todo.extend(b.id for b in base.bases if isinstance(b, ast.Name))

    def static(self, callee):
        return self.module_level or _is_static(callee)

    def callee_of(self, call, stack):
        f = call.func
        if not self.module_level and isinstance(f, ast.Name) and f.id in self.module_helpers and f.id not in stack:
            # a module-level helper function introduced after the rules were written, called from a method
            callee = self.module_helpers[f.id]
            if any(isinstance(a, ast.Starred) for a in call.args) or any(k.arg is None for k in call.keywords) or callee.decorator_list or not _expandable(callee):
                return None
            return callee
        if self.module_level:
            if not isinstance(f, ast.Name):
                return None
            name = f.id
        else:
            if not isinstance(f, ast.Attribute) or not isinstance(f.value, ast.Name):
                return None
            if f.value.id not in ('self', 'cls', self.scope.name):
                return None
            name = f.attr
        callee = self.methods.get(name)
        if callee is None or name in self.keep or name in stack:
            return None
        if not self.module_level and f.value.id == self.scope.name and not _is_static(callee):
            return None
        if any(isinstance(a, ast.Starred) for a in call.args) or any(k.arg is None for k in call.keywords):
            return None
        if self.module_level:
            if callee.decorator_list:
                return None
        if not _expandable(callee):
            return None
        return callee

    def generator_of(self, call, stack):
        """the helper generator (own / inherited new method called through self) that `call` invokes, when it has the one shape that
        merges into the caller's loop:   [statements without yield]  for T in IT: ...statements without yield...; yield V   """
        f = call.func
        if self.module_level or not (isinstance(f, ast.Attribute) and isinstance(f.value, ast.Name) and f.value.id == 'self'):
            return None
        callee = self.methods.get(f.attr)
        if callee is None or f.attr in self.keep or f.attr in stack or callee.decorator_list or callee.args.kwarg or callee.args.vararg:
            return None
        if any(isinstance(a, ast.Starred) for a in call.args) or any(k.arg is None for k in call.keywords):
            return None
        body = list(callee.body)
        if body and isinstance(body[0], ast.Expr) and isinstance(body[0].value, ast.Constant) and isinstance(body[0].value.value, str):
            body = body[1:]
        if not body or not isinstance(body[-1], ast.For) or body[-1].orelse:
            return None
        loop = body[-1]
        ys = [n for n in ast.walk(callee) if isinstance(n, (ast.Yield, ast.YieldFrom))]
        last = loop.body[-1] if loop.body else None
        def in_tail(stmts):
            # the yield is the last thing an iteration does: the last statement, or inside one arm of a trailing if / elif / else chain
            if not stmts:
                return False
            l_ = stmts[-1]
            if isinstance(l_, ast.Expr) and l_.value is ys[0]:
                return True
            if isinstance(l_, ast.If):
                return in_tail(l_.body) or in_tail(l_.orelse)
            return False
        if len(ys) != 1 or not isinstance(ys[0], ast.Yield) or ys[0].value is None or not in_tail(loop.body):
            return None
        for n in ast.walk(callee):
            if n is not callee and isinstance(n, (ast.FunctionDef, ast.AsyncFunctionDef, ast.ClassDef, ast.Lambda, ast.Global, ast.Nonlocal, ast.Await, ast.Return)):
                return None
        return callee

    def expand_generator(self, loop, callee, caller_names, stack, depth):
        """for X in self.gen(args): BODY   ->   <gen's statements before its loop>;  for T in IT: <gen's loop body before the yield>; X = V; BODY
        (the generator runs exactly up to its yield each time the caller's loop asks for the next item; `continue` in its loop body moves on to
        the next item of IT in both spellings, `break`/`return` in BODY abandon the generator, which has nothing after its loop)"""
        if loop.orelse:
            return None
        call = loop.iter
        body = clone(list(callee.body))
        if body and isinstance(body[0], ast.Expr) and isinstance(body[0].value, ast.Constant) and isinstance(body[0].value.value, str):
            body = body[1:]
        names, defaults = _params(callee, False)
        if len(call.args) > len(names):
            return None
        argmap = dict(zip(names, call.args))
        for k in call.keywords:
            if k.arg not in names or k.arg in argmap:
                return None
            argmap[k.arg] = k.value
        for p in names:
            if p not in argmap:
                if p not in defaults:
                    return None
                argmap[p] = defaults[p]
        stored = _stored_names(body)
        rename, exprs, pre = {}, {}, []
        arg_names = {n.id for a_ in argmap.values() for n in ast.walk(a_) if isinstance(n, ast.Name)}
        for l in sorted(stored - set(names)):
            if l in caller_names or l in arg_names:
                rename[l] = '%s__%s' % (l, callee.name.strip('_'))
        for p in names:
            a_ = argmap[p]
            if p not in stored and _pure_arg(a_):
                if isinstance(a_, ast.Name):
                    rename[p] = a_.id
                else:
                    exprs[p] = a_
            else:
                nm = p if (p not in caller_names and p not in arg_names) else '%s__%s' % (p, callee.name.strip('_'))
                rename[p] = nm
                pre.append(ast.copy_location(ast.Assign(targets=[ast.Name(id=nm, ctx=ast.Store())], value=clone(a_)), call))
        sub = _Subst(rename, exprs)
        body = [sub.visit(st_) for st_ in body]
        gl = body[-1]

        def put(stmts):
            l_ = stmts[-1]
            if isinstance(l_, ast.Expr) and isinstance(l_.value, ast.Yield):
                bind_ = self._assign_back(clone(loop.target), l_.value.value, loop)
                return stmts[:-1] + bind_ + list(loop.body)
            if isinstance(l_, ast.If):
                has_ = lambda b_: any(isinstance(n_, ast.Yield) for x_ in b_ for n_ in ast.walk(x_))
                if has_(l_.body):
                    l_.body = put(l_.body)
                else:
                    l_.orelse = put(l_.orelse)
                return stmts
            return stmts
        merged = ast.copy_location(ast.For(target=gl.target, iter=gl.iter, body=put(list(gl.body)), orelse=[]), loop)
        ast.fix_missing_locations(merged)
        self.expanded.append(callee.name)
        return self.block(pre + body[:-1] + [merged], caller_names | set(rename.values()), stack + (callee.name,), depth + 1)

    def expand(self, call, callee, target, caller_names, stack, depth):
        """-> list of statements replacing the call, or None.  target: None (value discarded), 'return', or an assignment target node"""
        body = clone(callee.body)
        if body and isinstance(body[0], ast.Expr) and isinstance(body[0].value, ast.Constant) and isinstance(body[0].value.value, str):
            body = body[1:]      # docstring
        body = _else_after_return(body)
        if not _tail_only(body):
            body = _sink_rest(_lower_loop_returns(body))
            if body is None:
                return None
            body = _else_after_return(body)
            if not _tail_only(body):
                return None
        rets = [n for st_ in body for n in ast.walk(st_) if isinstance(n, ast.Return)]
        has_value_return = any(n.value is not None and not (isinstance(n.value, ast.Constant) and n.value.value is None) for n in rets)
        if target is not None and target != 'return' and has_value_return and _may_fall_off(body):
            return None
        names, defaults = _params(callee, self.static(callee) or callee.name in self.module_helpers and callee is self.module_helpers.get(callee.name))
        vararg = callee.args.vararg.arg if callee.args.vararg else None
        if len(call.args) > len(names) and not vararg:
            return None
        argmap = dict(zip(names, call.args))
        extra = list(call.args[len(names):])
        for k in call.keywords:
            if k.arg not in names or k.arg in argmap:
                return None
            argmap[k.arg] = k.value
        for p in names:
            if p not in argmap:
                if p not in defaults:
                    return None
                argmap[p] = defaults[p]
        stored = _stored_names(body)
        locals_ = stored - set(names) - ({vararg} if vararg else set())
        arg_names = {n.id for a_ in list(argmap.values()) + extra for n in ast.walk(a_) if isinstance(n, ast.Name)}
        used = {}
        for st_ in body:
            for n in ast.walk(st_):
                if isinstance(n, ast.Name):
                    used[n.id] = used.get(n.id, 0) + 1
        rename, exprs, pre = {}, {}, []
        # --- unify returned variables with the assignment target(s): `x = self.m()` / `a, b = self.m()` where every return
        #     names the same callee variable at that position
        tpos = None
        if isinstance(target, ast.Name):
            tpos = [target]
        elif isinstance(target, ast.Tuple) and all(isinstance(e, ast.Name) for e in target.elts):
            tpos = list(target.elts)
        unified = {}
        if tpos and rets:
            def at(r, i):
                v = r.value
                if len(tpos) == 1 and isinstance(target, ast.Name):
                    return v
                return v.elts[i] if isinstance(v, ast.Tuple) and len(v.elts) == len(tpos) else None
            for i, t in enumerate(tpos):
                vs = [at(r, i) for r in rets]
                if not all(isinstance(v, ast.Name) for v in vs) or len({v.id for v in vs}) != 1:
                    continue
                r = vs[0].id
                if r in unified or t.id in unified.values():
                    continue
                if r in locals_:
                    # t must not denote anything else inside the callee
                    if (t.id == r or t.id not in used) and t.id not in arg_names:
                        unified[r] = t.id
                elif r in names and isinstance(argmap[r], ast.Name) and argmap[r].id == t.id:
                    # a parameter that is passed the target's current value, possibly rebound, and handed back
                    others = {n.id for p_, a_ in argmap.items() if p_ != r for n in ast.walk(a_) if isinstance(n, ast.Name)}
                    if t.id not in others and (t.id == r or t.id not in used):
                        unified[r] = t.id
        for r, t in unified.items():
            rename[r] = t
        for l in sorted(locals_):
            if l in unified:
                continue
            if l in caller_names or l in arg_names or l in unified.values():
                rename[l] = '%s__%s' % (l, callee.name.strip('_'))
        for p in names:
            if p in unified:
                continue
            a_ = argmap[p]
            if p not in stored and _pure_arg(a_):
                if isinstance(a_, ast.Name):
                    rename[p] = a_.id
                else:
                    exprs[p] = a_
            elif p not in stored and self._display_for_loops(a_, p, body):
                exprs[p] = a_                      # a display of rows that the callee only walks: moved into its loops (then unrolled)
            else:
                nm = p if (p not in caller_names and p not in arg_names and p not in unified.values()) else '%s__%s' % (p, callee.name.strip('_'))
                rename[p] = nm
                pre.append(ast.copy_location(ast.Assign(targets=[ast.Name(id=nm, ctx=ast.Store())], value=clone(a_)), call))
        if vararg:
            if vararg in stored:
                return None
            exprs[vararg] = ast.copy_location(ast.Tuple(elts=[clone(e) for e in extra], ctx=ast.Load()), call)
        sub = _Subst(rename, exprs)
        body = [sub.visit(st_) for st_ in body]
        body = self._returns(_simplify(body), target, call)
        out = pre + body
        self.expanded.append(callee.name)
        return self.block(out, caller_names | set(rename.values()), stack + (callee.name,), depth + 1)

    @staticmethod
    def _display_for_loops(a_, p, body):
        """a_ is a display (of rows) of names / constants / field chains, the parameter p is read only as the iterable of for-loops in the
        callee, and the callee stores no field and no name that occurs in the display"""
        if not (isinstance(a_, (ast.List, ast.Tuple)) and a_.elts and len(a_.elts) <= 16):
            return False
        cells = []
        for e in a_.elts:
            cells.extend(e.elts if isinstance(e, (ast.Tuple, ast.List)) else [e])
        if not all(_pure_elem(x) for x in cells):
            return False
        mod = ast.Module(body=body, type_ignores=[])
        iters = {id(n.iter) for n in ast.walk(mod) if isinstance(n, ast.For)}
        reads = [n for n in ast.walk(mod) if isinstance(n, ast.Name) and n.id == p]
        if not reads or not all(id(n) in iters for n in reads):
            return False
        stored_attrs = {n.attr for n in ast.walk(mod) if isinstance(n, ast.Attribute) and isinstance(n.ctx, (ast.Store, ast.Del))}
        if any(isinstance(n, ast.Call) and isinstance(n.func, ast.Name) and n.func.id in ('setattr', 'delattr') for n in ast.walk(mod)):
            return False
        for x in cells:
            while isinstance(x, ast.Attribute):
                if x.attr in stored_attrs:
                    return False
                x = x.value
        return True

    @staticmethod
    def _assign_back(target, value, at):
        """statements for `target = value`; a tuple of names assigned a tuple of equal length becomes one assignment per position
        (identity positions dropped) when no position reads a name another position writes"""
        if isinstance(value, ast.Name) and isinstance(target, ast.Name) and value.id == target.id:
            return []
        if isinstance(target, ast.Tuple) and isinstance(value, (ast.Tuple, ast.List)) and len(target.elts) == len(value.elts) \
                and all(isinstance(t, ast.Name) for t in target.elts):
            pairs = [(t, v) for t, v in zip(target.elts, value.elts) if not (isinstance(v, ast.Name) and v.id == t.id)]
            written = {t.id for t, _ in pairs}
            ok = True
            for t, v in pairs:
                reads = {n.id for n in ast.walk(v) if isinstance(n, ast.Name)}
                if reads & (written - {t.id}):
                    ok = False
            if ok:
                return [ast.copy_location(ast.Assign(targets=[clone(t)], value=v), at) for t, v in pairs]
        return [ast.copy_location(ast.Assign(targets=[clone(target)], value=value), at)]

    def _returns(self, stmts, target, call):
        out = []
        for s in stmts:
            if isinstance(s, ast.Return):
                if target == 'return':
                    out.append(s)
                elif target is None:
                    if s.value is not None and not isinstance(s.value, (ast.Name, ast.Constant)):
                        out.append(ast.copy_location(ast.Expr(value=s.value), s))
                else:
                    v = s.value if s.value is not None else ast.copy_location(ast.Constant(value=None), s)
                    out.extend(self._assign_back(target, v, s))
                continue
            if isinstance(s, ast.If):
                s.body = self._returns(s.body, target, call) or [ast.copy_location(ast.Pass(), s)]
                s.orelse = self._returns(s.orelse, target, call)
            elif isinstance(s, ast.Try):
                s.body = self._returns(s.body, target, call) or [ast.copy_location(ast.Pass(), s)]
                s.orelse = self._returns(s.orelse, target, call)
                for h in s.handlers:
                    h.body = self._returns(h.body, target, call) or [ast.copy_location(ast.Pass(), h)]
            elif isinstance(s, ast.With):
                s.body = self._returns(s.body, target, call) or [ast.copy_location(ast.Pass(), s)]
            out.append(s)
        return out

    @staticmethod
    def _merge_unpack(stmts):
        """X = self.m(...)  followed directly by  a, b = X   (X not used anywhere else in this block)  ->  a, b = self.m(...)"""
        out = []
        i = 0
        while i < len(stmts):
            s = stmts[i]
            nx = stmts[i + 1] if i + 1 < len(stmts) else None
            if (isinstance(s, ast.Assign) and len(s.targets) == 1 and isinstance(s.targets[0], ast.Name) and isinstance(s.value, ast.Call)
                    and isinstance(nx, ast.Assign) and len(nx.targets) == 1 and isinstance(nx.targets[0], ast.Tuple)
                    and isinstance(nx.value, ast.Name) and nx.value.id == s.targets[0].id):
                x = s.targets[0].id
                others = sum(1 for t in stmts[i + 2:] for n in ast.walk(t) if isinstance(n, ast.Name) and n.id == x)
                if not others:
                    out.append(ast.copy_location(ast.Assign(targets=[nx.targets[0]], value=s.value), s))
                    i += 2
                    continue
            out.append(s)
            i += 1
        return out

    def _hoist_subscript(self, stmts, stack):
        """x = self.m(...)[k]   ->   m__value = self.m(...);  x = m__value[k]        (k a constant)"""
        out = []
        for s in stmts:
            if isinstance(s, ast.Assign) and len(s.targets) == 1 and isinstance(s.value, ast.Subscript) and isinstance(s.value.slice, ast.Constant) \
                    and isinstance(s.value.value, ast.Call) and self.callee_of(s.value.value, stack) is not None:
                self.k += 1
                tmp = '%s__value%d' % (self.callee_of(s.value.value, stack).name.strip('_'), self.k)
                out.append(ast.copy_location(ast.Assign(targets=[ast.Name(id=tmp, ctx=ast.Store())], value=s.value.value), s))
                sub = ast.copy_location(ast.Subscript(value=ast.copy_location(ast.Name(id=tmp, ctx=ast.Load()), s), slice=s.value.slice, ctx=ast.Load()), s)
                out.append(ast.copy_location(ast.Assign(targets=s.targets, value=sub), s))
            else:
                out.append(s)
        return out

    def _hoist_nested(self, stmts, stack):
        """x = f(a, self.m(b))   ->   m__value = self.m(b);  x = f(a, m__value)
        for an expandable call nested in a simple statement, when nothing but plain loads and the calls enclosing it are evaluated in
        that statement (so the order of effects is unchanged).  Repeated until no such call is left."""
        out = []
        for s in stmts:
            cur = [s]
            while True:
                st = cur[-1]
                if not isinstance(st, (ast.Assign, ast.Return, ast.Expr)) or getattr(st, 'value', None) is None:
                    break
                top = st.value
                cands = []
                parents = {}
                for n in ast.walk(top):
                    for c in ast.iter_child_nodes(n):
                        parents[id(c)] = n
                blocked = any(isinstance(n, (ast.Lambda, ast.ListComp, ast.SetComp, ast.DictComp, ast.GeneratorExp, ast.IfExp, ast.BoolOp, ast.NamedExpr, ast.Await, ast.Yield)) for n in ast.walk(top))
                if blocked:
                    break
                calls = [n for n in ast.walk(top) if isinstance(n, ast.Call)]
                for c in calls:
                    if c is top or self.callee_of(c, stack) is None:
                        continue
                    anc = set()
                    p = parents.get(id(c))
                    while p is not None:
                        anc.add(id(p))
                        p = parents.get(id(p))
                    inner = {id(x) for x in ast.walk(c)}
                    # calls evaluated before c (Python evaluates left to right): moving c in front of them would reorder effects
                    others = [o for o in calls if o is not c and id(o) not in anc and id(o) not in inner
                              and (o.lineno, o.col_offset) < (c.lineno, c.col_offset)]
                    if not others:
                        cands.append(c)
                cands.sort(key=lambda n: (n.lineno, n.col_offset))
                if not cands:
                    break
                c = cands[0]
                self.k += 1
                tmp = '%s__value%d' % (self.callee_of(c, stack).name.strip('_'), self.k)
                pre = ast.copy_location(ast.Assign(targets=[ast.Name(id=tmp, ctx=ast.Store())], value=c), st)

                class R(ast.NodeTransformer):
                    def visit_Call(self_, node):
                        if node is c:
                            return ast.copy_location(ast.Name(id=tmp, ctx=ast.Load()), node)
                        return self_.generic_visit(node)
                st.value = R().visit(st.value)
                cur = cur[:-1] + [pre, st]
            out.extend(cur)
        return out

    def block(self, stmts, caller_names, stack, depth):
        out = []
        stmts = self._hoist_subscript(stmts, stack)
        stmts = self._hoist_nested(stmts, stack)
        if any(isinstance(s, ast.Assign) and isinstance(s.value, ast.Call) and self.callee_of(s.value, stack) is not None for s in stmts):
            stmts = self._merge_unpack(stmts)
        for s in stmts:
            rep = None
            if depth < MAX_DEPTH:
                if isinstance(s, ast.Expr) and isinstance(s.value, ast.Call):
                    c = self.callee_of(s.value, stack)
                    if c is not None:
                        rep = self.expand(s.value, c, None, caller_names, stack, depth)
                elif isinstance(s, ast.Assign) and len(s.targets) == 1 and isinstance(s.value, ast.Call):
                    c = self.callee_of(s.value, stack)
                    if c is not None:
                        rep = self.expand(s.value, c, s.targets[0], caller_names, stack, depth)
                elif isinstance(s, ast.Return) and isinstance(s.value, ast.Call):
                    c = self.callee_of(s.value, stack)
                    if c is not None:
                        rep = self.expand(s.value, c, 'return', caller_names, stack, depth)
                        if rep is not None and _may_fall_off(rep):
                            rep.append(ast.copy_location(ast.Return(value=ast.copy_location(ast.Constant(value=None), s)), s))
                elif isinstance(s, ast.For) and isinstance(s.iter, ast.Call) and self.generator_of(s.iter, stack) is not None:
                    rep = self.expand_generator(s, self.generator_of(s.iter, stack), caller_names, stack, depth)
                elif isinstance(s, ast.For) and isinstance(s.iter, ast.Call) and self.callee_of(s.iter, stack) is not None:
                    # for x in self.m(...):   ->   m__result = self.m(...)  [expanded];  for x in m__result:
                    c = self.callee_of(s.iter, stack)
                    self.k += 1
                    tmp = '%s__result%d' % (c.name.strip('_'), self.k)
                    pre = self.expand(s.iter, c, ast.Name(id=tmp, ctx=ast.Store()), caller_names, stack, depth)
                    if pre is not None:
                        s.iter = ast.copy_location(ast.Name(id=tmp, ctx=ast.Load()), s.iter)
                        out.extend(pre)
                elif isinstance(s, ast.If) and isinstance(s.test, ast.Compare) and isinstance(s.test.left, ast.Call) and self.callee_of(s.test.left, stack) is not None \
                        and all(isinstance(x, (ast.Constant, ast.Name)) or (isinstance(x, ast.Attribute) and isinstance(x.value, ast.Name)) for x in s.test.comparators):
                    # if self.m(a) is True: / == X:   ->   m__result = self.m(a) [expanded];  if m__result is True:
                    c = self.callee_of(s.test.left, stack)
                    self.k += 1
                    tmp = '%s__result%d' % (c.name.strip('_'), self.k)
                    pre = self.expand(s.test.left, c, ast.Name(id=tmp, ctx=ast.Store()), caller_names, stack, depth)
                    if pre is not None:
                        s.test.left = ast.copy_location(ast.Name(id=tmp, ctx=ast.Load()), s.test.left)
                        out.extend(pre)
                elif isinstance(s, ast.If):
                    t = s.test
                    neg = isinstance(t, ast.UnaryOp) and isinstance(t.op, ast.Not)
                    call = t.operand if neg else t
                    if isinstance(call, ast.Call):
                        c = self.callee_of(call, stack)
                        if c is not None:
                            self.k += 1
                            tmp = '%s__result%d' % (c.name.strip('_'), self.k)
                            pre = self.expand(call, c, ast.Name(id=tmp, ctx=ast.Store()), caller_names, stack, depth)
                            if pre is not None:
                                threaded = _thread_flag(pre, tmp, s, neg)
                                if threaded is not None:
                                    rep = self.block(threaded, caller_names, stack, depth + 1)
                                else:
                                    nt = ast.copy_location(ast.Name(id=tmp, ctx=ast.Load()), call)
                                    s.test = ast.copy_location(ast.UnaryOp(op=ast.Not(), operand=nt), t) if neg else nt
                                    out.extend(pre)
            if rep is not None:
                out.extend(rep or [ast.copy_location(ast.Pass(), s)])
                continue
            for fld in ('body', 'orelse', 'finalbody'):
                v = getattr(s, fld, None)
                if isinstance(v, list) and v and isinstance(v[0], ast.stmt) and not isinstance(s, (ast.FunctionDef, ast.ClassDef)):
                    setattr(s, fld, self.block(v, caller_names, stack, depth))
            if isinstance(s, ast.Try):
                for h in s.handlers:
                    h.body = self.block(h.body, caller_names, stack, depth)
            out.append(s)
        return _fold_temp_lists(out)


def _thread_flag(pre, tmp, ifstmt, neg):
    """pre (the expansion of a predicate helper) assigns the constants True / False to tmp at the end of every path and `if [not] tmp:` follows:
    each `tmp = <constant>` is replaced by a copy of the arm of the if it selects - the statements the caller runs for that outcome sit where the
    outcome is decided, as if the predicate had never been extracted.  None when pre does not have that shape (or the copies would get large)."""
    if sum(1 for st in ifstmt.body + ifstmt.orelse for _ in ast.walk(st)) > 120:
        return None
    count = [0]

    def leaf_ok(stmts):
        # every path through stmts ends with `tmp = True/False` as its last statement (in tail position), tmp is assigned nowhere else
        if not stmts:
            return False
        last = stmts[-1]
        for st in stmts[:-1]:
            if any(isinstance(n, ast.Name) and n.id == tmp for n in ast.walk(st)):
                return False
        if isinstance(last, ast.Assign) and len(last.targets) == 1 and isinstance(last.targets[0], ast.Name) and last.targets[0].id == tmp:
            count[0] += 1
            return isinstance(last.value, ast.Constant) and isinstance(last.value.value, bool)
        if isinstance(last, ast.If):
            if any(isinstance(n, ast.Name) and n.id == tmp for n in ast.walk(last.test)):
                return False
            return leaf_ok(last.body) and bool(last.orelse) and leaf_ok(last.orelse)
        return False
    if not leaf_ok(pre) or count[0] > 40:
        return None

    def subst(stmts):
        last = stmts[-1]
        if isinstance(last, ast.Assign):
            val = last.value.value
            taken = (not val) if neg else val
            arm = ifstmt.body if taken else ifstmt.orelse
            return stmts[:-1] + [clone(a) for a in arm]
        last.body = subst(last.body)
        last.orelse = subst(last.orelse)
        return stmts
    res = subst(list(pre))
    return res or [ast.copy_location(ast.Pass(), ifstmt)]


def _merge_parameter_copies(fn):
    """`p__helper = a` made by the expansion for a parameter the helper rebinds: when the caller never reads `a` again (and the copy is not
    inside a loop) the helper simply continues to work on the caller's variable - the copy is dropped and p__helper is renamed to a"""
    changed = True
    while changed:
        changed = False
        order = []

        def dfs(stmts, in_loop):
            for st in stmts:
                order.append((st, in_loop))
                for fld in ('body', 'orelse', 'finalbody'):
                    b = getattr(st, fld, None)
                    if isinstance(b, list) and b and isinstance(b[0], ast.stmt) and not isinstance(st, (ast.FunctionDef, ast.ClassDef)):
                        dfs(b, in_loop or isinstance(st, (ast.For, ast.While)))
                if isinstance(st, ast.Try):
                    for h in st.handlers:
                        dfs(h.body, in_loop)
        dfs(fn.body, False)
        for i, (st, in_loop) in enumerate(order):
            if in_loop or not (isinstance(st, ast.Assign) and len(st.targets) == 1 and isinstance(st.targets[0], ast.Name) and isinstance(st.value, ast.Name)):
                continue
            new, old = st.targets[0].id, st.value.id
            if '__' not in new or new == old:
                continue
            def own(s_):
                # names in the statement itself, not in nested statement blocks (those are listed separately)
                out = []
                stack = [s_]
                while stack:
                    x = stack.pop()
                    for c in ast.iter_child_nodes(x):
                        if isinstance(c, ast.stmt) and c is not s_:
                            continue
                        if isinstance(c, ast.Name):
                            out.append(c)
                        stack.append(c)
                return out
            later_reads_old = any(n.id == old for s2, _ in order[i + 1:] for n in own(s2))
            earlier_new = any(n.id == new for s2, _ in order[:i] for n in own(s2))
            if later_reads_old or earlier_new:
                continue
            for s2, _ in order[i + 1:]:
                for n in own(s2):
                    if n.id == new:
                        n.id = old
            st.value = ast.copy_location(ast.Name(id=old, ctx=ast.Load()), st.value)
            st.targets[0].id = old
            # x = x : drop
            for parent in ast.walk(fn):
                for fld in ('body', 'orelse', 'finalbody'):
                    b = getattr(parent, fld, None)
                    if isinstance(b, list) and st in b:
                        b[b.index(st)] = ast.copy_location(ast.Pass(), st)
                if isinstance(parent, ast.Try):
                    for h in parent.handlers:
                        if st in h.body:
                            h.body[h.body.index(st)] = ast.copy_location(ast.Pass(), st)
            changed = True
            break


def _forward_field_aliases(stmts):
    """v = self.f ; ...reads of v...   ->   the reads name self.f, up to the next statement that stores v or self.f or calls a method of
    self (which may rebind the field).  The shape an unrolled table-driven loop leaves: `field = self.a; if field is not None: field.write(s)`
    repeated with the same local.  The assignment itself stays (a dead store at worst)."""
    out = list(stmts)
    for s in out:
        for fld in ('body', 'orelse', 'finalbody'):
            b = getattr(s, fld, None)
            if isinstance(b, list) and b and isinstance(b[0], ast.stmt) and not isinstance(s, (ast.FunctionDef, ast.ClassDef)):
                setattr(s, fld, _forward_field_aliases(b))
        if isinstance(s, ast.Try):
            for h in s.handlers:
                h.body = _forward_field_aliases(h.body)
    i = 0
    while i < len(out):
        st = out[i]
        if isinstance(st, ast.Assign) and len(st.targets) == 1 and isinstance(st.targets[0], ast.Name) and isinstance(st.value, ast.Attribute) \
                and isinstance(st.value.value, ast.Name) and st.value.value.id == 'self':
            v, f = st.targets[0].id, st.value.attr
            j = i + 1
            while j < len(out):
                t = out[j]
                stop = False
                for n in ast.walk(t):
                    if isinstance(n, ast.Name) and n.id == v and isinstance(n.ctx, (ast.Store, ast.Del)):
                        stop = True
                    if isinstance(n, ast.Attribute) and n.attr == f and isinstance(n.ctx, (ast.Store, ast.Del)):
                        stop = True
                    if isinstance(n, ast.Call) and isinstance(n.func, ast.Attribute) and isinstance(n.func.value, ast.Name) and n.func.value.id == 'self':
                        stop = True
                    if isinstance(n, ast.Call) and isinstance(n.func, ast.Name) and n.func.id in ('setattr', 'delattr'):
                        stop = True
                if stop:
                    # `v = <expr reading v>`: the right-hand side is evaluated before the store
                    if isinstance(t, ast.Assign) and len(t.targets) == 1 and isinstance(t.targets[0], ast.Name) and t.targets[0].id == v \
                            and not any(isinstance(n, ast.Call) for n in ast.walk(t.value)):
                        t.value = _Subst({}, {v: st.value}).visit(t.value)
                    break
                out[j] = _Subst({}, {v: st.value}).visit(t)
                j += 1
        i += 1
    return out


def _tuple_locals(fn):
    """v = (c0, c1, ...) as the only binding of v in the function, every element a constant or a dotted constant name: v[i] is the element"""
    stores = {}
    for n in ast.walk(fn):
        if isinstance(n, ast.Name) and isinstance(n.ctx, (ast.Store, ast.Del)):
            stores[n.id] = stores.get(n.id, 0) + 1

    def const(e):
        if isinstance(e, ast.Constant):
            return True
        if isinstance(e, ast.Attribute):
            r = e
            while isinstance(r, ast.Attribute):
                r = r.value
            return isinstance(r, ast.Name) and r.id != 'self'
        return False
    recs = {}
    ps = {a.arg for a in fn.args.args + fn.args.kwonlyargs}
    for n in ast.walk(fn):
        if isinstance(n, ast.Assign) and len(n.targets) == 1 and isinstance(n.targets[0], ast.Name) and isinstance(n.value, ast.Tuple) and n.value.elts \
                and stores.get(n.targets[0].id) == 1 and n.targets[0].id not in ps and all(const(x) for x in n.value.elts):
            recs[n.targets[0].id] = n.value.elts
    if not recs:
        return False

    class V(ast.NodeTransformer):
        changed = False

        def visit_Subscript(self, node):
            self.generic_visit(node)
            if isinstance(node.ctx, ast.Load) and isinstance(node.value, ast.Name) and node.value.id in recs and isinstance(node.slice, ast.Constant) \
                    and isinstance(node.slice.value, int) and 0 <= node.slice.value < len(recs[node.value.id]):
                V.changed = True
                new = clone(recs[node.value.id][node.slice.value])
                for x in ast.walk(new):
                    ast.copy_location(x, node)
                return new
            return node
    V().visit(fn)
    return V.changed


def flatten(scope, fn, keep=(), module_level=False):
    fl = _Flattener(scope, keep, module_level)
    new = clone(fn)
    caller_names = {n.id for n in ast.walk(new) if isinstance(n, ast.Name)} | {a.arg for a in ast.walk(new.args) if isinstance(a, ast.arg)}
    new.body = fl.block(new.body, caller_names, (fn.name,), 0)
    if not fl.expanded:
        return fn
    # what became constant through the expansion (a prefix parameter bound to a literal ...) is folded like at parse time
    from .tables import _ConstStrings, _Getattr, _Simplify
    new = _Simplify().visit(_Getattr().visit(_ConstStrings().visit(new)))
    # a constant table that only became visible through the expansion (a helper walking `fields`, called with self._FIELDS): the loops
    # over it are unrolled and the lookups in it sunk like at parse time
    mod_ = scope
    while mod_ is not None and not isinstance(mod_, ast.Module):
        mod_ = getattr(mod_, '_parent', None)
    if mod_ is not None and any(isinstance(x, (ast.For, ast.Subscript)) or (isinstance(x, ast.Call) and isinstance(x.func, ast.Attribute) and x.func.attr == 'get') for x in ast.walk(new)):
        from .tables import Tables, Expander
        ex_ = mod_.__dict__.get('_flat_expander')
        if ex_ is None:
            ex_ = Expander.__new__(Expander)
            ex_.t = Tables(mod_)
            ex_.tree = mod_
            ex_.n = 0
            mod_.__dict__['_flat_expander'] = ex_
        if ex_.t.mod or ex_.t.cls:
            before_ = ast.dump(new)
            new.body = ex_.block(new.body, scope.name if isinstance(scope, ast.ClassDef) else None, new)
            if ast.dump(new) != before_:
                new = _Simplify().visit(_Getattr().visit(_ConstStrings().visit(new)))
                from .source import _FieldLocals
                _FieldLocals().run(new)
                new.body = _forward_field_aliases(new.body)
                _tuple_locals(new)
    from .source import _GuardedLocals, _Canon
    _GuardedLocals().function(new)
    new = _Canon().visit(new)
    _merge_parameter_copies(new)
    ast.fix_missing_locations(new)
    for n in ast.walk(new):
        for c in ast.iter_child_nodes(n):
            c._parent = n
    new._parent = getattr(fn, '_parent', scope)
    new._flat_of = fn
    new._expanded = tuple(fl.expanded)
    return new


def _scope_key(scope):
    names = []
    n = scope
    while n is not None and not isinstance(n, ast.Module):
        if isinstance(n, ast.ClassDef):
            names.append(n.name)
        n = getattr(n, '_parent', None)
    rel = getattr(n, '_rel', None) if n is not None else None
    if rel is None:
        return None
    return '%s::%s' % (rel, '.'.join(reversed(names)))


def flat(scope, fn):
    """fn with the same-scope helpers that the rules do not know (not in pv/prims.py) expanded in place; fn itself when there is
    nothing to expand or the scope is unknown.  Cached on the scope node."""
    from .prims import PRIMS
    key = _scope_key(scope)
    if key is None or key not in PRIMS:
        return fn
    cache = scope.__dict__.setdefault('_flat_cache', {})
    ck = (fn.name, id(fn))          # a property getter and its setter share a name
    if ck not in cache:
        cache[ck] = flatten(scope, fn, PRIMS[key], module_level=isinstance(scope, ast.Module))
    return cache[ck]


def flat_methods(cls):
    """({name: method with new helpers expanded}, {names of helpers that were expanded into every caller}); cached on the class.
    An absorbed helper is not a method of its own for the rules: its statements are analysed inside the callers."""
    cached = cls.__dict__.get('_flat_methods')
    if cached is not None:
        return cached
    meths = {s.name: flat(cls, s) for s in cls.body if isinstance(s, ast.FunctionDef)}
    expanded = set()
    for v in meths.values():
        expanded |= set(getattr(v, '_expanded', ()))
    absorbed = set()
    for name in sorted(expanded):
        still = False
        for k, v in meths.items():
            if k in expanded:
                continue
            for n in ast.walk(v):
                if isinstance(n, ast.Attribute) and n.attr == name and isinstance(n.value, ast.Name) and n.value.id in ('self', 'cls', cls.name):
                    still = True
        if not still:
            absorbed.add(name)
    res = ({k: v for k, v in meths.items() if k not in absorbed}, absorbed)
    cls.__dict__['_flat_methods'] = res
    return res
