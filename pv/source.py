"""SourceSet: the text and ASTs of /repo's working tree (never imported, never run)."""
import ast
import os


class AnalysisError(Exception):
    """The checker cannot see what it needs (vanished anchor, unrecognised
    construct, floor not met).  Exit code 2, never a verdict."""


DEFAULT_ROOT = os.environ.get('PV_REPO', '/repo')


class SourceSet:
    def __init__(self, root=None, overlay=None):
        self.root = root or DEFAULT_ROOT
        self.overlay = dict(overlay or {})
        self._text = {}
        self._tree = {}
        self.consulted = set()

    def exists(self, rel):
        return rel in self.overlay or os.path.isfile(os.path.join(self.root, rel))

    def text(self, rel):
        self.consulted.add(rel)
        if rel in self.overlay:
            return self.overlay[rel]
        if rel not in self._text:
            p = os.path.join(self.root, rel)
            if not os.path.isfile(p):
                raise AnalysisError('anchor vanished: file %s' % rel)
            with open(p, encoding='utf-8') as f:
                self._text[rel] = f.read()
        return self._text[rel]

    def tree(self, rel):
        if rel not in self._tree:
            try:
                t = ast.parse(self.text(rel), filename=rel)
            except SyntaxError as e:
                raise AnalysisError('cannot parse %s: %s' % (rel, e))
            for n in ast.walk(t):
                for c in ast.iter_child_nodes(n):
                    c._parent = n
            t._parent = None
            t._rel = rel
            self._tree[rel] = t
        return self._tree[rel]

    def with_overlay(self, rel, text):
        ov = dict(self.overlay)
        ov[rel] = text
        return SourceSet(self.root, ov)

    def modules(self, prefix='kmip', tests=False, demos=False):
        out = []
        base = os.path.join(self.root, prefix)
        for d, dirs, files in os.walk(base):
            dirs.sort()
            rel_d = os.path.relpath(d, self.root)
            parts = rel_d.split(os.sep)
            if not tests and 'tests' in parts:
                continue
            if not demos and 'demos' in parts:
                continue
            for f in sorted(files):
                if f.endswith('.py'):
                    out.append(os.path.join(rel_d, f))
        for rel in self.overlay:
            if rel.startswith(prefix) and rel not in out:
                out.append(rel)
        return sorted(out)
