"""SourceSet: the text and ASTs of /repo's working tree (never imported, never run)."""
import ast
import os


class AnalysisError(Exception):
    """The checker cannot see what it needs (vanished anchor, unrecognised
    construct, floor not met).  Exit code 2, never a verdict."""


DEFAULT_ROOT = os.environ.get('PV_REPO', '/repo')



class _Canon(ast.NodeTransformer):
    """Canonical spelling of comparisons, applied to every parsed module so that no rule depends on it:
    LITERAL <op> expr  ->  expr <mirrored op> LITERAL   (literal = constant or enums.<Class>.<MEMBER>; both operands are side-effect free);
    not (a <op> b)     ->  a <negated op> b             (is, is not, in, not in; == and != only against a literal);
    if not X: A else: B ->  if X: B else: A;
    t = E; return t     ->  return E."""
    MIRROR = {ast.Eq: ast.Eq, ast.NotEq: ast.NotEq, ast.Lt: ast.Gt, ast.Gt: ast.Lt, ast.LtE: ast.GtE, ast.GtE: ast.LtE, ast.Is: ast.Is, ast.IsNot: ast.IsNot}
    NEG = {ast.Eq: ast.NotEq, ast.NotEq: ast.Eq, ast.Is: ast.IsNot, ast.IsNot: ast.Is, ast.In: ast.NotIn, ast.NotIn: ast.In}

    @staticmethod
    def _literal(e):
        if isinstance(e, ast.Constant):
            return True
        if isinstance(e, ast.Attribute):
            parts = []
            x = e
            while isinstance(x, ast.Attribute):
                parts.append(x.attr)
                x = x.value
            return isinstance(x, ast.Name) and x.id == 'enums' and len(parts) == 2 and parts[0].isupper()
        return False

    def visit_Compare(self, node):
        self.generic_visit(node)
        if len(node.ops) == 1 and type(node.ops[0]) in self.MIRROR and self._literal(node.left) and not self._literal(node.comparators[0]):
            new = ast.Compare(left=node.comparators[0], ops=[self.MIRROR[type(node.ops[0])]()], comparators=[node.left])
            return ast.copy_location(new, node)
        return node

    def visit_If(self, node):
        self.generic_visit(node)
        # if not X: A else: B  ->  if X: B else: A   (every if with an else side)
        if isinstance(node.test, ast.UnaryOp) and isinstance(node.test.op, ast.Not) and node.orelse:
            return ast.copy_location(ast.If(test=node.test.operand, body=node.orelse, orelse=node.body), node)
        # if a != b: A else: B  ->  if a == b: B else: A   (likewise is not / not in): one spelling for two-armed ifs
        t = node.test
        if isinstance(t, ast.Compare) and len(t.ops) == 1 and isinstance(t.ops[0], (ast.NotEq, ast.IsNot, ast.NotIn)) and node.orelse:
            pos = ast.copy_location(ast.Compare(left=t.left, ops=[self.NEG[type(t.ops[0])]()], comparators=t.comparators), t)
            return ast.copy_location(ast.If(test=pos, body=node.orelse, orelse=node.body), node)
        return node

    @staticmethod
    def _inline_return_temps(stmts):
        out = []
        i = 0
        while i < len(stmts):
            s = stmts[i]
            nx = stmts[i + 1] if i + 1 < len(stmts) else None
            if (isinstance(s, ast.Assign) and len(s.targets) == 1 and isinstance(s.targets[0], ast.Name) and isinstance(nx, ast.Return)
                    and isinstance(nx.value, ast.Name) and nx.value.id == s.targets[0].id):
                # t = E; return t   ->   return E
                out.append(ast.copy_location(ast.Return(value=s.value), s))
                i += 2
                continue
            out.append(s)
            i += 1
        return out

    def generic_visit(self, node):
        node = super().generic_visit(node)
        for fld in ('body', 'orelse', 'finalbody'):
            v = getattr(node, fld, None)
            if isinstance(v, list) and v and isinstance(v[0], ast.stmt):
                setattr(node, fld, self._inline_return_temps(v))
        return node

    def visit_UnaryOp(self, node):
        self.generic_visit(node)
        if isinstance(node.op, ast.Not) and isinstance(node.operand, ast.Compare) and len(node.operand.ops) == 1 and type(node.operand.ops[0]) in self.NEG:
            c = node.operand
            if isinstance(c.ops[0], (ast.Eq, ast.NotEq)) and not (self._literal(c.left) or self._literal(c.comparators[0])):
                return node     # == / != between two non-literals may run user-defined __eq__/__ne__: keep as written
            return ast.copy_location(ast.Compare(left=c.left, ops=[self.NEG[type(c.ops[0])]()], comparators=c.comparators), node)
        return node


class _AliasInline:
    """Uses of a local that is assigned exactly once, by a plain `v = E` whose E is a side-effect-free, stable expression, are
    replaced by E (the assignment stays, except a dead alias of a field).  Stable: built from constants, enumeration members, parameters / locals that are
    never (re)assigned afterwards, attribute chains over those whose attribute name is stored nowhere in the function,
    comparisons, `not`, and/or.  No calls, no subscripts.  Hoisting such an expression into a local - or not - is then
    invisible to every rule (`stop = option == STOP`, `policy = self._attribute_policy`, `kind = obj._object_type`)."""

    def run(self, tree):
        for fn in [n for n in ast.walk(tree) if isinstance(n, (ast.FunctionDef, ast.AsyncFunctionDef))]:
            self.function(fn)
        return tree

    @staticmethod
    def _local_nodes(fn):
        st = list(fn.body)
        while st:
            n = st.pop()
            yield n
            for c in ast.iter_child_nodes(n):
                if isinstance(c, (ast.FunctionDef, ast.AsyncFunctionDef, ast.ClassDef, ast.Lambda)):
                    continue
                st.append(c)

    @staticmethod
    def _wanted(e):
        """only hoisted conditions (comparisons, and/or/not) and aliases of the object's own fields (self.<...>): locals that name
        a part of a parameter (`value = key.key_block.key_value`) carry meaning for the converter rules and stay"""
        if isinstance(e, (ast.Compare, ast.BoolOp)) or (isinstance(e, ast.UnaryOp) and isinstance(e.op, ast.Not)):
            return True
        x = e
        while isinstance(x, ast.Attribute):
            x = x.value
        return isinstance(e, ast.Attribute) and isinstance(x, ast.Name) and x.id == 'self'

    def function(self, fn):
        stores = {}          # name -> count of binding occurrences
        stored_attrs = set()
        nested_names = set()
        for n in ast.walk(fn):
            if n is not fn and isinstance(n, (ast.FunctionDef, ast.AsyncFunctionDef, ast.ClassDef, ast.Lambda)):
                for x in ast.walk(n):
                    if isinstance(x, ast.Name):
                        nested_names.add(x.id)
        for n in self._local_nodes(fn):
            if isinstance(n, ast.Name) and isinstance(n.ctx, (ast.Store, ast.Del)):
                stores[n.id] = stores.get(n.id, 0) + 1
            elif isinstance(n, ast.ExceptHandler) and n.name:
                stores[n.name] = stores.get(n.name, 0) + 1
            elif isinstance(n, ast.Attribute) and isinstance(n.ctx, (ast.Store, ast.Del)):
                stored_attrs.add(n.attr)
            elif isinstance(n, (ast.Global, ast.Nonlocal)):
                for x in n.names:
                    stores[x] = 99
            elif isinstance(n, ast.Call) and isinstance(n.func, ast.Name) and n.func.id in ('setattr', 'delattr') and len(n.args) >= 2:
                a = n.args[1]
                stored_attrs.add(a.value if isinstance(a, ast.Constant) and isinstance(a.value, str) else '*')
        a = fn.args
        params = {x.arg for x in a.posonlyargs + a.args + a.kwonlyargs + ([a.vararg] if a.vararg else []) + ([a.kwarg] if a.kwarg else [])}

        def stable_name(nm):
            return (nm in params and stores.get(nm, 0) == 0) or stores.get(nm, 0) == 1 or (nm not in params and nm not in stores)

        def pure(e):
            if isinstance(e, ast.Constant):
                return True
            if isinstance(e, ast.Name):
                return stable_name(e.id)
            if isinstance(e, ast.Attribute):
                if '*' in stored_attrs or e.attr in stored_attrs:
                    return False
                return pure(e.value)
            if isinstance(e, ast.Compare):
                return pure(e.left) and all(pure(c) for c in e.comparators)
            if isinstance(e, ast.BoolOp):
                return all(pure(v) for v in e.values)
            if isinstance(e, ast.UnaryOp) and isinstance(e.op, ast.Not):
                return pure(e.operand)
            return False

        def blocks(node):
            for fld in ('body', 'orelse', 'finalbody'):
                v = getattr(node, fld, None)
                if isinstance(v, list) and v and isinstance(v[0], ast.stmt):
                    yield v
            if isinstance(node, ast.Try):
                for h in node.handlers:
                    yield h.body

        def visit_block(stmts):
            for i, s in enumerate(stmts):
                if isinstance(s, (ast.FunctionDef, ast.AsyncFunctionDef, ast.ClassDef)):
                    continue
                if (isinstance(s, ast.Assign) and len(s.targets) == 1 and isinstance(s.targets[0], ast.Name)
                        and stores.get(s.targets[0].id) == 1 and s.targets[0].id not in params and s.targets[0].id not in nested_names
                        and self._wanted(s.value) and pure(s.value)):
                    v = s.targets[0].id
                    # every use must lie in the statements that follow in this very block
                    later = set()
                    for t in stmts[i + 1:]:
                        for x in ast.walk(t):
                            if isinstance(x, ast.Name) and x.id == v:
                                later.add(id(x))
                    total = sum(1 for x in self._local_nodes(fn) if isinstance(x, ast.Name) and x.id == v and isinstance(x.ctx, ast.Load))
                    if total and total == len(later):
                        sub = _SubstName(v, s.value)
                        for j in range(i + 1, len(stmts)):
                            stmts[j] = sub.visit(stmts[j])
                        if isinstance(s.value, ast.Attribute):
                            # nothing reads the alias any more: the dead `v = self.<field>` goes too
                            stmts[i] = ast.copy_location(ast.Pass(), s)
                for b in blocks(s):
                    visit_block(b)
        visit_block(fn.body)


class _GuardedLocals:
    """A local that only carries an optional value from a guarded assignment to one later test:

        x = None                                   if G1:
        if G1:                                         if G2:
            if G2:                         ->              BODY[x := E]
                x = E
        ...                  (statements that do not mention x)
        if x is not None:    (or: if x:  when G2 is the truth of E)
            BODY

    x is bound exactly twice (the None and the guarded E) and read only in that test and its body; E and the guards are names /
    field chains / comparisons of them, and no field or name occurring in them is stored anywhere in the function - so the guards
    and E evaluate the same at the place of use.  (`ephemeral = None; if v >= 2.0: if self._ephemeral: ephemeral = self._ephemeral`
    ... `if ephemeral is not None: ephemeral.write(..)` is the version-guarded write it abbreviates.)"""

    def run(self, tree):
        for fn in [n for n in ast.walk(tree) if isinstance(n, (ast.FunctionDef, ast.AsyncFunctionDef))]:
            while self.function(fn):
                pass
        return tree

    @staticmethod
    def _stable_expr(e, stored_names, stored_attrs):
        if isinstance(e, ast.Constant):
            return True
        if isinstance(e, ast.Name):
            return e.id not in stored_names
        if isinstance(e, ast.Attribute):
            return e.attr not in stored_attrs and '*' not in stored_attrs and _GuardedLocals._stable_expr(e.value, stored_names, stored_attrs)
        if isinstance(e, ast.Compare):
            return all(_GuardedLocals._stable_expr(x, stored_names, stored_attrs) for x in [e.left] + e.comparators)
        if isinstance(e, ast.BoolOp):
            return all(_GuardedLocals._stable_expr(x, stored_names, stored_attrs) for x in e.values)
        if isinstance(e, ast.UnaryOp) and isinstance(e.op, ast.Not):
            return _GuardedLocals._stable_expr(e.operand, stored_names, stored_attrs)
        return False

    def function(self, fn):
        nodes = list(_AliasInline._local_nodes(fn))
        stores, loads = {}, {}
        stored_attrs = set()
        for n in nodes:
            if isinstance(n, ast.Name):
                (stores if isinstance(n.ctx, (ast.Store, ast.Del)) else loads).setdefault(n.id, []).append(n)
            elif isinstance(n, ast.Attribute) and isinstance(n.ctx, (ast.Store, ast.Del)):
                stored_attrs.add(n.attr)
            elif isinstance(n, ast.Call) and isinstance(n.func, ast.Name) and n.func.id in ('setattr', 'delattr'):
                stored_attrs.add('*')
            elif isinstance(n, (ast.Global, ast.Nonlocal)):
                return False
        a = fn.args
        params = {x.arg for x in a.posonlyargs + a.args + a.kwonlyargs + ([a.vararg] if a.vararg else []) + ([a.kwarg] if a.kwarg else [])}
        nested = set()
        for n in ast.walk(fn):
            if n is not fn and isinstance(n, (ast.FunctionDef, ast.AsyncFunctionDef, ast.ClassDef, ast.Lambda)):
                nested |= {x.id for x in ast.walk(n) if isinstance(x, ast.Name)}

        def blocks(node):
            for fld in ('body', 'orelse', 'finalbody'):
                v = getattr(node, fld, None)
                if isinstance(v, list) and v and isinstance(v[0], ast.stmt):
                    yield v
            if isinstance(node, ast.Try):
                for h in node.handlers:
                    yield h.body

        def guarded_assign(s, x):
            """s is `if G1: [if G2: ...] x = E` (no else arms, one statement per arm) -> ([G1, G2..], E)"""
            gs = []
            while isinstance(s, ast.If) and not s.orelse and len(s.body) == 1:
                gs.append(s.test)
                s = s.body[0]
            if gs and isinstance(s, ast.Assign) and len(s.targets) == 1 and isinstance(s.targets[0], ast.Name) and s.targets[0].id == x:
                return gs, s.value
            return None

        def try_block(stmts):
            for i, s in enumerate(stmts):
                if not (isinstance(s, ast.Assign) and len(s.targets) == 1 and isinstance(s.targets[0], ast.Name) and isinstance(s.value, ast.Constant) and s.value.value is None):
                    continue
                x = s.targets[0].id
                if x in params or x in nested or len(stores.get(x, ())) != 2 or i + 2 >= len(stmts) + 0 and False:
                    continue
                # the guarded assignment follows (possibly after statements that do not mention x)
                j = i + 1
                while j < len(stmts) and not any(isinstance(n, ast.Name) and n.id == x for n in ast.walk(stmts[j])):
                    j += 1
                if j >= len(stmts):
                    continue
                ga = guarded_assign(stmts[j], x)
                if ga is None:
                    continue
                gs, E = ga
                k = j + 1
                while k < len(stmts) and not any(isinstance(n, ast.Name) and n.id == x for n in ast.walk(stmts[k])):
                    k += 1
                if k >= len(stmts):
                    continue
                u = stmts[k]
                if not (isinstance(u, ast.If) and not u.orelse):
                    continue
                t = u.test
                by_truth = isinstance(t, ast.Name) and t.id == x
                by_none = isinstance(t, ast.Compare) and len(t.ops) == 1 and isinstance(t.ops[0], ast.IsNot) and isinstance(t.left, ast.Name) and t.left.id == x \
                    and isinstance(t.comparators[0], ast.Constant) and t.comparators[0].value is None
                if not (by_truth or by_none):
                    continue
                inside = sum(1 for n in ast.walk(u) if isinstance(n, ast.Name) and n.id == x and isinstance(n.ctx, ast.Load))
                if inside != len(loads.get(x, ())) or any(isinstance(n, ast.Name) and n.id == x and not isinstance(n.ctx, ast.Load) for n in ast.walk(u)):
                    continue
                stored_names = {nm for nm, v in stores.items() if nm != x}
                if not all(self._stable_expr(g, stored_names, stored_attrs) for g in gs) or not isinstance(E, (ast.Name, ast.Attribute)) \
                        or not self._stable_expr(E, stored_names, stored_attrs):
                    continue
                e_known = any(ast.dump(g) == ast.dump(E) for g in gs) or any(
                    isinstance(g, ast.Compare) and len(g.ops) == 1 and isinstance(g.ops[0], ast.IsNot) and ast.dump(g.left) == ast.dump(E)
                    and isinstance(g.comparators[0], ast.Constant) and g.comparators[0].value is None for g in gs)
                if by_truth and not any(ast.dump(g) == ast.dump(E) for g in gs):
                    continue            # `if x:` needs the truth of E, which only a guard `if E:` supplies
                body = [_SubstName(x, E).visit(b) for b in u.body]
                if not e_known:
                    body = [ast.copy_location(ast.If(test=ast.copy_location(ast.Compare(left=E, ops=[ast.IsNot()], comparators=[ast.Constant(value=None)]), u), body=body, orelse=[]), u)]
                for g in reversed(gs):
                    body = [ast.copy_location(ast.If(test=g, body=body, orelse=[]), u)]
                ast.fix_missing_locations(body[0])
                stmts[k] = body[0]
                stmts[j] = ast.copy_location(ast.Pass(), stmts[j])
                stmts[i] = ast.copy_location(ast.Pass(), s)
                return True
            for s in stmts:
                if isinstance(s, (ast.FunctionDef, ast.AsyncFunctionDef, ast.ClassDef)):
                    continue
                for b in blocks(s):
                    if try_block(b):
                        return True
            return False
        return try_block(fn.body)


class _SubstName(ast.NodeTransformer):
    def __init__(self, name, expr):
        self.name, self.expr = name, expr

    def visit_Name(self, node):
        if node.id == self.name and isinstance(node.ctx, ast.Load):
            import copy
            new = copy.deepcopy(self.expr)
            for x in ast.walk(new):
                ast.copy_location(x, node)
            return new
        return node


class _Lower:
    """Statement-level lowering of expression forms into the statement forms they abbreviate (applied to every parsed module):
      x = [E for v in IT if C]  /  return [...]     ->   x = []; for v in IT: if C: x.append(E)            (list comprehensions)
      x = A if C else B  /  return A if C else B     ->   if C: x = A else: x = B
      return any(E for v in IT) / all(...)           ->   for v in IT: if E: return True ... return False
      x = functools.reduce(operator.or_, GEN, INIT)  ->   x = INIT; for v in IT: x = x | E                  (or_/and_/add/xor)
    Only where the expression is the whole right-hand side of an assignment to a name or the whole returned value."""
    OPS = {'or_': ast.BitOr, 'and_': ast.BitAnd, 'add': ast.Add, 'xor': ast.BitXor, 'mul': ast.Mult}

    def __init__(self):
        self.k = 0

    def run(self, tree):
        for n in ast.walk(tree):
            for fld in ('body', 'orelse', 'finalbody'):
                v = getattr(n, fld, None)
                if isinstance(v, list) and v and isinstance(v[0], ast.stmt):
                    setattr(n, fld, self.block(v))
            if isinstance(n, ast.Try):
                for h in n.handlers:
                    h.body = self.block(h.body)
        return tree

    def tmp(self, base):
        self.k += 1
        return '%s__%d' % (base, self.k)

    def block(self, stmts):
        out = []
        for s in stmts:
            r = self.stmt(s)
            out.extend(r if r is not None else [s])
        return out

    def loops(self, gens, inner, at):
        body = inner
        for g in reversed(gens):
            for c in reversed(g.ifs):
                body = [ast.copy_location(ast.If(test=c, body=body, orelse=[]), at)]
            body = [ast.copy_location(ast.For(target=g.target, iter=g.iter, body=body, orelse=[], type_comment=None), at)]
        return body

    def stmt(self, s):
        if isinstance(s, ast.Assign) and len(s.targets) == 1 and isinstance(s.targets[0], ast.Name):
            name, value, ret = s.targets[0].id, s.value, False
        elif isinstance(s, ast.Return) and s.value is not None:
            name, value, ret = None, s.value, True
        else:
            return None
        L = lambda node: ast.copy_location(node, s)
        mk = lambda n_, ctx: L(ast.Name(id=n_, ctx=ctx))
        if isinstance(value, ast.ListComp) and not any(g.is_async for g in value.generators):
            v = name or self.tmp('result')
            if name and any(isinstance(x, ast.Name) and x.id == name for x in ast.walk(value)):
                return None
            app = L(ast.Expr(value=L(ast.Call(func=L(ast.Attribute(value=mk(v, ast.Load()), attr='append', ctx=ast.Load())), args=[value.elt], keywords=[]))))
            out = [L(ast.Assign(targets=[mk(v, ast.Store())], value=L(ast.List(elts=[], ctx=ast.Load()))))] + self.loops(value.generators, [app], s)
            if ret:
                out.append(L(ast.Return(value=mk(v, ast.Load()))))
            return [ast.fix_missing_locations(x) for x in out]
        if isinstance(value, ast.IfExp):
            mkv = (lambda e: L(ast.Return(value=e))) if ret else (lambda e: L(ast.Assign(targets=[mk(name, ast.Store())], value=e)))
            a, b = self.stmt(mkv(value.body)) or [mkv(value.body)], self.stmt(mkv(value.orelse)) or [mkv(value.orelse)]
            return [ast.fix_missing_locations(L(ast.If(test=value.test, body=a, orelse=b)))]
        if ret and isinstance(value, ast.Call) and isinstance(value.func, ast.Name) and value.func.id in ('any', 'all') and len(value.args) == 1 \
                and isinstance(value.args[0], (ast.GeneratorExp, ast.ListComp)) and not value.keywords:
            g = value.args[0]
            is_any = value.func.id == 'any'
            test = g.elt if is_any else L(ast.UnaryOp(op=ast.Not(), operand=g.elt))
            inner = [L(ast.If(test=test, body=[L(ast.Return(value=L(ast.Constant(value=is_any))))], orelse=[]))]
            out = self.loops(g.generators, inner, s) + [L(ast.Return(value=L(ast.Constant(value=not is_any))))]
            return [ast.fix_missing_locations(x) for x in out]
        if isinstance(value, ast.Call) and (isinstance(value.func, ast.Attribute) and value.func.attr == 'reduce' or isinstance(value.func, ast.Name) and value.func.id == 'reduce') \
                and len(value.args) == 3 and not value.keywords:
            f, it, init = value.args
            opn = f.attr if isinstance(f, ast.Attribute) else (f.id if isinstance(f, ast.Name) else None)
            if opn in self.OPS:
                v = name or self.tmp('result')
                if isinstance(it, (ast.GeneratorExp, ast.ListComp)):
                    gens, elt = it.generators, it.elt
                else:
                    t = self.tmp('item')
                    gens, elt = [ast.comprehension(target=mk(t, ast.Store()), iter=it, ifs=[], is_async=0)], mk(t, ast.Load())
                upd = L(ast.Assign(targets=[mk(v, ast.Store())], value=L(ast.BinOp(left=mk(v, ast.Load()), op=self.OPS[opn](), right=elt))))
                out = [L(ast.Assign(targets=[mk(v, ast.Store())], value=init))] + self.loops(gens, [upd], s)
                if ret:
                    out.append(L(ast.Return(value=mk(v, ast.Load()))))
                return [ast.fix_missing_locations(x) for x in out]
        return None


class _NamedTuples:
    """A plain record type - `class R(collections.namedtuple('R', ['a', 'b'])): <docstring / __slots__ = ()>` or `R = namedtuple('R', 'a b')` -
    is a tuple with names for its positions.  Where the class is certain the names are lowered to positions, so that code written with records
    reads like the tuple code it replaced:  R(a=x, b=y) -> (x, y);  R(*e).b -> e[1];  R(*e) -> tuple(e);  v = R(...) [the only binding of v in the
    function] ... v.b -> v[1]."""

    @staticmethod
    def _fields(call):
        f = call.func
        nm = f.attr if isinstance(f, ast.Attribute) else (f.id if isinstance(f, ast.Name) else None)
        if nm != 'namedtuple' or len(call.args) != 2 or call.keywords:
            return None
        a = call.args[1]
        if isinstance(a, ast.Constant) and isinstance(a.value, str):
            out = a.value.replace(',', ' ').split()
        elif isinstance(a, (ast.List, ast.Tuple)) and all(isinstance(x, ast.Constant) and isinstance(x.value, str) for x in a.elts):
            out = [x.value for x in a.elts]
        else:
            return None
        return out if out and all(x.isidentifier() for x in out) else None

    def run(self, tree):
        nts = {}
        for s in tree.body:
            if isinstance(s, ast.ClassDef) and len(s.bases) == 1 and isinstance(s.bases[0], ast.Call) and not s.keywords and not s.decorator_list:
                fl = self._fields(s.bases[0])
                plain = all((isinstance(b, ast.Expr) and isinstance(b.value, ast.Constant)) or isinstance(b, ast.Pass)
                            or (isinstance(b, ast.Assign) and len(b.targets) == 1 and isinstance(b.targets[0], ast.Name) and b.targets[0].id == '__slots__'
                                and isinstance(b.value, ast.Tuple) and not b.value.elts) for b in s.body)
                if fl and plain:
                    nts[s.name] = fl
            elif isinstance(s, ast.Assign) and len(s.targets) == 1 and isinstance(s.targets[0], ast.Name) and isinstance(s.value, ast.Call):
                fl = self._fields(s.value)
                if fl:
                    nts[s.targets[0].id] = fl
        if not nts:
            return tree
        # a record name that is rebound anywhere is not certain
        for n in ast.walk(tree):
            if isinstance(n, ast.Name) and n.id in nts and isinstance(n.ctx, (ast.Store, ast.Del)) and not any(isinstance(s, ast.Assign) and s.targets[0] is n for s in tree.body):
                nts.pop(n.id)
        if not nts:
            return tree

        def is_ctor(e):
            return isinstance(e, ast.Call) and isinstance(e.func, ast.Name) and e.func.id in nts

        def idx(node, e, i):
            return ast.copy_location(ast.Subscript(value=e, slice=ast.copy_location(ast.Constant(value=i), node), ctx=ast.Load()), node)
        # module-level tables whose every value is a record of one type: TABLE[k] / TABLE.get(k) is such a record (or None)
        rec_tables = {}
        for s_ in tree.body:
            if isinstance(s_, ast.Assign) and len(s_.targets) == 1 and isinstance(s_.targets[0], ast.Name) and isinstance(s_.value, ast.Dict) and s_.value.values \
                    and all(is_ctor(v_) for v_ in s_.value.values) and len({v_.func.id for v_ in s_.value.values}) == 1:
                rec_tables[s_.targets[0].id] = nts[s_.value.values[0].func.id]

        def from_table(e):
            if isinstance(e, ast.Subscript) and isinstance(e.value, ast.Name) and e.value.id in rec_tables and not isinstance(e.slice, ast.Slice):
                return rec_tables[e.value.id]
            if isinstance(e, ast.Call) and isinstance(e.func, ast.Attribute) and e.func.attr == 'get' and isinstance(e.func.value, ast.Name) and e.func.value.id in rec_tables \
                    and len(e.args) == 1 and not e.keywords:
                return rec_tables[e.func.value.id]
            return None
        # locals bound once, to a record
        for fn in [x for x in ast.walk(tree) if isinstance(x, (ast.FunctionDef, ast.AsyncFunctionDef))]:
            stores = {}
            for n in ast.walk(fn):
                if isinstance(n, ast.Name) and isinstance(n.ctx, (ast.Store, ast.Del)):
                    stores[n.id] = stores.get(n.id, 0) + 1
            recs = {}
            for n in ast.walk(fn):
                if isinstance(n, ast.Assign) and len(n.targets) == 1 and isinstance(n.targets[0], ast.Name) and is_ctor(n.value) and stores.get(n.targets[0].id) == 1 \
                        and n.targets[0].id not in {a.arg for a in fn.args.args + fn.args.kwonlyargs}:
                    recs[n.targets[0].id] = nts[n.value.func.id]
                elif isinstance(n, ast.Assign) and len(n.targets) == 1 and isinstance(n.targets[0], ast.Name) and from_table(n.value) and stores.get(n.targets[0].id) == 1 \
                        and n.targets[0].id not in {a.arg for a in fn.args.args + fn.args.kwonlyargs}:
                    recs[n.targets[0].id] = from_table(n.value)
            if recs:
                class V(ast.NodeTransformer):
                    def visit_Attribute(self_, node):
                        self_.generic_visit(node)
                        if isinstance(node.ctx, ast.Load) and isinstance(node.value, ast.Name) and node.value.id in recs and node.attr in recs[node.value.id]:
                            return idx(node, node.value, recs[node.value.id].index(node.attr))
                        return node
                V().visit(fn)

        class W(ast.NodeTransformer):
            def visit_Attribute(self_, node):
                v = node.value
                if isinstance(node.ctx, ast.Load) and is_ctor(v) and node.attr in nts[v.func.id]:
                    i = nts[v.func.id].index(node.attr)
                    if len(v.args) == 1 and isinstance(v.args[0], ast.Starred) and not v.keywords:
                        return idx(node, self_.visit(v.args[0].value), i)
                self_.generic_visit(node)
                return node

            def visit_Call(self_, node):
                self_.generic_visit(node)
                if not is_ctor(node):
                    return node
                fl = nts[node.func.id]
                if len(node.args) == 1 and isinstance(node.args[0], ast.Starred) and not node.keywords:
                    return ast.copy_location(ast.Call(func=ast.copy_location(ast.Name(id='tuple', ctx=ast.Load()), node), args=[node.args[0].value], keywords=[]), node)
                if any(isinstance(a, ast.Starred) for a in node.args) or any(k.arg is None or k.arg not in fl for k in node.keywords):
                    return node
                vals = dict(zip(fl, node.args))
                for k in node.keywords:
                    if k.arg in vals:
                        return node
                    vals[k.arg] = k.value
                if len(vals) != len(fl) or len(node.args) > len(fl):
                    return node
                return ast.copy_location(ast.Tuple(elts=[vals[f] for f in fl], ctx=ast.Load()), node)
        W().visit(tree)
        ast.fix_missing_locations(tree)
        return tree


class _FieldLocals:
    """`v = Cls(...); self.f = v; v.read(...)` is `self.f = Cls(...); self.f.read(...)`: a local that only names the object just stored
    into a field (the shape a table-driven decoder takes once its loop is unrolled) is replaced by the field, up to the next rebinding of
    the local or of the field in the same block."""

    def run(self, tree):
        for n in ast.walk(tree):
            for fld in ('body', 'orelse', 'finalbody'):
                b = getattr(n, fld, None)
                if isinstance(b, list) and b and isinstance(b[0], ast.stmt):
                    setattr(n, fld, self.block(b))
        return tree

    @staticmethod
    def _stores(stmt, name=None, field=None):
        for x in ast.walk(stmt):
            if name and isinstance(x, ast.Name) and x.id == name and isinstance(x.ctx, (ast.Store, ast.Del)):
                return True
            if field and isinstance(x, ast.Attribute) and x.attr == field and isinstance(x.value, ast.Name) and x.value.id == 'self' and isinstance(x.ctx, (ast.Store, ast.Del)):
                return True
        return False

    def block(self, stmts):
        out = list(stmts)
        i = 0
        while i + 1 < len(out):
            a, b = out[i], out[i + 1]
            if isinstance(a, ast.Assign) and len(a.targets) == 1 and isinstance(a.targets[0], ast.Name) and isinstance(a.value, ast.Call) \
                    and isinstance(b, ast.Assign) and len(b.targets) == 1 and isinstance(b.targets[0], ast.Attribute) and isinstance(b.targets[0].value, ast.Name) \
                    and b.targets[0].value.id == 'self' and isinstance(b.value, ast.Name) and b.value.id == a.targets[0].id \
                    and not any(isinstance(x, ast.Name) and x.id == a.targets[0].id for x in ast.walk(a.value)):
                v, f = a.targets[0].id, b.targets[0].attr
                j = i + 2
                ok = True
                while j < len(out) and not self._stores(out[j], v, f):
                    j += 1
                # the local must not be read after the region (it would have to keep its value)
                for k in range(j, len(out)):
                    if self._stores(out[k], v):
                        break
                    if any(isinstance(x, ast.Name) and x.id == v and isinstance(x.ctx, ast.Load) for x in ast.walk(out[k])):
                        ok = False
                        break
                # the decoder shape: the object is used through its methods (v.read(...)) - a plain value that is stored in a field and
                # then passed on (uid = str(x); self._placeholder = uid; Payload(uid)) is not re-read from the field
                if ok and not any(isinstance(x, ast.Call) and isinstance(x.func, ast.Attribute) and isinstance(x.func.value, ast.Name) and x.func.value.id == v
                                  for st_ in out[i + 2:j] for x in ast.walk(st_)):
                    ok = False
                if ok:
                    class Rep(ast.NodeTransformer):
                        def visit_Name(self_, node):
                            if node.id == v and isinstance(node.ctx, ast.Load):
                                return ast.copy_location(ast.Attribute(value=ast.Name(id='self', ctx=ast.Load()), attr=f, ctx=ast.Load()), node)
                            return node
                    new_store = ast.copy_location(ast.Assign(targets=[b.targets[0]], value=a.value), a)
                    region = [ast.fix_missing_locations(Rep().visit(x)) for x in out[i + 2:j]]
                    out[i:j] = [ast.fix_missing_locations(new_store)] + region
                    i += 1
                    continue
            i += 1
        return out


class SourceSet:
    def __init__(self, root=None, overlay=None):
        self.root = root or DEFAULT_ROOT
        self.overlay = dict(overlay or {})
        self._text = {}
        self._tree = {}
        self.consulted = set()

    def exists(self, rel):
        return rel in self.overlay or os.path.isfile(os.path.join(self.root, rel))

    def text(self, rel):
        self.consulted.add(rel)
        if rel in self.overlay:
            return self.overlay[rel]
        if rel not in self._text:
            p = os.path.join(self.root, rel)
            if not os.path.isfile(p):
                raise AnalysisError('anchor vanished: file %s' % rel)
            with open(p, encoding='utf-8') as f:
                self._text[rel] = f.read()
        return self._text[rel]

    def tree(self, rel):
        if rel not in self._tree:
            try:
                t = ast.parse(self.text(rel), filename=rel)
            except SyntaxError as e:
                raise AnalysisError('cannot parse %s: %s' % (rel, e))
            if 'namedtuple' in self.text(rel):
                t = _NamedTuples().run(t)
            t = _Lower().run(t)
            t = _Canon().visit(t)
            t = _AliasInline().run(t)
            t = _GuardedLocals().run(t)
            from .tables import expand_tables
            t = expand_tables(t)
            t = _Canon().visit(t)
            t = _AliasInline().run(t)          # what the expansion made a plain alias of a field (handler = self._process_get) is one now
            t = _FieldLocals().run(t)
            for n in ast.walk(t):
                for c in ast.iter_child_nodes(n):
                    c._parent = n
            t._parent = None
            t._rel = rel
            self._tree[rel] = t
        return self._tree[rel]

    def with_overlay(self, rel, text):
        ov = dict(self.overlay)
        ov[rel] = text
        return SourceSet(self.root, ov)

    def modules(self, prefix='kmip', tests=False, demos=False):
        out = []
        base = os.path.join(self.root, prefix)
        for d, dirs, files in os.walk(base):
            dirs.sort()
            rel_d = os.path.relpath(d, self.root)
            parts = rel_d.split(os.sep)
            if not tests and 'tests' in parts:
                continue
            if not demos and 'demos' in parts:
                continue
            for f in sorted(files):
                if f.endswith('.py'):
                    out.append(os.path.join(rel_d, f))
        for rel in self.overlay:
            if rel.startswith(prefix) and rel not in out:
                out.append(rel)
        return sorted(out)
