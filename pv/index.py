"""Package-level class index: import aliases, class resolution, MRO, fields."""
import ast
import os

from .astutil import U, dotted, walk_local, is_self_attr, classes as classes_of, call_name
from .source import AnalysisError


def mod_to_rel(src, mod):
    p = mod.replace('.', '/')
    if src.exists(p + '.py'):
        return p + '.py'
    if src.exists(p + '/__init__.py'):
        return p + '/__init__.py'
    return None


class Index:
    def __init__(self, src):
        self.src = src
        self._aliases = {}
        self._fields = {}

    def aliases(self, rel):
        """local name -> ('module', 'kmip.x.y') | ('symbol', 'kmip.x.y', 'Name')"""
        if rel in self._aliases:
            return self._aliases[rel]
        out = {}
        t = self.src.tree(rel)
        pkg = rel[:-3].replace('/', '.')
        if pkg.endswith('.__init__'):
            pkg = pkg[:-9]
        for n in ast.walk(t):
            if isinstance(n, ast.Import):
                for a in n.names:
                    if a.asname:
                        out[a.asname] = ('module', a.name)
                    else:
                        out[a.name.split('.')[0]] = ('module', a.name.split('.')[0])
            elif isinstance(n, ast.ImportFrom) and n.module:
                for a in n.names:
                    full = n.module + '.' + a.name
                    if mod_to_rel(self.src, full):
                        out[a.asname or a.name] = ('module', full)
                    else:
                        out[a.asname or a.name] = ('symbol', n.module, a.name)
        self._aliases[rel] = out
        return out

    def resolve_class(self, rel, expr):
        """expr (Name / Attribute chain) used in module rel -> (rel2, qualified class name) or None."""
        d = dotted(expr) if not isinstance(expr, str) else expr
        if d is None:
            return None
        parts = d.split('.')
        t = self.src.tree(rel)
        local = classes_of(t)
        # local (possibly nested) class
        for i in range(len(parts), 0, -1):
            q = '.'.join(parts[:i])
            if q in local and i == len(parts):
                return (rel, q)
        al = self.aliases(rel)
        head = parts[0]
        if head in al:
            a = al[head]
            if a[0] == 'module':
                mod = a[1]
                rest = parts[1:]
                # descend into submodules
                while rest and mod_to_rel(self.src, mod + '.' + rest[0]):
                    mod = mod + '.' + rest[0]
                    rest = rest[1:]
                r2 = mod_to_rel(self.src, mod)
                if r2 and rest:
                    return self._resolve_in(r2, '.'.join(rest))
            else:
                r2 = mod_to_rel(self.src, a[1])
                if r2:
                    return self._resolve_in(r2, '.'.join([a[2]] + parts[1:]))
        return None

    def _resolve_in(self, rel, q, depth=0):
        if depth > 5:
            return None
        t = self.src.tree(rel)
        if q in classes_of(t):
            return (rel, q)
        # re-export through this module's imports (e.g. payloads/__init__.py)
        head = q.split('.')[0]
        al = self.aliases(rel)
        if head in al:
            a = al[head]
            if a[0] == 'symbol':
                r2 = mod_to_rel(self.src, a[1])
                if r2:
                    return self._resolve_in(r2, '.'.join([a[2]] + q.split('.')[1:]), depth + 1)
        return None

    def class_node(self, ref):
        rel, q = ref
        return classes_of(self.src.tree(rel))[q]

    def bases(self, ref):
        c = self.class_node(ref)
        out = []
        for b in c.bases:
            r = self.resolve_class(ref[0], b)
            if r is None and isinstance(b, ast.Name) and '.' in ref[1]:
                # sibling nested class
                pass
            if r:
                out.append(r)
        return out

    def mro(self, ref, seen=None):
        seen = seen or set()
        if ref in seen:
            return []
        seen.add(ref)
        out = [ref]
        for b in self.bases(ref):
            out += [x for x in self.mro(b, seen) if x not in out]
        return out

    def own_fields(self, ref):
        c = self.class_node(ref)
        f = {}
        for n in c.body:
            if isinstance(n, ast.Assign):
                for t in n.targets:
                    if isinstance(t, ast.Name):
                        f[t.id] = n
            elif isinstance(n, (ast.FunctionDef, ast.ClassDef)):
                f.setdefault(n.name, n)
            if isinstance(n, ast.FunctionDef):
                for m in walk_local(n):
                    if is_self_attr(m) and isinstance(m.ctx, ast.Store):
                        f.setdefault(m.attr, m)
        return f

    def fields(self, ref):
        if ref not in self._fields:
            f = {}
            for r in reversed(self.mro(ref)):
                f.update(self.own_fields(r))
            self._fields[ref] = f
        return self._fields[ref]

    def find_method(self, ref, name):
        for r in self.mro(ref):
            c = self.class_node(r)
            for n in c.body:
                if isinstance(n, ast.FunctionDef) and n.name == name:
                    return r, n
        return None, None

    def issub(self, ref, base_ref):
        return base_ref in self.mro(ref)
