"""C12 - the session answers any bytes safely, once, and keeps going."""
import ast

from ..astutil import (U, dotted, get_class, get_method, walk_local, is_self_attr, call_name, short, enum_member,
                       params, all_functions, classes)
from ..cfg import CFG, calls_at
from ..dataflow import ReachingDefs
from ..guards import call_nodes, dominating_edges, cmp_parts, handler_catches, edge_successors, is_none_test
from ..engmodel import SESSION
from ..source import AnalysisError

UTILS = 'kmip/core/utils.py'

EXPLANATION = (
    "CFG path/dominance analysis of KmipSession.run, _handle_message_loop, _receive_request, _receive_bytes and of every "
    "decoder loop under kmip/core: the engine is reachable only after request.read completed normally; every normal path "
    "assigns `response`, encodes it and calls _send_response exactly once; every except arm in the message loop assigns a "
    "response and none re-raises; run() contains every exception but ConnectionClosed (which ends the loop); the framing loop "
    "requests at most the missing byte count and accumulates exactly what was received; the size test follows the encode and "
    "replaces the response with RESPONSE_TOO_LARGE; every decoder loop consumes input on each iteration. Value-level behaviour "
    "of individual decoders on particular bytes is not decided.")


def has_catch_all(trystmt):
    return any('*' in handler_catches(h) for h in trystmt.handlers)



def stream_read_by_shape(rdm):
    """the spelling BytearrayStream.read has on the pinned tree (fallback when the class cannot be folded)"""
    npar = params(rdm)[0]
    rets = [r for r in walk_local(rdm) if isinstance(r, ast.Return)]
    slices = [a for a in walk_local(rdm) if isinstance(a, ast.Assign) and isinstance(a.value, ast.Subscript) and dotted(a.value.value) == 'self.buffer'
              and isinstance(a.value.slice, ast.Slice)]
    take = [a for a in slices if a.value.slice.upper is not None and U(a.value.slice.upper) == npar and (a.value.slice.lower is None or U(a.value.slice.lower) == '0') and isinstance(a.targets[0], ast.Name)]
    adv = [a for a in slices if a.value.slice.lower is not None and U(a.value.slice.lower) == npar and a.value.slice.upper is None and dotted(a.targets[0]) == 'self.buffer']
    return len(take) == 1 and len(adv) == 1 and any(isinstance(r.value, ast.Name) and r.value.id == take[0].targets[0].id for r in rets)


def fold_stream_adt(ctx, bs):
    """BytearrayStream as an abstract data type, folded over byte *windows* (pv/fold.py WinBytes: which bytes of which input, never their
    content): for every input length L <= 4 and request sizes n1, n2 <= L + 2,
        s = BytearrayStream(d);  r1 = s.read(n1);  [s.write(e)];  r2 = s.read(n2)
    r1 must be d[0:min(n1, L)], the unread rest must be d[min(n1, L):] (as seen by .buffer, length(), len(), peek()), written bytes follow
    the unread rest, r2 continues where r1 stopped.  Returns (ok, text) or None when the class leaves what can be folded."""
    from ..fold import Folder, Unfoldable, Raised, WinBytes
    models = {'bytes': lambda x=b'', *a: x if isinstance(x, WinBytes) else bytes(x), 'bytearray': lambda x=b'', *a: x if isinstance(x, WinBytes) else bytes(x)}
    n_cases = 0
    bad = None

    def note(msg):
        nonlocal bad
        bad = bad or msg
    try:
        for L in range(0, 5):
            for n1 in range(0, L + 3):
                for wr in (0, 2):
                    for n2 in range(0, L + 3 + wr):
                        f = Folder(models=models, steps=20000)
                        o = f.new_object(bs)
                        ms = o['__methods__']
                        if not {'__init__', 'read'} <= set(ms):
                            return None
                        d = WinBytes.of('d', L)
                        try:
                            f.call_method(ms['__init__'], o, [d], {})
                            r1 = f.call_method(ms['read'], o, [n1], {})
                            k1 = min(n1, L)
                            if r1 != d[0:k1]:
                                note('for %d stored bytes read(%d) returns %r' % (L, n1, r1))
                                continue
                            rest = d[k1:]
                            if 'buffer' in o['__props__'] or 'buffer' in o['__attrs__']:
                                bv = f.call_method(o['__props__']['buffer'][0], o, [], {}) if 'buffer' in o['__props__'] else o['buffer']
                                if bv != rest:
                                    note('for %d stored bytes, after read(%d) the buffer holds %r' % (L, n1, bv))
                            for nm in ('length', '__len__'):
                                if nm in ms and f.call_method(ms[nm], o, [], {}) != len(rest):
                                    note('for %d stored bytes, after read(%d) %s() is wrong' % (L, n1, nm))
                            if 'peek' in ms and f.call_method(ms['peek'], o, [], {}) != rest:
                                note('for %d stored bytes, after read(%d) peek() does not show the unread rest' % (L, n1))
                            if wr and 'write' in ms:
                                e = WinBytes.of('e', wr)
                                f.call_method(ms['write'], o, [e], {})
                                rest = rest + e
                            r2 = f.call_method(ms['read'], o, [n2], {})
                            if r2 != rest[0:min(n2, len(rest))]:
                                note('for %d stored bytes, read(%d)%s then read(%d) returns %r' % (L, n1, ' + write(2 bytes)' if wr else '', n2, r2))
                            n_cases += 1
                        except Raised as ex:
                            note('%s raised for %d stored bytes, read(%d)' % (ex.name, L, n1))
    except Unfoldable as ex:
        ctx.count('stream_adt_unfoldable', 1)
        return None
    ctx.count('stream_adt_cases_folded', n_cases)
    return (bad is None, bad or 'folded over %d histories of byte windows' % n_cases)


def check_short_reads(ctx, rule='C12.R7', tail=''):
    """short reads of primitive values are detected (shared with C19: the client decodes responses with the same primitives)"""
    ctx.rule(rule, 'in the primitive decoders every stream.read(n) result is checked for shortness: it is unpacked by struct (exact size), indexed ([0] on a one-byte read), or its len() is compared in a test that raises; otherwise a truncated or over-long length field decodes into a value shorter than its length field says (BytearrayStream.read clips silently)')
    PRIM = 'kmip/core/primitives.py'
    pt = ctx.src.tree(PRIM)
    n_reads = 0
    for qn, fn, cls in all_functions(pt):
        ps = [a.arg for a in fn.args.args]
        streams = set(x for x in ps if x in ('istream', 'stream', 'input_stream', 'input_buffer'))
        if not streams or cls is None:
            continue
        for c in walk_local(fn):
            if not (isinstance(c, ast.Call) and isinstance(c.func, ast.Attribute) and c.func.attr == 'read' and isinstance(c.func.value, ast.Name) and c.func.value.id in streams and c.args):
                continue
            n_reads += 1
            site = '%s:%s %s' % (PRIM, c.lineno, qn)
            par = c._parent
            how = None
            # walk outwards through bytes()/slices/concatenation to the consumer
            cur = c
            while True:
                par = cur._parent
                if isinstance(par, ast.Call) and (call_name(par) or '').split('.')[-1] == 'unpack' and cur in par.args:
                    how = 'unpacked'
                    break
                if isinstance(par, ast.Subscript) and par.value is cur and not isinstance(par.slice, ast.Slice):
                    how = 'indexed'
                    break
                if isinstance(par, ast.BinOp) or (isinstance(par, ast.Subscript) and par.value is cur) or (isinstance(par, ast.Call) and call_name(par) in ('bytes', 'bytearray') and cur in par.args):
                    cur = par
                    continue
                break
            if how is None and isinstance(par, ast.Assign) and len(par.targets) == 1 and isinstance(par.targets[0], ast.Name):
                v = par.targets[0].id
                for x in walk_local(fn):
                    if isinstance(x, ast.Call) and (call_name(x) or '').split('.')[-1] == 'unpack' and any(isinstance(y, ast.Name) and y.id == v for a in x.args for y in ast.walk(a)):
                        how = 'unpacked via %s' % v
                    if isinstance(x, ast.Call) and call_name(x) == 'len' and x.args and isinstance(x.args[0], ast.Name) and x.args[0].id == v:
                        # len(v) itself compared, or assigned to a name that is compared, in an if that raises
                        names = {None}
                        if isinstance(x._parent, ast.Assign) and isinstance(x._parent.targets[0], ast.Name):
                            names = {x._parent.targets[0].id}
                        for iff in walk_local(fn):
                            if isinstance(iff, ast.If) and any(isinstance(r, ast.Raise) for r in iff.body) and (
                                    any(y is x for y in ast.walk(iff.test)) or any(isinstance(y, ast.Name) and y.id in names for y in ast.walk(iff.test))):
                                how = 'length of %s checked' % v
            ctx.check(how is not None, rule, '%s|read(%s)' % (qn, U(c.args[0])), site, 'short read detected: %s' % how,
                      'the result of %s is used without any check of its size: BytearrayStream.read returns fewer bytes than asked for when the length field overruns the data, so the value decodes shorter than its declared length instead of the request being refused' % U(c) + tail)
    ctx.count('primitive_stream_reads', n_reads, 15)

def run(ctx):
    src = ctx.src
    st = src.tree(SESSION)
    sc = get_class(st, 'KmipSession')
    loop = get_method(sc, '_handle_message_loop')
    g = CFG(loop)
    rd = ReachingDefs(g)
    L = 'KmipSession._handle_message_loop'
    ctx.rule('C12.R1', 'every engine.process_request call is unreachable from the exception edge of request.read and dominated by its normal completion')
    ctx.rule('C12.R2', 'on every normal path through the message loop `response` is assigned before it is encoded and _send_response is called exactly once')
    ctx.rule('C12.R3', 'every try level in the message loop has a catch-all arm, no arm re-raises, every arm assigns `response`; run() catches '
                       'ConnectionClosed (break) and Exception (log) around the message loop call')
    ctx.rule('C12.R4', 'framing: 8-byte header, length from bytes 4..8 big-endian, receive loop bounded by the missing byte count, accumulates what was received, empty read raises ConnectionClosed')
    ctx.rule('C12.R5', 'the encoded length is compared with the maximum size after encoding; the true arm rebuilds with RESPONSE_TOO_LARGE and re-encodes; the client maximum replaces the default when present')
    ctx.rule('C12.R6', 'every decoder loop in kmip/core read methods consumes stream input on every iteration; BytearrayStream.read returns at most what it holds and advances')

    # ---------------- R1
    prs = call_nodes(g, 'self._engine.process_request')
    ctx.need(prs, 'anchor vanished: process_request call in _handle_message_loop')
    reads = [(n, c) for n, c in call_nodes(g, '.read') if isinstance(c.func.value, ast.Name)
             and any(isinstance(v, ast.Call) and (call_name(v) or '').endswith('RequestMessage') for v in rd.values(n, c.func.value.id))]
    ctx.need(len(reads) == 1, 'unrecognised construct: expected one <RequestMessage>.read call, found %d' % len(reads))
    rn, rc = reads[0]
    reqvar = rc.func.value.id
    for prn, prc in prs:
        site = '%s:%s %s' % (SESSION, prc.lineno, L)
        exc_reach = any(l == 'exc' and prn.id in g.reachable(m, [rn]) for m, l in rn.succ)
        ctx.check(g.dominates(rn, prn) and not exc_reach, 'C12.R1', '%s|parse-before-execute' % L, site,
                  'request.read dominates process_request; its exception edge cannot reach it',
                  'process_request is reachable although request.read did not complete normally')
        a0 = prc.args[0] if prc.args else None
        ctx.check(isinstance(a0, ast.Name) and a0.id == reqvar, 'C12.R1', '%s|executes-parsed-request' % L, site,
                  'the executed request is the decoded one', 'process_request is given %s, not the decoded request' % U(a0))
    # the request bytes come from _receive_request
    a0 = rc.args[0] if rc.args else None
    dv = rd.values(rn, a0.id) if isinstance(a0, ast.Name) else []
    ctx.check(len(dv) == 1 and isinstance(dv[0], ast.Call) and call_name(dv[0]) == 'self._receive_request', 'C12.R1',
              '%s|decodes-received-frame' % L, '%s:%s %s' % (SESSION, rc.lineno, L), 'request.read consumes the frame returned by _receive_request',
              'request.read does not decode the received frame')

    # a half-decoded request is never looked at: the arms that handle a failed request.read do not read the request object
    ctx.rule('C12.R8', 'in the except arms of the try that encloses request.read nothing derived from the (partially decoded) request object flows into the error response: it is built from constants only, so its encoding cannot fail on a half-decoded header')
    ptry = rn.tries[-1] if rn.tries else None
    ctx.need(ptry is not None, 'unrecognised construct: request.read is not inside a try')
    for h in ptry.handlers:
        # values derived from the request inside the arm, and their use in what is sent back (logging the object is not the property's concern)
        derived = {reqvar}
        for _ in range(3):
            for st in h.body:
                for a_ in ast.walk(st):
                    if isinstance(a_, ast.Assign) and any(isinstance(x, ast.Name) and x.id in derived for x in ast.walk(a_.value)):
                        for tg in a_.targets:
                            for y in ast.walk(tg):
                                if isinstance(y, ast.Name):
                                    derived.add(y.id)
        uses = []
        for st in h.body:
            for c_ in ast.walk(st):
                if isinstance(c_, ast.Call) and (call_name(c_) or '').endswith('build_error_response'):
                    uses += [x for a_ in list(c_.args) + [k.value for k in c_.keywords] for x in ast.walk(a_) if isinstance(x, ast.Name) and x.id in derived]
                if isinstance(c_, ast.Call) and isinstance(c_.func, ast.Attribute) and c_.func.attr == 'write' and isinstance(c_.func.value, ast.Name) and c_.func.value.id in derived:
                    uses.append(c_.func.value)
        ctx.check(not uses, 'C12.R8', '%s|except %s reads the undecoded request' % (L, ','.join(handler_catches(h))), '%s:%s %s' % (SESSION, h.lineno, L),
                  'the arm does not touch the request object',
                  'the arm that handles a failed decode reads %s (line %s): the object is only partially decoded there (fields may be missing or carry unvalidated values), so building or encoding the error response from it can raise outside every try, or echo garbage' % (reqvar, sorted(set(u.lineno for u in uses))))
    # ---------------- R2
    sends = call_nodes(g, 'self._send_response')
    ctx.count('send_sites', len(sends), 1)
    send_nodes = [n for n, c in sends]
    site = '%s:%s %s' % (SESSION, loop.lineno, L)
    ctx.check(g.all_paths_pass(g.entry, g.exit, send_nodes), 'C12.R2', '%s|send-on-every-normal-path' % L, site,
              'every normal path to the function exit passes _send_response', 'a normal path through the message loop sends no response')
    twice = False
    for n in send_nodes:
        for m, l in n.succ:
            if l != 'exc' and any(x.id in g.reachable(m) for x in send_nodes):
                twice = True
    ctx.check(not twice, 'C12.R2', '%s|send-at-most-once' % L, site, 'no path sends two responses', 'a path calls _send_response twice')
    # what is sent: bytes of a stream into which `response.write` encoded
    respvars = set()
    for sn, scall in sends:
        ssite = '%s:%s %s' % (SESSION, scall.lineno, L)
        a = scall.args[0] if scall.args else None
        okd = False
        if isinstance(a, ast.Attribute) and a.attr == 'buffer' and isinstance(a.value, ast.Name):
            sv = a.value.id
            writes = [(n, c) for n, c in call_nodes(g, '.write') if c.args and isinstance(c.args[0], ast.Name) and c.args[0].id == sv]
            # every def of the stream reaching the send is followed by a response.write into it
            defs = rd.reaching(sn, sv)
            okd = bool(defs) and all(d[2] is not None and any(g.dominates(d[2], wn) and g.all_paths_pass(d[2], sn, [wn]) for wn, wc in writes) for d in defs)
            respvars |= set(c.func.value.id for n, c in writes if isinstance(c.func.value, ast.Name))
        ctx.check(okd, 'C12.R2', '%s|sent-bytes-are-encoded-response' % L, ssite, 'the bytes sent are the buffer a response was encoded into',
                  'the bytes passed to _send_response are not the encoding of the response on every path')
    # definite assignment of `response` at every encode
    resp_writes = [(n, c) for n, c in call_nodes(g, '.write') if isinstance(c.func.value, ast.Name) and c.func.value.id in respvars or
                   (isinstance(c.func.value, ast.Name) and any(isinstance(v, ast.Call) and (call_name(v) or '').endswith('build_error_response') for v in rd.values(n, c.func.value.id)))]
    ctx.count('response_encode_sites', len(resp_writes), 2)
    for wn, wc in resp_writes:
        v = wc.func.value.id
        assigns = [n for n in g.nodes if any(var == v for var, d in rd.node_defs[n.id])]
        ctx.check(g.all_paths_pass(g.entry, wn, assigns), 'C12.R2', '%s|response-assigned-before-encode' % L, '%s:%s %s' % (SESSION, wc.lineno, L),
                  '`%s` is assigned on every path to its encoding' % v, '`%s` may be unassigned when encoded' % v)
        # provenance: every reaching def is build_error_response(...) or component 0 of process_request's result
        for var, val, dn in rd.reaching(wn, v):
            good = False
            if isinstance(val, ast.Call) and call_name(val) == 'self._engine.build_error_response':
                good = True
            elif isinstance(val, tuple) and val[0] == 'unpack' and val[2] == 0:
                srcv = val[1]
                if isinstance(srcv, ast.Name):
                    vv = rd.values(dn, srcv.id)
                    good = len(vv) == 1 and isinstance(vv[0], ast.Call) and call_name(vv[0]) == 'self._engine.process_request'
                elif isinstance(srcv, ast.Call) and call_name(srcv) == 'self._engine.process_request':
                    good = True
            ctx.check(good, 'C12.R2', '%s|response-provenance %s' % (L, short(val, 40) if isinstance(val, ast.AST) else str(val[0])),
                      '%s:%s %s' % (SESSION, getattr(dn.stmt, 'lineno', 0) if dn is not None else 0, L),
                      'response is engine-built', 'a response that is not built by the engine may be sent')

    # ---------------- R3
    trys = [n.stmt for n in g.nodes if n.kind == 'dispatch']
    ctx.count('try_levels_message_loop', len(trys), 3)
    for t in trys:
        tsite = '%s:%s %s' % (SESSION, t.lineno, L)
        ctx.check(has_catch_all(t), 'C12.R3', '%s|try@%s catch-all' % (L, short(t.body[0], 40)), tsite,
                  'try level has an `except Exception` arm', 'try level lacks a catch-all arm: %s' % [handler_catches(h) for h in t.handlers])
        for h in t.handlers:
            hs = '%s:%s %s except %s' % (SESSION, h.lineno, L, ','.join(handler_catches(h)))
            raises = [x for s in h.body for x in ast.walk(s) if isinstance(x, ast.Raise)]
            ctx.check(not raises, 'C12.R3', '%s|except %s@%s no-reraise' % (L, ','.join(handler_catches(h)), short(t.body[0], 30)), hs,
                      'arm does not raise', 'except arm re-raises; the exception escapes the message loop without a response')
            hn = [n for n in g.nodes if n.kind == 'handler' and n.stmt is h][0]
            # every path from the handler entry to the end of the try assigns response
            assigns = [n for n in g.nodes if h in n.handlers and any(var in respvars for var, d in rd.node_defs[n.id])]
            after = [n for n in g.nodes if h not in n.handlers and n is not hn and n.id in g.reachable(hn)]
            leaves_without = False
            seen = g.reachable(hn, assigns)
            for n in g.nodes:
                if n.id in seen and h not in n.handlers and n is not hn and n is not g.raise_exit and n.kind != 'dispatch':
                    leaves_without = True
            ctx.check(not leaves_without, 'C12.R3', '%s|except %s@%s assigns-response' % (L, ','.join(handler_catches(h)), short(t.body[0], 30)), hs,
                      'arm assigns `response` on every path', 'except arm can complete without assigning a response')
    # run()
    runf = get_method(sc, 'run')
    rg = CFG(runf)
    mls = call_nodes(rg, 'self._handle_message_loop')
    ctx.need(len(mls) >= 1, 'anchor vanished: run() no longer calls _handle_message_loop')
    for mn, mc in mls:
        rs = '%s:%s KmipSession.run' % (SESSION, mc.lineno)
        okr = bool(mn.tries) and bool(mn.loops)
        if okr:
            t = mn.tries[-1]
            cc = [handler_catches(h) for h in t.handlers]
            closed = [h for h in t.handlers if any(x.endswith('ConnectionClosed') for x in handler_catches(h))]
            catchall = [h for h in t.handlers if '*' in handler_catches(h)]
            okr = bool(closed) and bool(catchall)
            if okr:
                okr = okr and any(isinstance(s, ast.Break) for s in closed[0].body)
                okr = okr and t.handlers.index(closed[0]) < t.handlers.index(catchall[0])
                okr = okr and not any(isinstance(x, (ast.Raise, ast.Break, ast.Return)) for s in catchall[0].body for x in ast.walk(s))
                # the try is directly inside the loop (an exception must not leave the loop)
                okr = okr and mn.loops[-1] in [a for a in _ancestors(t)]
        ctx.check(okr, 'C12.R3', 'KmipSession.run|contains-exceptions', rs,
                  'message loop call sits in a loop-level try: ConnectionClosed -> break, Exception -> log and continue',
                  'run() does not contain the exceptions of the message loop (or stops serving on a non-ConnectionClosed exception)')

    # ---------------- R4 framing
    rb = get_method(sc, '_receive_bytes')
    bg = CFG(rb)
    brd = ReachingDefs(bg)
    size = params(rb)[0]
    bsite = '%s:%s KmipSession._receive_bytes' % (SESSION, rb.lineno)
    loops = [n for n in bg.nodes if n.kind == 'loop']
    ctx.need(len(loops) == 1 and isinstance(loops[0].stmt, ast.While), 'unrecognised construct: _receive_bytes must have exactly one while loop')
    w = loops[0].stmt
    p = cmp_parts(w.test)
    cnt = None
    if p and isinstance(p[0], ast.Name) and isinstance(p[2], ast.Name):
        if p[1] == 'Lt' and p[2].id == size:
            cnt = p[0].id
        elif p[1] == 'Gt' and p[0].id == size:
            cnt = p[2].id
        elif p[1] == 'NotEq' and size in (p[0].id, p[2].id):
            cnt = p[0].id if p[2].id == size else p[2].id
    ctx.check(cnt is not None, 'C12.R4', 'KmipSession._receive_bytes|loop-condition', bsite, 'loop runs while %s < %s' % (cnt, size),
              'receive loop condition is not `received < requested`: %s' % U(w.test))
    recvs = [(n, c) for n, c in call_nodes(bg, 'self._connection.recv')]
    ctx.check(len(recvs) == 1 and w in recvs[0][0].loops, 'C12.R4', 'KmipSession._receive_bytes|single-recv-in-loop', bsite,
              'one recv inside the loop', 'expected exactly one recv call inside the receive loop')
    if cnt and len(recvs) == 1:
        rn_, rcall = recvs[0]
        arg = rcall.args[0] if rcall.args else None
        remaining = '%s - %s' % (size, cnt)
        bounded = False
        if arg is not None:
            if U(arg) == remaining:
                bounded = True
            elif isinstance(arg, ast.Call) and call_name(arg) == 'min' and any(U(a) == remaining for a in arg.args):
                bounded = True
        ctx.check(bounded, 'C12.R4', 'KmipSession._receive_bytes|recv-bounded-by-missing', bsite, 'recv(%s)' % U(arg),
                  'recv may read past the end of the frame: recv(%s) is not bounded by %s' % (U(arg), remaining))
        # result variable
        ap = rcall._parent
        part = ap.targets[0].id if isinstance(ap, ast.Assign) and isinstance(ap.targets[0], ast.Name) else None
        ctx.need(part is not None, 'unrecognised construct: recv result is not bound to a name')
        from .c19 import recv_accumulation, returns_message
        good_acc, msg, joined, inc_cnt, msgvars = recv_accumulation(bg, brd, rb, loops[0], cnt, part)
        ctx.check(len(inc_cnt) == 1 and len(msgvars) == 1, 'C12.R4', 'KmipSession._receive_bytes|accumulates-exactly-received', bsite,
                  'count += len(chunk) and message += chunk', 'the loop does not add exactly the received chunk to both the count and the message')
        if len(inc_cnt) == 1 and len(msgvars) == 1:
            a, b = inc_cnt[0], msgvars[0]
            same_block = a.stmt._parent is b.stmt._parent
            ctx.check(same_block, 'C12.R4', 'KmipSession._receive_bytes|count-and-message-together', bsite,
                      'count and message are updated in the same block', 'count and message are updated on different paths')
            ctx.check(good_acc or not same_block, 'C12.R4', 'KmipSession._receive_bytes|no-other-accumulator-stores', bsite, 'no other store to the accumulators in the loop; the message starts empty',
                      'the accumulators are also modified elsewhere, or the message does not start empty')
            # returned value is the message, under count == size
            for pn, lab in bg.exit.pred:
                s = pn.stmt
                okret = returns_message(s, msg, joined, brd, pn) if msg else False
                eq = False
                for t, l2 in dominating_edges(bg, pn):
                    q = cmp_parts(t.stmt)
                    if q and {U(q[0]), U(q[2])} == {cnt, size} and ((q[1] == 'NotEq' and l2 == 'F') or (q[1] == 'Eq' and l2 == 'T')):
                        eq = True
                ctx.check(okret and eq, 'C12.R4', 'KmipSession._receive_bytes|returns-complete-message', '%s:%s KmipSession._receive_bytes' % (SESSION, getattr(s, 'lineno', 0)),
                          'returns the accumulated message only when count == requested', 'returns %s without count == requested' % short(s))
        # empty chunk -> ConnectionClosed
        closed = False
        for n in bg.nodes:
            if n.kind == 'stmt' and isinstance(n.stmt, ast.Raise) and w in n.loops:
                exc = n.stmt.exc
                nm = call_name(exc) if isinstance(exc, ast.Call) else dotted(exc)
                if nm and nm.endswith('ConnectionClosed'):
                    for t, l2 in dominating_edges(bg, n):
                        q = cmp_parts(t.stmt)
                        if q and U(q[0]) == 'len(%s)' % part and isinstance(q[2], ast.Constant) and q[2].value == 0 and q[1] == 'Eq' and l2 == 'T':
                            closed = True
                        if isinstance(t.stmt, ast.Name) and t.stmt.id == part and l2 == 'F':
                            closed = True
        ctx.check(closed, 'C12.R4', 'KmipSession._receive_bytes|empty-read-closes', bsite, 'an empty chunk raises ConnectionClosed',
                  'an empty recv() result does not raise ConnectionClosed (the loop would spin or misframe)')
    rr = get_method(sc, '_receive_request')
    rrg = CFG(rr)
    rrd = ReachingDefs(rrg)
    rsite = '%s:%s KmipSession._receive_request' % (SESSION, rr.lineno)
    rcalls = [c for n, c in call_nodes(rrg, 'self._receive_bytes')]
    okh = len(rcalls) == 2 and isinstance(rcalls[0].args[0], ast.Constant) and rcalls[0].args[0].value == 8
    hv = rcalls[0]._parent.targets[0].id if okh and isinstance(rcalls[0]._parent, ast.Assign) else None
    from .c19 import frame_length_var
    oku, szv = frame_length_var(rr, hv)
    ctx.check(okh and oku and szv is not None and isinstance(rcalls[1].args[0], ast.Name) and rcalls[1].args[0].id == szv,
              'C12.R4', 'KmipSession._receive_request|header-and-length', rsite,
              '8-byte header; payload length = big-endian uint32 at bytes 4..8; payload read with that length',
              'frame length is not taken from header bytes 4..8 as a big-endian 32-bit count')
    if okh and len(rcalls) == 2:
        pv_ = rcalls[1]._parent.targets[0].id if isinstance(rcalls[1]._parent, ast.Assign) else None
        rets = [pn.stmt for pn, l in rrg.exit.pred]
        okf = False
        if len(rets) == 1 and isinstance(rets[0], ast.Return) and rets[0].value is not None:
            from ..dataflow import resolve
            fv_, _fn = resolve(rrd, rrg.exit.pred[0][0], rets[0].value)
            if isinstance(fv_, ast.Call) and (call_name(fv_) or '').endswith('BytearrayStream') and fv_.args:
                okf = U(fv_.args[0]) == '%s + %s' % (hv, pv_)
        ctx.check(okf, 'C12.R4', 'KmipSession._receive_request|frame-is-header-plus-payload', rsite, 'frame = header + payload',
                  'the decoded frame is not header + payload')

    # ---------------- R5 size replacement
    size_tests = [n for n in g.nodes if n.kind == 'test' and cmp_parts(n.stmt) and isinstance(cmp_parts(n.stmt)[0], ast.Call)
                  and call_name(cmp_parts(n.stmt)[0]) == 'len' and cmp_parts(n.stmt)[1] in ('Gt', 'GtE')]
    ctx.need(len(size_tests) == 1, 'unrecognised construct: expected one `len(<encoded>) > <max>` test in the message loop, found %d' % len(size_tests))
    stn = size_tests[0]
    q = cmp_parts(stn.stmt)
    enc = q[0].args[0]
    ssite = '%s:%s %s' % (SESSION, stn.stmt.lineno, L)
    enc_ok = isinstance(enc, ast.Name) and any(g.dominates(wn, stn) for wn, wc in resp_writes if wc.args and isinstance(wc.args[0], ast.Name) and wc.args[0].id == enc.id)
    ctx.check(enc_ok and g.all_paths_pass(g.entry, g.exit, [stn]), 'C12.R5', '%s|size-test-after-encode' % L, ssite,
              'every normal path tests the encoded length after encoding', 'the size test does not follow the encode on every path')
    tsucc = edge_successors(stn, 'T')
    rebuilt = [(n, c) for n, c in call_nodes(g, 'self._engine.build_error_response')
               if len(c.args) >= 2 and enum_member(c.args[1]) == ('ResultReason', 'RESPONSE_TOO_LARGE')]
    okrep = False
    if len(rebuilt) == 1 and tsucc:
        bn, bc = rebuilt[0]
        later_writes = [wn for wn, wc in resp_writes if g.dominates(bn, wn)]
        okrep = g.edge_dominates(stn, 'T', bn) and bool(later_writes) and all(g.all_paths_pass(tsucc[0], sn, [bn]) and g.all_paths_pass(bn, sn, later_writes) for sn in send_nodes)
    ctx.check(okrep, 'C12.R5', '%s|too-large-replacement' % L, ssite, 'oversize arm rebuilds with RESPONSE_TOO_LARGE and re-encodes before sending',
              'an oversize response is not replaced by a re-encoded RESPONSE_TOO_LARGE error on every path')
    mx = q[2]
    okmax = False
    if isinstance(mx, ast.Name):
        srcs = set()
        for v in rd.values(stn, mx.id, deep=True):
            if isinstance(v, ast.AST) and is_self_attr(v, '_max_response_size'):
                srcs.add('default')
            elif isinstance(v, tuple) and v[0] == 'unpack' and v[2] == 1 and isinstance(v[1], ast.Call) and call_name(v[1]) == 'self._engine.process_request':
                srcs.add('client')
            elif isinstance(v, ast.Constant) and v.value is None:
                srcs.add('none')
            else:
                srcs.add('other')
        guarded = True
        if 'none' in srcs:
            # "no client value" must not reach the comparison: every copy into the maximum happens under a truthiness / None test of the copied name
            for var, val, dn in rd.reaching(stn, mx.id):
                if isinstance(val, ast.Name) and dn is not None:
                    tests = [t for t, lab in dominating_edges(g, dn)
                             if (isinstance(t.stmt, ast.Name) and t.stmt.id == val.id and lab == 'T')
                             or (is_none_test(t.stmt) and isinstance(is_none_test(t.stmt)[1], ast.Name) and is_none_test(t.stmt)[1].id == val.id)]
                    guarded = guarded and bool(tests)
        okmax = (srcs - {'none'}) == {'default', 'client'} and guarded
    ctx.check(okmax, 'C12.R5', '%s|maximum-size-source' % L, ssite, 'maximum = client value (component 1 of the engine result) when present, else the session default',
              'the maximum size compared is not the client-requested size / session default')

    # the engine side of the same value: what process_request hands back as the client's maximum is taken from THIS request
    from ..engmodel import ENGINE as _ENG
    et_ = src.tree(_ENG)
    ecls_ = get_class(et_, 'KmipEngine')
    from ..inline import flat_methods as _fm
    pr_ = _fm(ecls_)[0].get('process_request')
    ctx.need(pr_ is not None, 'anchor vanished: KmipEngine.process_request')
    pg_ = CFG(pr_)
    prd_ = ReachingDefs(pg_)
    n_ret_ = 0
    for n_ in pg_.nodes:
        if n_.kind == 'stmt' and isinstance(n_.stmt, ast.Return) and isinstance(n_.stmt.value, ast.Tuple) and len(n_.stmt.value.elts) >= 2:
            n_ret_ += 1
            e1 = n_.stmt.value.elts[1]
            vals_ = [e1]
            if isinstance(e1, ast.Name):
                vals_ = [v for v in prd_.values(n_, e1.id, deep=True)]
            bad_ = []
            for v in vals_:
                if isinstance(v, ast.AST):
                    if any(is_self_attr(x) for x in ast.walk(v)):
                        bad_.append(U(v)[:60])
                elif v is not None and not (isinstance(v, tuple)):
                    bad_.append(str(v)[:60])
            ctx.check(not bad_, 'C12.R5', 'KmipEngine.process_request|maximum-size-of-this-request', '%s:%s KmipEngine.process_request' % (_ENG, n_.stmt.lineno),
                      'the maximum response size handed to the session is a local set from this request\'s header (or None)',
                      'the maximum response size handed to the session comes from engine state (%s): a limit asked for by one request stays in force for later requests - of any connection - that did not ask for one, and they are answered Response Too Large' % ', '.join(bad_))
    ctx.need(n_ret_ >= 1, 'unrecognised construct: process_request returns no (response, maximum size, version) tuple')

    # ---------------- R6 decoder loops
    n_loops = 0
    n_skipped = 0
    for rel in src.modules('kmip/core'):
        t = src.tree(rel)
        for qn, fn, cls in all_functions(t):
            if not (fn.name in ('read', 'read_value') or fn.name.startswith('read_') or fn.name.startswith('_read')):
                continue
            has_loop = any(isinstance(x, (ast.While, ast.For)) for x in walk_local(fn))
            if not has_loop:
                continue
            fg = CFG(fn)
            for ln in [n for n in fg.nodes if n.kind == 'loop']:
                s = ln.stmt
                lsite = '%s:%s %s' % (rel, s.lineno, qn)
                decoded_bound = True
                stream = None
                if isinstance(s, ast.For):
                    it = s.iter
                    decoded_bound = False
                    if isinstance(it, ast.Call) and call_name(it) == 'range':
                        bound = it.args[-1] if len(it.args) <= 2 else it.args[1]
                        for x in ast.walk(bound):
                            if isinstance(x, ast.Attribute) and x.attr in ('length', 'value', 'padding_length') or \
                                    (isinstance(x, ast.Name) and x.id not in ('len',) and not (isinstance(bound, ast.Call) and call_name(bound) == 'len')):
                                decoded_bound = True
                        if isinstance(bound, ast.Call) and call_name(bound) == 'len':
                            decoded_bound = False
                    if not decoded_bound:
                        n_skipped += 1
                        continue
                else:
                    tst = s.test
                    if isinstance(tst, ast.Call) and (call_name(tst) or '').split('.')[-1] in ('is_tag_next', 'is_type_next') and len(tst.args) == 2 and isinstance(tst.args[1], ast.Name):
                        stream = tst.args[1].id
                n_loops += 1
                consuming = []
                for n in fg.nodes:
                    if s not in n.loops:
                        continue
                    for c in calls_at(n):
                        f = c.func
                        if isinstance(f, ast.Attribute) and f.attr == 'read' and c.args and isinstance(c.args[0], ast.Name) \
                                and (stream is None or c.args[0].id == stream):
                            consuming.append(n)     # <obj>.read(stream, ...): consumes a TTLV header or raises
                        elif (call_name(c) or '').split('.')[-1] == 'unpack' and len(c.args) == 2 and isinstance(c.args[1], ast.Call) \
                                and isinstance(c.args[1].func, ast.Attribute) and c.args[1].func.attr == 'read':
                            consuming.append(n)     # unpack(fmt, stream.read(k)): raises on a short read
                    for e in __import__('pv.cfg', fromlist=['expr_nodes']).expr_nodes(n):
                        for x in ast.walk(e):
                            if isinstance(x, ast.Subscript) and isinstance(x.slice, ast.Constant) and isinstance(x.value, ast.Call) \
                                    and isinstance(x.value.func, ast.Attribute) and x.value.func.attr == 'read':
                                consuming.append(n)  # stream.read(k)[i]: IndexError on a short read
                starts = edge_successors(ln, 'T') or [m for m, l in ln.succ if l is None]
                spins = False
                for st_ in starts:
                    seen = fg.reachable(st_, consuming + [ln]) if st_ not in consuming else set()
                    for n in fg.nodes:
                        if n.id in seen and any(m is ln for m, l in n.succ):
                            spins = True
                ctx.check(not spins, 'C12.R6', '%s|loop@%s' % (qn, short(s.test if isinstance(s, ast.While) else s.iter, 50)), lsite,
                          'every iteration consumes input from %s' % (stream or 'the stream'),
                          'a decoder loop iteration can complete without consuming input (unbounded work / hang on crafted input)')
    ctx.count('decoder_loops', n_loops, 30)
    ctx.analysed['in_memory_bounded_loops_skipped'] = n_skipped
    # ---------------- R11 a counted repetition is read in full
    ctx.rule('C12.R11', 'where a structure announces how many elements follow (for _ in range(<decoded count>), e.g. the batch count of a message), the reader decodes exactly that many: every iteration reads one element from the stream and nothing leaves the loop early - otherwise a request whose later batch items are missing or damaged decodes "successfully" as a shorter batch and is executed')
    n_counted = 0
    for rel in src.modules('kmip/core'):
        t = src.tree(rel)
        for qn, fn, cls in all_functions(t):
            if fn.name != 'read':
                continue
            fors = [x for x in walk_local(fn) if isinstance(x, ast.For) and isinstance(x.iter, ast.Call) and call_name(x.iter) == 'range' and len(x.iter.args) == 1]
            fors = [x for x in fors if any(isinstance(y, ast.Attribute) and y.attr in ('value', 'batch_count') for y in ast.walk(x.iter.args[0]))
                    and not (isinstance(x.iter.args[0], ast.Attribute) and x.iter.args[0].attr in ('length', 'padding_length'))
                    and not any(isinstance(y, ast.Attribute) and y.attr in ('length', 'padding_length') for y in ast.walk(x.iter.args[0]))]
            if not fors:
                continue
            fg = CFG(fn)
            for lp in fors:
                ln = [n for n in fg.nodes if n.kind == 'loop' and n.stmt is lp]
                if not ln:
                    continue
                ln = ln[0]
                n_counted += 1
                lsite = '%s:%s %s' % (rel, lp.lineno, qn)
                reads = [n for n in fg.nodes if lp in n.loops and any(isinstance(c.func, ast.Attribute) and c.func.attr == 'read' and c.args for c in calls_at(n))]
                early = [n for n in fg.nodes if n.kind == 'stmt' and lp in n.loops and n.loops[-1] is lp and isinstance(n.stmt, (ast.Break, ast.Return))]
                skipping = False
                for st_ in edge_successors(ln, 'T'):
                    seen = fg.reachable(st_, reads + [ln]) if st_ not in reads else set()
                    for n in fg.nodes:
                        if n.id in seen and any(m is ln and l in ('loop', 'continue') for m, l in n.succ):
                            skipping = True
                ctx.check(bool(reads) and not early and not skipping, 'C12.R11', '%s|counted-repetition-read-in-full' % qn, lsite,
                          'each of the %s announced elements is read; the loop is not left early' % U(lp.iter.args[0]),
                          'the reader can accept fewer elements than announced by %s (break/return in the loop, or an iteration that reads nothing): a damaged or truncated batch is decoded as a shorter one' % U(lp.iter.args[0]))
    ctx.count('counted_repetitions', n_counted, 1)          # 2 today (request and response message); 1 when both share the reader of a common base class
    ut = src.tree(UTILS)
    bs = get_class(ut, 'BytearrayStream')
    rdm = get_method(bs, 'read')
    usite = '%s:%s BytearrayStream.read' % (UTILS, rdm.lineno)
    verdict = fold_stream_adt(ctx, bs)
    if verdict is None:
        verdict = (stream_read_by_shape(rdm), 'matched by shape')
        ctx.need(verdict[0], 'unrecognised construct: BytearrayStream can neither be folded over byte windows nor matched')
    ctx.check(verdict[0], 'C12.R6', 'BytearrayStream.read|slice-and-advance', usite, 'read(n) returns the first min(n, available) unread bytes and leaves exactly the rest, in order, for buffer / length / the next read / write (%s)' % verdict[1],
              'BytearrayStream.read does not return the first n bytes and advance by n: %s' % verdict[1])
    check_short_reads(ctx, 'C12.R7')
    # ---------------- R9 what the server decodes and echoes encodes to well-formed TTLV again
    ctx.rule('C12.R9', 'values decoded from a request and echoed into the response (the unique batch item ID above all) encode to well-formed TTLV again: the padding count a decoded TextString/ByteString keeps is in 0..7 for every length (lifted from C01.R3 padding-arithmetic)')
    from ..report import Ctx as _Ctx
    from . import c01 as _c01
    sub = _Ctx('C01', 'quick', ctx.src, 0)
    from ..report import run_lifted as _run_lifted
    _run_lifted(ctx, _c01, sub)
    lifted = [f for f in sub.findings if f.rule == 'C01.R3' and 'padding' in f.key]
    for f in lifted:
        ctx.fail('C12.R9', f.key, f.site, f.message + ' - a request whose batch item ID has such a length is then answered with a response no client can decode')
    if not lifted:
        ctx.ok('C12.R9', 'kmip/core/primitives.py', 'decoded text/byte strings keep a padding count in 0..7')
    _c01.check_text_decoder_units(ctx, 'C12.R12', ' (shared with C01.R10; here: response.write of the message loop sits outside every try, so a text that decodes but cannot be encoded leaves the request unanswered)')
    # ---------------- R10 every failed item can be encoded (shared with C02.R9)
    from .c02 import check_failure_messages_nonempty
    check_failure_messages_nonempty(ctx, 'C12.R10')
    ctx.not_decided += ['that no byte string makes response.write itself fail for reasons other than those of R9/R10 (then no response is sent; run() logs and continues)',
                        'decoder work bounds beyond per-iteration consumption; recursion depth of nested structures']
    ctx.assumptions += ['struct.unpack raises on a short buffer', 'socket.recv(n) returns at most n bytes']


def _ancestors(n):
    p = getattr(n, '_parent', None)
    while p is not None:
        yield p
        p = getattr(p, '_parent', None)
