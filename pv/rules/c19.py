"""C19 - the client reports exactly what the server answered."""
import ast

from ..astutil import (U, dotted, get_class, get_method, get_function, methods, walk_local, is_self_attr, call_name, short,
                       enum_member, params, decorator_names, bind_args)
from ..cfg import CFG, calls_at
from ..dataflow import ReachingDefs
from ..guards import call_nodes, dominating_edges, cmp_parts, edge_successors, handler_catches
from ..polmodel import enum_table
from ..source import AnalysisError

PIE = 'kmip/pie/client.py'
PROXY = 'kmip/services/kmip_client.py'
PROTO = 'kmip/services/kmip_protocol.py'
RESULTS = 'kmip/services/results.py'
CONTENTS = 'kmip/core/messages/contents.py'

EXPLANATION = (
    "CFG dominance + reaching-definition analysis of all @is_connected operations of ProxyKmipClient and of KMIPProxy: after the proxy "
    "call every data return is dominated by the success edge of a test on the result's own status; the failure edge raises "
    "KmipOperationFailure(status, reason, message) taken field-by-field from the same result; KMIPProxy builds each result's "
    "status/reason/message from the same-named batch-item fields and never swallows a decode error; the receive loop is "
    "bounded by the missing byte count, accumulates what was received and raises on a short stream; the KMIPVersion <-> "
    "ProtocolVersion mapping composes to the identity. Request decodability (C19.R5) is the reader/writer schema agreement restricted to request structures.")

STATUS, REASON, MESSAGE = 'result_status', 'result_reason', 'result_message'


def result_field(expr, node, rd, depth=0):
    """Resolve expr to (base variable name, field name) when it reads a field of a result/batch-item object:
    X.<f>.value | X.<f> | X.get('<f>') | X['<f>'] | a local defined once as one of these."""
    if depth > 4:
        return None
    if isinstance(expr, ast.Attribute) and expr.attr == 'value' and isinstance(expr.value, ast.Attribute) and isinstance(expr.value.value, ast.Name):
        return expr.value.value.id, expr.value.attr
    if isinstance(expr, ast.Attribute) and isinstance(expr.value, ast.Name):
        return expr.value.id, expr.attr
    if isinstance(expr, ast.Call) and isinstance(expr.func, ast.Attribute) and expr.func.attr == 'get' and isinstance(expr.func.value, ast.Name) \
            and expr.args and isinstance(expr.args[0], ast.Constant):
        return expr.func.value.id, expr.args[0].value
    if isinstance(expr, ast.Subscript) and isinstance(expr.value, ast.Name) and isinstance(expr.slice, ast.Constant):
        return expr.value.id, expr.slice.value
    if isinstance(expr, ast.Name):
        defs = rd.reaching(node, expr.id)
        if len(defs) == 1 and isinstance(defs[0][1], ast.AST) and defs[0][2] is not None:
            return result_field(defs[0][1], defs[0][2], rd, depth + 1)
    return None


def success_edges(g, rd, target, resvar):
    """Dominating edges of target that establish `<resvar>.result_status == SUCCESS`."""
    out = []
    for t, lab in dominating_edges(g, target):
        p = cmp_parts(t.stmt)
        if not p:
            continue
        for a, b in ((p[0], p[2]), (p[2], p[0])):
            if enum_member(b) == ('ResultStatus', 'SUCCESS'):
                rf = result_field(a, t, rd)
                if rf and rf[0] == resvar and rf[1] == STATUS:
                    if (p[1] in ('Eq', 'Is') and lab == 'T') or (p[1] in ('NotEq', 'IsNot') and lab == 'F'):
                        out.append((t, lab))
    return out


def check_failure_raise(ctx, rule, key, site, g, rd, test, lab, resvar, exc_names):
    other = edge_successors(test, 'F' if lab == 'T' else 'T')
    esc = any(g.exit.id in g.reachable(o) for o in other)
    raises = [n for n in g.nodes if n.kind == 'stmt' and isinstance(n.stmt, ast.Raise) and any(n.id in g.reachable(o) for o in other)]
    ok = (not esc) and bool(raises)
    why = 'failure edge can return normally' if esc else ''
    for r in raises:
        e = r.stmt.exc
        if not (isinstance(e, ast.Call) and (call_name(e) or '').split('.')[-1] in exc_names and len(e.args) == 3 and not e.keywords):
            ok = False
            why = 'raises %s' % short(e)
            continue
        for a, want in zip(e.args, (STATUS, REASON, MESSAGE)):
            rf = result_field(a, r, rd)
            if not (rf and rf[0] == resvar and rf[1] == want):
                ok = False
                why = 'argument %s of the failure is %s, expected %s.%s' % (want, U(a), resvar, want)
    ctx.check(ok, rule, key + '|failure-raises-triple', site, 'failure edge raises %s(status, reason, message) of the same result' % '/'.join(exc_names),
              'the non-success edge does not raise the operation failure with the result\'s own status/reason/message: %s' % why)


def recv_accumulation(g, rd, fn, loop_node, cnt, part):
    """In a receive loop: count += len(chunk) and the chunk is added to the message exactly once, in the same block, and nothing
    else touches the two accumulators.  The message is either grown in place (buf += chunk, buf.extend(chunk) on a bytearray) or the
    chunks are collected in a list that is joined once at the end (b''.join(chunks)).
    -> (ok, message variable, list variable when joined else None, count-increment nodes, message-update nodes)"""
    w = loop_node.stmt
    incs = [n for n in g.nodes if n.kind == 'stmt' and isinstance(n.stmt, ast.AugAssign) and isinstance(n.stmt.op, ast.Add) and isinstance(n.stmt.target, ast.Name) and w in n.loops]
    inc_cnt = [n for n in incs if n.stmt.target.id == cnt and U(n.stmt.value) == 'len(%s)' % part]
    msgv = [n for n in incs if n.stmt.target.id != cnt and isinstance(n.stmt.value, ast.Name) and n.stmt.value.id == part]
    calls = [n for n in g.nodes if n.kind == 'stmt' and w in n.loops and isinstance(n.stmt, ast.Expr) and isinstance(n.stmt.value, ast.Call)
             and isinstance(n.stmt.value.func, ast.Attribute) and isinstance(n.stmt.value.func.value, ast.Name)
             and len(n.stmt.value.args) == 1 and isinstance(n.stmt.value.args[0], ast.Name) and n.stmt.value.args[0].id == part]
    apps = [n for n in calls if n.stmt.value.func.attr == 'append']
    exts = [n for n in calls if n.stmt.value.func.attr == 'extend']
    joined = None
    n_aug = 2
    if not msgv and len(apps) == 1 and not exts:
        msgv, joined, n_aug = apps, apps[0].stmt.value.func.value.id, 1
    elif not msgv and len(exts) == 1 and not apps:
        msgv, n_aug = exts, 1
    good = len(inc_cnt) == 1 and len(msgv) == 1 and len(incs) == n_aug and inc_cnt[0].stmt._parent is msgv[0].stmt._parent
    msg = None
    if good:
        m0 = msgv[0].stmt
        msg = joined or (m0.target.id if isinstance(m0, ast.AugAssign) else m0.value.func.value.id)
        other = [n for n in g.nodes if w in n.loops and n not in (inc_cnt[0], msgv[0]) and any(v in (cnt, msg) for v, d in rd.node_defs[n.id])]
        good = not other
        inits = [val for var, val, dn in rd.reaching(loop_node, msg) if dn is None or w not in dn.loops]       # definitions before the loop
        if joined is not None:
            good = good and bool(inits) and all((isinstance(v, ast.List) and not v.elts) or (isinstance(v, ast.Call) and call_name(v) == 'list' and not v.args) for v in inits)
        elif not isinstance(m0, ast.AugAssign):
            good = good and bool(inits) and all(isinstance(v, ast.Call) and call_name(v) == 'bytearray' and not v.args for v in inits)
        else:
            good = good and bool(inits) and all((isinstance(v, ast.Constant) and v.value == b'') or (isinstance(v, ast.Call) and call_name(v) in ('bytes', 'bytearray') and not v.args) for v in inits)
        if joined is not None or not isinstance(m0, ast.AugAssign):
            uses = [x for x in ast.walk(fn) if isinstance(x, ast.Name) and x.id == msg and isinstance(x.ctx, ast.Load)]
            for x in uses:
                par = getattr(x, '_parent', None)
                ok_use = (isinstance(par, ast.Attribute) and par.attr in ('append', 'extend')) or isinstance(par, ast.Return) \
                    or (isinstance(par, ast.Call) and (isinstance(par.func, ast.Attribute) and par.func.attr == 'join' or call_name(par) in ('bytes', 'len')))
                good = good and ok_use
    return good, msg, joined, inc_cnt, msgv


def returns_message(s, msg, joined, rd=None, node=None):
    """the return statement hands back the accumulated message (the buffer itself, bytes(buffer), or b''.join(chunks)); the value may be bound to a
    local first (message = b''.join(chunks); ...; return message) when rd / node are given"""
    if not isinstance(s, ast.Return):
        return False
    v = s.value
    if rd is not None and node is not None and isinstance(v, ast.Name) and v.id != msg:
        from ..dataflow import resolve as _resolve
        v, _n = _resolve(rd, node, v)
    if joined is not None:
        return isinstance(v, ast.Call) and isinstance(v.func, ast.Attribute) and v.func.attr == 'join' and isinstance(v.func.value, ast.Constant) \
            and v.func.value.value == b'' and len(v.args) == 1 and isinstance(v.args[0], ast.Name) and v.args[0].id == joined
    if isinstance(v, ast.Call) and call_name(v) == 'bytes' and len(v.args) == 1:
        v = v.args[0]
    return isinstance(v, ast.Name) and v.id == msg


def frame_length_var(fn, hv):
    """(ok, name): the frame length is the big-endian unsigned 32-bit number in bytes 4..8 of the header variable hv, bound to `name`:
    unpack('!I', hv[4:8])[0], unpack_from('!I', hv, 4)[0] or int.from_bytes(hv[4:8], 'big')"""
    unp = [c for c in ast.walk(fn) if isinstance(c, ast.Call) and (call_name(c) or '').split('.')[-1] in ('unpack', 'unpack_from', 'from_bytes')]
    oku, szv = False, None

    def const_slice(sl, name):
        if isinstance(sl, ast.Subscript) and isinstance(sl.value, ast.Name) and sl.value.id == name and isinstance(sl.slice, ast.Slice):
            lo = sl.slice.lower.value if isinstance(sl.slice.lower, ast.Constant) else None
            hi = sl.slice.upper.value if isinstance(sl.slice.upper, ast.Constant) else (8 if sl.slice.upper is None else None)
            return lo, hi
        return None, None
    if hv and len(unp) == 1:
        u = unp[0]
        kind = (call_name(u) or '').split('.')[-1]
        up = u._parent
        direct = False
        if kind == 'unpack' and len(u.args) == 2 and isinstance(u.args[0], ast.Constant) and u.args[0].value in ('!I', '>I'):
            oku = const_slice(u.args[1], hv) == (4, 8)
        elif kind == 'unpack_from' and len(u.args) >= 2 and isinstance(u.args[0], ast.Constant) and u.args[0].value in ('!I', '>I') \
                and isinstance(u.args[1], ast.Name) and u.args[1].id == hv:
            off = u.args[2] if len(u.args) > 2 else next((k.value for k in u.keywords if k.arg == 'offset'), None)
            oku = isinstance(off, ast.Constant) and off.value == 4
        elif kind == 'from_bytes' and U(u.func) == 'int.from_bytes' and u.args:
            order = u.args[1] if len(u.args) > 1 else next((k.value for k in u.keywords if k.arg == 'byteorder'), None)
            signed = next((k.value for k in u.keywords if k.arg == 'signed'), None)
            oku = const_slice(u.args[0], hv) == (4, 8) and isinstance(order, ast.Constant) and order.value == 'big' \
                and (signed is None or (isinstance(signed, ast.Constant) and signed.value is False))
            direct = True
        if direct and isinstance(up, ast.Assign) and isinstance(up.targets[0], ast.Name):
            szv = up.targets[0].id
        elif not direct and isinstance(up, ast.Subscript) and isinstance(up.slice, ast.Constant) and up.slice.value == 0 and isinstance(up._parent, ast.Assign) \
                and isinstance(up._parent.targets[0], ast.Name):
            szv = up._parent.targets[0].id
    return oku, szv


def check_recv_loop(ctx, rule, rel, qual, fn, exc_ok):
    """Length-prefixed receive loop: while got < want: chunk = recv(want - got); empty -> leave/raise; got += len(chunk); buf += chunk; got != want -> raise."""
    g = CFG(fn)
    rd = ReachingDefs(g)
    size = params(fn)[0]
    site = '%s:%s %s' % (rel, fn.lineno, qual)
    loops = [n for n in g.nodes if n.kind == 'loop']
    if not (len(loops) == 1 and isinstance(loops[0].stmt, ast.While)):
        raise AnalysisError('unrecognised construct: %s must have exactly one while loop' % qual)
    w = loops[0].stmt
    p = cmp_parts(w.test)
    cnt = None
    if p and isinstance(p[0], ast.Name) and isinstance(p[2], ast.Name):
        if p[1] == 'Lt' and p[2].id == size:
            cnt = p[0].id
        elif p[1] == 'Gt' and p[0].id == size:
            cnt = p[2].id
        elif p[1] == 'NotEq' and size in (p[0].id, p[2].id):
            cnt = p[0].id if p[2].id == size else p[2].id
    ctx.check(cnt is not None, rule, qual + '|loop-condition', site, 'loop runs while %s < %s' % (cnt, size), 'receive loop condition is not `received < requested`: %s' % U(w.test))
    recvs = [(n, c) for n, c in call_nodes(g, '.recv') if w in n.loops]
    ctx.check(len(recvs) == 1, rule, qual + '|single-recv-in-loop', site, 'one recv inside the loop', 'expected exactly one recv call inside the receive loop')
    if cnt is None or len(recvs) != 1:
        return
    rn, rc = recvs[0]
    arg = rc.args[0] if rc.args else None
    remaining = '%s - %s' % (size, cnt)
    bounded = arg is not None and (U(arg) == remaining or (isinstance(arg, ast.Call) and call_name(arg) == 'min' and any(U(a) == remaining for a in arg.args)))
    ctx.check(bounded, rule, qual + '|recv-bounded-by-missing', site, 'recv(%s)' % U(arg), 'recv(%s) is not bounded by %s: a chunk could swallow the next frame' % (U(arg), remaining))
    ap = rc._parent
    part = ap.targets[0].id if isinstance(ap, ast.Assign) and isinstance(ap.targets[0], ast.Name) else None
    if part is None:
        raise AnalysisError('unrecognised construct: recv result is not bound to a name in %s' % qual)
    good, msg, joined, inc_cnt, msgv = recv_accumulation(g, rd, fn, loops[0], cnt, part)
    ctx.check(good, rule, qual + '|accumulates-exactly-received', site, 'count += len(chunk); message += chunk (same block, nothing else)',
              'the loop does not add exactly the received chunk to both the count and the buffer')
    if not good:
        return
    # an empty chunk must not be accumulated forever: it leaves the loop or raises
    empty_ok = False
    for n in g.nodes:
        if w in n.loops and n.kind == 'stmt' and isinstance(n.stmt, (ast.Break, ast.Raise)):
            for t, l2 in dominating_edges(g, n):
                if isinstance(t.stmt, ast.Name) and t.stmt.id == part and l2 == 'F':
                    empty_ok = True
                q = cmp_parts(t.stmt)
                if q and U(q[0]) == 'len(%s)' % part and isinstance(q[2], ast.Constant) and q[2].value == 0 and q[1] == 'Eq' and l2 == 'T':
                    empty_ok = True
    ctx.check(empty_ok, rule, qual + '|empty-read-ends-loop', site, 'an empty chunk ends the loop', 'an empty recv() result neither ends the loop nor raises (busy loop at end of stream)')
    for pn, lab in g.exit.pred:
        s = pn.stmt
        okret = returns_message(s, msg, joined, rd, pn)
        eq = False
        for t, l2 in dominating_edges(g, pn):
            q = cmp_parts(t.stmt)
            if q and {U(q[0]), U(q[2])} == {cnt, size} and ((q[1] == 'NotEq' and l2 == 'F') or (q[1] == 'Eq' and l2 == 'T')):
                eq = True
                other = edge_successors(t, 'T' if l2 == 'F' else 'F')
                rz = [n for n in g.nodes if n.kind == 'stmt' and isinstance(n.stmt, ast.Raise) and any(n.id in g.reachable(o) for o in other)]
                eq = bool(rz) and not any(g.exit.id in g.reachable(o) for o in other)
        ctx.check(okret and eq, rule, qual + '|returns-complete-message', '%s:%s %s' % (rel, getattr(s, 'lineno', 0), qual),
                  'returns the buffer only when count == requested; otherwise raises', 'returns %s without count == requested (short stream not reported)' % short(s))


def fold_build_protocol_version(ctx, xc, bpv, members):
    """({KMIPVersion member: (major, minor)}, stale) by folding _build_protocol_version on a model client: every instance field
    starts with the constant __init__ gives it, kmip_version is set to the member.  `stale` lists (first, second, announced) when,
    after a call under `first`, a call under `second` on the SAME client still yields another version (a cache that does not
    follow kmip_version).  None when the method cannot be folded."""
    from ..fold import Folder, Version, Enum, Opaque, Unfoldable, Raised
    init = get_method(xc, '__init__', optional=True)
    fields = {}
    if init is not None:
        for n in walk_local(init):
            if isinstance(n, ast.Assign) and len(n.targets) == 1 and is_self_attr(n.targets[0]) and isinstance(n.value, ast.Constant):
                fields[n.targets[0].attr] = n.value.value
    from ..inline import flat_methods
    meths = flat_methods(xc)[0]

    def model_self(member):
        d = dict(fields)
        d['kmip_version'] = Enum('KMIPVersion', member)
        d['_kmip_version'] = Enum('KMIPVersion', member)
        d['__attrs__'] = tuple(k for k in d)
        return d

    def call(selfv):
        f = Folder(models={'ProtocolVersion': Version, 'contents.ProtocolVersion': Version}, methods=meths, steps=20000)
        r = f.call_method(bpv, selfv, [], {})
        if not isinstance(r, Version):
            raise Unfoldable('returns %r' % (r,))
        return (r.major, r.minor)
    try:
        build = {}
        for m_ in members:
            build[m_] = call(model_self(m_))
        stale = []
        for m1 in members:
            for m2 in members:
                if m1 == m2:
                    continue
                sv = model_self(m1)
                call(sv)
                # the application changes the version (the public setter stores the member; other fields stay as the first call left them)
                sv['kmip_version'] = Enum('KMIPVersion', m2)
                sv['_kmip_version'] = Enum('KMIPVersion', m2)
                got = call(sv)
                if got != build[m2]:
                    stale.append((m1, m2, 'ProtocolVersion%s' % (got,)))
        return build, stale
    except (Unfoldable, Raised) as ex:
        ctx.note('C19.R4: _build_protocol_version is not foldable (%s); the if-chain reading is used' % ex)
        return None


def check_optional_batch_item_fields(ctx, t):
    """C19.R7: fields of a response batch item that a failure response may omit (operation, response payload, batch item id) are dereferenced
    only after the result status was found to be SUCCESS, or under a None test of that field."""
    CLIENT = 'kmip/services/kmip_client.py'
    OPT = ('operation', 'response_payload', 'unique_batch_item_id')
    ctx.rule('C19.R7', 'in KMIPProxy a response batch item field that failure responses omit (operation, response_payload, unique_batch_item_id) is dereferenced only on the success edge of the status test or under a None test of that field: otherwise a message-level failure (no operation echoed) ends in AttributeError instead of the server\'s status, reason and message')
    cls = get_class(t, 'KMIPProxy')
    n = 0
    from ..inline import flat_methods as _fm
    for name, fn in _fm(cls)[0].items():
        # locals bound to a batch item: X = <...>.batch_items[i] / for X in <...>.batch_items / parameter named batch_item
        items = set(a.arg for a in fn.args.args if a.arg == 'batch_item')
        for x in walk_local(fn):
            if isinstance(x, ast.Assign) and isinstance(x.targets[0], ast.Name) and isinstance(x.value, ast.Subscript) and 'batch_items' in U(x.value.value):
                items.add(x.targets[0].id)
            if isinstance(x, ast.For) and isinstance(x.target, ast.Name) and 'batch_items' in U(x.iter):
                items.add(x.target.id)
        if not items:
            continue
        derefs = [x for x in walk_local(fn) if isinstance(x, ast.Attribute) and isinstance(x.value, ast.Attribute) and x.value.attr in OPT
                  and isinstance(x.value.value, ast.Name) and x.value.value.id in items]
        # the same field held in a local first:  payload = batch_item.response_payload; ... payload.protocol_versions
        aliases = {}
        for x in walk_local(fn):
            if isinstance(x, ast.Assign) and len(x.targets) == 1 and isinstance(x.targets[0], ast.Name) and isinstance(x.value, ast.Attribute) and x.value.attr in OPT \
                    and isinstance(x.value.value, ast.Name) and x.value.value.id in items:
                aliases.setdefault(x.targets[0].id, []).append(x.value)
        stores = {}
        for x in walk_local(fn):
            if isinstance(x, ast.Name) and isinstance(x.ctx, (ast.Store, ast.Del)):
                stores[x.id] = stores.get(x.id, 0) + 1
        aliases = {k: v[0] for k, v in aliases.items() if len(v) == 1 and stores.get(k) == 1}
        alias_derefs = [x for x in walk_local(fn) if isinstance(x, ast.Attribute) and isinstance(x.ctx, ast.Load) and isinstance(x.value, ast.Name) and x.value.id in aliases]
        if not derefs and not alias_derefs:
            continue
        g = CFG(fn)
        from ..dataflow import node_of_expr
        for d in derefs + alias_derefs:
            n += 1
            node = node_of_expr(g, d)
            if d in alias_derefs:
                src_ = aliases[d.value.id]
                item, fld = src_.value.id, src_.attr
                local = d.value.id
            else:
                item, fld = d.value.value.id, d.value.attr
                local = None
            ok = False
            for tt, lab in dominating_edges(g, node):
                if local is not None:
                    q = cmp_parts(tt.stmt)
                    if U(tt.stmt) == local and lab == 'T':
                        ok = True
                    if q and U(q[0]) == local and isinstance(q[2], ast.Constant) and q[2].value is None and ((q[1] in ('IsNot', 'NotEq') and lab == 'T') or (q[1] in ('Is', 'Eq') and lab == 'F')):
                        ok = True
                p = cmp_parts(tt.stmt)
                if p and U(p[0]) in ('%s.result_status.value' % item,) and enum_member(p[2]) == ('ResultStatus', 'SUCCESS') and ((p[1] in ('Eq', 'Is') and lab == 'T') or (p[1] in ('NotEq', 'IsNot') and lab == 'F')):
                    ok = True
                if p and U(p[0]) == '%s.%s' % (item, fld) and isinstance(p[2], ast.Constant) and p[2].value is None and ((p[1] in ('IsNot', 'NotEq') and lab == 'T') or (p[1] in ('Is', 'Eq') and lab == 'F')):
                    ok = True
                if U(tt.stmt) == '%s.%s' % (item, fld) and lab == 'T':
                    ok = True
            ctx.check(ok, 'C19.R7', 'KMIPProxy.%s|%s.%s.%s' % (name, item, fld, d.attr), '%s:%s KMIPProxy.%s' % (CLIENT, d.lineno, name),
                      '%s.%s is dereferenced after the SUCCESS test / under its None test' % (item, fld),
                      '%s.%s.%s is evaluated before the result status is known to be SUCCESS and without a None test: for a failure response without that field the caller gets AttributeError, not the operation-failure error with the server\'s status, reason and message' % (item, fld, d.attr))
    ctx.count('optional_batch_item_field_dereferences', n, 3)



CLIENT_MODULES = ('kmip/services/kmip_client.py', 'kmip/pie/client.py', 'kmip/services/kmip_protocol.py', 'kmip/services/results.py', 'kmip/pie/factory.py', 'kmip/core/factories/secrets.py')


def check_result_constructor_passthrough(ctx):
    """C19.R13: result classes that extend another result class hand their parameters to the parent constructor under the same names."""
    RES = 'kmip/services/results.py'
    ctx.rule('C19.R13', 'in kmip/services/results.py a result class hands its constructor parameters to the constructor of its base class so that each lands in the parameter of the same name: in a positional super().__init__(a, b, ...) call every argument that is a parameter of the caller and also a parameter name of the base constructor sits at the position of that name (keywords likewise name themselves) - otherwise the fields of a response reach the caller under each other\'s names (private / public key identifier exchanged) with status Success and no error')
    t = ctx.src.tree(RES)
    cls = {c.name: c for c in t.body if isinstance(c, ast.ClassDef)}
    n = 0
    for cn, c in sorted(cls.items()):
        init = get_method(c, '__init__', optional=True)
        if init is None:
            continue
        bases = [b.id for b in c.bases if isinstance(b, ast.Name) and b.id in cls]
        if not bases:
            continue
        binit = get_method(cls[bases[0]], '__init__', optional=True)
        if binit is None:
            continue
        bps = [a.arg for a in binit.args.args][1:]
        own = {a.arg for a in init.args.args}
        for call in [x for x in walk_local(init) if isinstance(x, ast.Call) and isinstance(x.func, ast.Attribute) and x.func.attr == '__init__']:
            recv = x_ = call.func.value
            if not (isinstance(recv, ast.Call) and call_name(recv) == 'super') and not (isinstance(recv, ast.Name) and recv.id in cls):
                continue
            args = list(call.args)
            if isinstance(recv, ast.Name) and args:
                args = args[1:]        # Base.__init__(self, ...)
            n += 1
            wrong = []
            for i_, a in enumerate(args):
                if isinstance(a, ast.Starred):
                    break
                if isinstance(a, ast.Name) and a.id in own and a.id in bps and (i_ >= len(bps) or bps[i_] != a.id):
                    wrong.append('%s passed as %s' % (a.id, bps[i_] if i_ < len(bps) else 'an extra argument'))
            for k in call.keywords:
                if k.arg and isinstance(k.value, ast.Name) and k.value.id in own and k.value.id in bps and k.arg != k.value.id:
                    wrong.append('%s passed as %s' % (k.value.id, k.arg))
            ctx.check(not wrong, 'C19.R13', '%s.__init__|%s.__init__ arguments' % (cn, bases[0]), '%s:%s %s.__init__' % (RES, call.lineno, cn),
                      'every parameter handed to %s.__init__ lands in the parameter of the same name' % bases[0],
                      '%s hands its parameters to %s.__init__ under other names: %s - the client would report these response fields exchanged' % (cn, bases[0], '; '.join(wrong)))
    ctx.count('result_constructor_passthrough_calls', n, 10)


def check_no_shared_result_containers(ctx):
    """C19.R12: no function of the client keeps a container between calls through a default argument."""
    ctx.rule('C19.R12', 'what the client reports for one response contains nothing of an earlier one: no function of the client modules has a default argument that is a mutable container built once at definition time (a list / dict / set display, or list() / dict() / set() / bytearray()) and then filled, updated or returned - every call that relies on the default would share one object, so fields of an earlier answer (a server-generated IV, an identifier) would be reported for a later answer that does not carry them')
    n = 0
    for rel in CLIENT_MODULES:
        t = ctx.src.tree(rel)
        for fn in [x for x in ast.walk(t) if isinstance(x, (ast.FunctionDef, ast.AsyncFunctionDef))]:
            args = fn.args
            pos = args.posonlyargs + args.args
            pairs = list(zip(pos[len(pos) - len(args.defaults):], args.defaults)) + [(a, d) for a, d in zip(args.kwonlyargs, args.kw_defaults) if d is not None]
            n += 1
            for a, d in pairs:
                mutable = isinstance(d, (ast.List, ast.Dict, ast.Set, ast.ListComp, ast.DictComp, ast.SetComp)) or (isinstance(d, ast.Call) and call_name(d) in ('list', 'dict', 'set', 'bytearray', 'collections.OrderedDict', 'OrderedDict', 'collections.defaultdict', 'defaultdict'))
                if not mutable:
                    continue
                uses = []
                for x in walk_local(fn):
                    if isinstance(x, (ast.Subscript, ast.Attribute)) and isinstance(x.ctx, (ast.Store, ast.Del)) and isinstance(x.value, ast.Name) and x.value.id == a.arg:
                        uses.append(x)
                    elif isinstance(x, ast.Call) and isinstance(x.func, ast.Attribute) and isinstance(x.func.value, ast.Name) and x.func.value.id == a.arg and x.func.attr in (
                            'append', 'extend', 'insert', 'update', 'add', 'setdefault', 'pop', 'popitem', 'remove', 'discard', 'clear', 'sort'):
                        uses.append(x)
                    elif isinstance(x, ast.Return) and x.value is not None and any(isinstance(y, ast.Name) and y.id == a.arg for y in ast.walk(x.value)):
                        uses.append(x)
                    elif isinstance(x, ast.Assign) and isinstance(x.value, ast.Name) and x.value.id == a.arg:
                        uses.append(x)
                qn = fn.name
                pcls = getattr(fn, '_parent', None)
                if isinstance(pcls, ast.ClassDef):
                    qn = pcls.name + '.' + fn.name
                ctx.check(not uses, 'C19.R12', '%s|default %s=%s is filled or handed out' % (qn, a.arg, U(d)[:20]), '%s:%s %s' % (rel, (uses[0].lineno if uses else fn.lineno), qn),
                          'the mutable default of %s is never modified or handed out' % a.arg,
                          'parameter %s defaults to %s, one object created when the function is defined, and the function fills or returns it (%s): results of different calls share it, so what an earlier response carried shows up in the report of a later one' % (a.arg, U(d)[:30], ' '.join(U(uses[0]).split())[:60] if uses else ''))
    ctx.count('client_functions_scanned', n, 100)

def run(ctx):
    src = ctx.src
    for rid, text in (
        ('C19.R1', 'in every @is_connected operation, each return after the proxy call is dominated by the success edge of a test on the result\'s own status; the other edge raises KmipOperationFailure(status, reason, message) of the same result'),
        ('C19.R2', 'KMIPProxy builds every result with status/reason/message from the same-named fields of the response batch item; no decode error is swallowed'),
        ('C19.R3', 'KMIPProtocol: 8-byte header, length at bytes 4..8, receive loop bounded by the missing count, short stream raises'),
        ('C19.R4', '_build_protocol_version composed with protocol_version_to_kmip_version is the identity on KMIPVersion'),
    ):
        ctx.rule(rid, text)
    pt = src.tree(PIE)
    pc = get_class(pt, 'ProxyKmipClient')
    from ..inline import flat_methods
    ops = [(n, f) for n, f in flat_methods(pc)[0].items() if any(d == 'is_connected' for d, _ in decorator_names(f))]
    ctx.count('client_operations', len(ops), 21)
    n_status = n_srp = 0
    for name, fn in sorted(ops):
        g = CFG(fn)
        rd = ReachingDefs(g)
        pcs = [(n, c) for n in g.nodes for c in calls_at(n) if (call_name(c) or '').startswith('self.proxy.')]
        site0 = '%s:%s ProxyKmipClient.%s' % (PIE, fn.lineno, name)
        ctx.check(len(pcs) >= 1, 'C19.R1', 'ProxyKmipClient.%s|uses-proxy' % name, site0, 'operation goes through the proxy', 'operation does not call the proxy')
        for pn, pcall in pcs:
            site = '%s:%s ProxyKmipClient.%s' % (PIE, pcall.lineno, name)
            ap = pcall._parent
            resvar = ap.targets[0].id if isinstance(ap, ast.Assign) and len(ap.targets) == 1 and isinstance(ap.targets[0], ast.Name) else None
            key = 'ProxyKmipClient.%s' % name
            if call_name(pcall) == 'self.proxy.send_request_payload':
                n_srp += 1
                ctx.ok('C19.R1', site, 'status checked inside KMIPProxy.send_request_payload (see below)')
                continue
            n_status += 1
            if resvar is None:
                ctx.fail('C19.R1', key + '|result-unbound', site, 'the proxy result is not bound to a variable, so its status cannot be checked')
                continue
            rets = [n for n in g.nodes if n.kind == 'stmt' and isinstance(n.stmt, ast.Return) and n.id in g.reachable(pn)]
            falls = any(p for p, l in g.exit.pred if not isinstance(p.stmt, ast.Return) and p.id in g.reachable(pn))
            ok = bool(rets) and not falls
            tests = set()
            for r in rets:
                se = success_edges(g, rd, r, resvar)
                if not se or len(rd.reaching(r, resvar)) != 1:
                    ok = False
                tests |= set(se)
            ctx.check(ok, 'C19.R1', key + '|success-dominates-return', site,
                      '%d return(s) dominated by `%s status == SUCCESS`' % (len(rets), resvar),
                      'a return after the proxy call is not dominated by a success test on the result\'s own status (or the function can fall off)')
            for t, lab in sorted(tests, key=lambda x: x[0].id):
                check_failure_raise(ctx, 'C19.R1', key, site, g, rd, t, lab, resvar, ('KmipOperationFailure',))
    ctx.count('status_checking_operations', n_status, 18)
    ctx.count('send_request_payload_users', n_srp, 3)
    # the decorator runs the function exactly once and returns its value
    deco = get_function(pt, 'is_connected')
    w = [n for n in deco.body if isinstance(n, ast.FunctionDef)]
    fname = deco.args.args[0].arg
    okd = len(w) == 1 and len([c for c in ast.walk(w[0]) if isinstance(c, ast.Call) and isinstance(c.func, ast.Name) and c.func.id == fname]) == 1 \
        and (any(isinstance(s, ast.Return) and isinstance(s.value, ast.Call) and isinstance(s.value.func, ast.Name) and s.value.func.id == fname for s in ast.walk(w[0]))
             or any(isinstance(s, ast.Return) and isinstance(s.value, ast.Name) and any(
                 isinstance(a_, ast.Assign) and isinstance(a_.targets[0], ast.Name) and a_.targets[0].id == s.value.id and isinstance(a_.value, ast.Call) and isinstance(a_.value.func, ast.Name)
                 and a_.value.func.id == fname for a_ in ast.walk(w[0])) and sum(1 for a_ in ast.walk(w[0]) if isinstance(a_, ast.Assign) and isinstance(a_.targets[0], ast.Name) and a_.targets[0].id == s.value.id) == 1
                 for s in ast.walk(w[0])))
    ctx.check(okd, 'C19.R1', 'is_connected|returns-wrapped-result', '%s:%s is_connected' % (PIE, deco.lineno), 'wrapper returns function(self, ...) once',
              'the is_connected wrapper does not return the wrapped function\'s result')

    # ---------------- KMIPProxy
    xt = src.tree(PROXY)
    xc = get_class(xt, 'KMIPProxy')
    from ..inline import flat_methods as _fm2
    xm = _fm2(xc)[0]
    srp = get_method(xc, 'send_request_payload')
    sg = CFG(srp)
    srd = ReachingDefs(sg)
    ssite = '%s:%s KMIPProxy.send_request_payload' % (PROXY, srp.lineno)
    rets = [n for n in sg.nodes if n.kind == 'stmt' and isinstance(n.stmt, ast.Return)]
    ctx.need(rets, 'anchor vanished: send_request_payload returns')
    for r in rets:
        rf = result_field(r.stmt.value, r, srd)
        bi = rf[0] if rf else None
        se = success_edges(sg, srd, r, bi) if bi else []
        prov = False
        if bi:
            dv = srd.values(r, bi)
            prov = len(dv) == 1 and isinstance(dv[0], ast.Subscript) and U(dv[0].value).endswith('.batch_items')
        ctx.check(bool(se) and rf[1] == 'response_payload' and prov, 'C19.R1', 'KMIPProxy.send_request_payload|success-dominates-return', ssite,
                  'payload returned only under batch_item.result_status == SUCCESS', 'send_request_payload returns a payload without a dominating success test on the same batch item')
        for t, lab in se:
            check_failure_raise(ctx, 'C19.R1', 'KMIPProxy.send_request_payload', ssite, sg, srd, t, lab, bi, ('OperationFailure', 'KmipOperationFailure'))
    # nothing pre-empts the failure report: a failed item may lack its operation and payload (the server builds some failures before it has
    # read the item), so any other raise that looks at the item's fields has to sit behind the success edge of the status test
    ctx.rule('C19.R9', 'in KMIPProxy.send_request_payload every raise that depends on a field of the batch item other than its status (operation, payload, ...) is dominated by the success edge of the status test: a failed item - whose operation and payload may be absent - is always reported as OperationFailure with its own status, reason and message, never as a malformed response')
    all_se = []
    for r in rets:
        rf = result_field(r.stmt.value, r, srd)
        if rf:
            all_se += success_edges(sg, srd, r, rf[0])
    bis = set(result_field(r.stmt.value, r, srd)[0] for r in rets if result_field(r.stmt.value, r, srd))
    n_pre = 0
    for rn in [n for n in sg.nodes if n.kind == 'stmt' and isinstance(n.stmt, ast.Raise)]:
        e = rn.stmt.exc
        if isinstance(e, ast.Call) and (call_name(e) or '').split('.')[-1] in ('OperationFailure', 'KmipOperationFailure'):
            continue
        doms = dominating_edges(sg, rn)
        # the tests of the if statements that enclose the raise (an `a or b` test has no single dominating edge)
        encl = []
        x_ = rn.stmt
        while getattr(x_, '_parent', None) is not None and x_._parent is not srp:
            if isinstance(x_._parent, ast.If):
                encl.append(x_._parent.test)
            x_ = x_._parent
        # locals that hold a field of the item other than its status (response_operation = batch_item.operation.value)
        item_locals = set()
        for a_ in [x for x in walk_local(srp) if isinstance(x, ast.Assign) and len(x.targets) == 1 and isinstance(x.targets[0], ast.Name)]:
            if any(isinstance(x, ast.Attribute) and isinstance(x.value, ast.Name) and x.value.id in bis and x.attr != STATUS for x in ast.walk(a_.value)):
                item_locals.add(a_.targets[0].id)
        on_item = [tt for tt in encl if any((isinstance(x, ast.Attribute) and isinstance(x.value, ast.Name) and x.value.id in bis and x.attr != STATUS)
                                            or (isinstance(x, ast.Name) and x.id in item_locals) for x in ast.walk(tt))]
        if not on_item:
            continue
        n_pre += 1
        behind = any((tt, lab) in [(a, b) for a, b in all_se] for tt, lab in doms)
        ctx.check(behind, 'C19.R9', 'KMIPProxy.send_request_payload|raise %s behind the status test' % short(e, 50), '%s:%s KMIPProxy.send_request_payload' % (PROXY, rn.stmt.lineno),
                  'raised only for a successful item', 'this raise looks at %s before the status of the item was tested: a failure response without that field is reported as %s and the server\'s status, reason and message are lost'
                  % (sorted(set(U(tt)[:60] for tt in on_item)), short(e, 40)))
    ctx.count('item_field_raises_in_send_request_payload', n_pre, 1)

    # ---------------- R2 result constructions in KMIPProxy
    rt = src.tree(RESULTS)
    rclasses = {c.name: c for c in rt.body if isinstance(c, ast.ClassDef)}
    n_cons = 0
    for mname, fn in sorted(xm.items()):
        g = None
        for c in [x for x in walk_local(fn) if isinstance(x, ast.Call)]:
            cn = (call_name(c) or '').split('.')[-1]
            if cn in rclasses and cn.endswith('Result'):
                if g is None:
                    g = CFG(fn)
                    rd = ReachingDefs(g)
                n_cons += 1
                site = '%s:%s KMIPProxy.%s' % (PROXY, c.lineno, mname)
                init = get_method(rclasses[cn], '__init__', optional=True) or get_method(rclasses['OperationResult'], '__init__')
                b = bind_args(init, c)
                from ..dataflow import node_of_expr
                node = node_of_expr(g, c)
                bad = []
                bis = set()
                for f in (STATUS, REASON, MESSAGE):
                    a = b.get(f)
                    if a is None:
                        if f == STATUS:
                            bad.append('%s missing' % f)
                        continue
                    rf = result_field(a, node, rd)
                    if not rf or rf[1] != f:
                        bad.append('%s <- %s' % (f, U(a)))
                    else:
                        bis.add(rf[0])
                if len(bis) > 1:
                    bad.append('fields taken from different objects %s' % sorted(bis))
                ctx.check(not bad, 'C19.R2', 'KMIPProxy.%s|%s(status,reason,message)' % (mname, cn), site,
                          '%s takes status/reason/message from %s' % (cn, sorted(bis)), 'result triple is not taken field-by-field from the batch item: %s' % bad)
        # dict-style results
        for s in [x for x in walk_local(fn) if isinstance(x, ast.Assign) and isinstance(x.targets[0], ast.Subscript)
                  and isinstance(x.targets[0].slice, ast.Constant) and x.targets[0].slice.value in (STATUS, REASON, MESSAGE)]:
            if g is None:
                g = CFG(fn)
                rd = ReachingDefs(g)
            from ..dataflow import node_of_expr
            node = node_of_expr(g, s)
            f = s.targets[0].slice.value
            rf = result_field(s.value, node, rd)
            n_cons += 1
            ctx.check(bool(rf) and rf[1] == f, 'C19.R2', 'KMIPProxy.%s|result[%s]' % (mname, f), '%s:%s KMIPProxy.%s' % (PROXY, s.lineno, mname),
                      "result['%s'] <- %s.%s" % (f, rf[0] if rf else '?', f), "result['%s'] is assigned from %s" % (f, U(s.value)))
    ctx.count('result_constructions', n_cons, 30)
    # decode errors are not swallowed
    n_reads = 0
    graphs_x = {}
    decoders = set()          # methods that hand back the ResponseMessage they decoded themselves
    for mname, fn in sorted(xm.items()):
        g = CFG(fn)
        rd = ReachingDefs(g)
        graphs_x[mname] = (g, rd)
        for n, c in call_nodes(g, '.read'):
            if isinstance(c.func.value, ast.Name) and any(isinstance(v, ast.Call) and (call_name(v) or '').endswith('ResponseMessage') for v in rd.values(n, c.func.value.id)):
                rets_ = [x for x in g.nodes if x.kind == 'stmt' and isinstance(x.stmt, ast.Return)]
                if rets_ and all(isinstance(x.stmt.value, ast.Name) and x.stmt.value.id == c.func.value.id for x in rets_):
                    decoders.add(mname)

    def swallowing(n):
        return any(not any(isinstance(x, ast.Raise) for s_ in h.body for x in ast.walk(s_)) for t in n.tries for h in t.handlers)
    for mname, fn in sorted(xm.items()):
        g, rd = graphs_x[mname]
        for n, c in call_nodes(g, '.read'):
            if not (isinstance(c.func.value, ast.Name) and any(isinstance(v, ast.Call) and (call_name(v) or '').endswith('ResponseMessage') for v in rd.values(n, c.func.value.id))):
                continue
            n_reads += 1
            site = '%s:%s KMIPProxy.%s' % (PROXY, c.lineno, mname)
            kv = [k.value for k in c.keywords if k.arg == 'kmip_version'] or c.args[1:2]
            ctx.check(not swallowing(n) and len(kv) == 1 and is_self_attr(kv[0], 'kmip_version'), 'C19.R2', 'KMIPProxy.%s|decode-error-propagates' % mname, site,
                      'response decoded under self.kmip_version; a decode error propagates to the caller',
                      'a response decode error is swallowed (or the response is decoded under a different version)')
        # a response obtained through a decoding helper of the class: the helper's decode error must propagate here too
        for n in g.nodes:
            for c in calls_at(n):
                if is_self_attr(c.func) and c.func.attr in decoders and mname not in decoders:
                    n_reads += 1
                    ctx.check(not swallowing(n), 'C19.R2', 'KMIPProxy.%s|decode-error-propagates' % mname, '%s:%s KMIPProxy.%s' % (PROXY, c.lineno, mname),
                              'response obtained from self.%s (decodes under self.kmip_version); its decode error propagates to the caller' % c.func.attr,
                              'a response decode error raised in self.%s is swallowed here' % c.func.attr)
    ctx.count('response_decode_sites', n_reads, 8)

    # ---------------- R3 framing
    kt = src.tree(PROTO)
    kc = get_class(kt, 'KMIPProtocol')
    check_recv_loop(ctx, 'C19.R3', PROTO, 'KMIPProtocol._recv_all', get_method(kc, '_recv_all'), None)
    rdm = get_method(kc, 'read')
    rsite = '%s:%s KMIPProtocol.read' % (PROTO, rdm.lineno)
    hs = [s.value.value for s in kc.body if isinstance(s, ast.Assign) and isinstance(s.targets[0], ast.Name) and s.targets[0].id == 'HEADER_SIZE' and isinstance(s.value, ast.Constant)]
    rg = CFG(rdm)
    rrd = ReachingDefs(rg)
    rc = [c for n, c in call_nodes(rg, 'self._recv_all')]
    okh = len(rc) == 2 and hs == [8] and (is_self_attr(rc[0].args[0], 'HEADER_SIZE') or (isinstance(rc[0].args[0], ast.Constant) and rc[0].args[0].value == 8))
    hv = rc[0]._parent.targets[0].id if okh and isinstance(rc[0]._parent, ast.Assign) else None
    oku, szv = frame_length_var(rdm, hv)
    ctx.check(okh and oku and szv is not None and isinstance(rc[1].args[0], ast.Name) and rc[1].args[0].id == szv, 'C19.R3', 'KMIPProtocol.read|header-and-length', rsite,
              '8-byte header; length = big-endian uint32 at bytes 4..8', 'frame length is not taken from header bytes 4..8 as a big-endian 32-bit count')
    if okh:
        pv_ = rc[1]._parent.targets[0].id if isinstance(rc[1]._parent, ast.Assign) else None
        okf = False
        for pn, l in rg.exit.pred:
            s = pn.stmt
            if isinstance(s, ast.Return):
                from ..dataflow import resolve
                v0, vn = resolve(rrd, pn, s.value)
                okf = isinstance(v0, ast.Call) and (call_name(v0) or '').endswith('BytearrayStream') and bool(v0.args)
                if okf:
                    a0, _an = resolve(rrd, vn, v0.args[0])
                    okf = U(a0) == '%s + %s' % (hv, pv_)
        ctx.check(okf, 'C19.R3', 'KMIPProtocol.read|frame-is-header-plus-payload', rsite, 'returns stream(header + payload)', 'the returned frame is not header + payload')
        # exceptions of the short read are re-raised (EOFError or the mismatch), never swallowed
        sw = False
        for h in [x for x in ast.walk(rdm) if isinstance(x, ast.ExceptHandler)]:
            hg = [n for n in rg.nodes if n.kind == 'handler' and n.stmt is h][0]
            if any(x.id in rg.reachable(hg) for x in [rg.exit]) and not all(True for _ in []):
                # handler can reach normal exit only if some path has no raise
                body_nodes = [n for n in rg.nodes if h in n.handlers]
                ends = [n for n in body_nodes if any(m not in body_nodes and m is not rg.raise_exit and l != 'exc' for m, l in n.succ)]
                if ends:
                    sw = True
        ctx.check(not sw, 'C19.R3', 'KMIPProtocol.read|short-read-raises', rsite, 'a short header read raises (EOFError / RequestLengthMismatch)', 'a short read is swallowed in KMIPProtocol.read')

    # ---------------- R4 version mapping
    bpv = get_method(xc, '_build_protocol_version')
    kv0 = enum_table(src, 'KMIPVersion')
    folded_build = fold_build_protocol_version(ctx, xc, bpv, sorted(kv0))
    build = {}
    default = None
    if folded_build is not None:
        build, stale = folded_build
        bsite0 = '%s:%s KMIPProxy._build_protocol_version' % (PROXY, bpv.lineno)
        ctx.check(not stale, 'C19.R4', 'KMIPProxy._build_protocol_version|follows-current-version', bsite0,
                  'the version sent is computed from the client\'s current kmip_version on every call (36 ordered pairs of versions folded)',
                  'the version sent does not follow kmip_version: after a request under %s a client switched to %s still announces %s' % (stale[0] if stale else ('', '', '')))
    else:
        bg = CFG(bpv)
        build = {}
        from ..polmodel import fold_version
        default = None
        for pn, lab in bg.exit.pred:
            s = pn.stmt
            if not isinstance(s, ast.Return):
                raise AnalysisError('unrecognised construct: _build_protocol_version falls off')
            from ..dataflow import resolve as _resolve
            v = fold_version(_resolve(ReachingDefs(bg), pn, s.value)[0])
            eqs = []
            for t, l2 in dominating_edges(bg, pn):
                p = cmp_parts(t.stmt)
                m_ = enum_member(p[2], 'KMIPVersion') if p else None
                if p and is_self_attr(p[0], 'kmip_version') and m_ and p[1] == 'Eq' and l2 == 'T':
                    eqs.append(m_[1])
            if len(eqs) == 1:
                build[eqs[0]] = v
            elif not eqs:
                default = v
            else:
                raise AnalysisError('unrecognised construct: guards of %s' % short(s))

    kv = enum_table(src, 'KMIPVersion')
    for member in kv:
        build.setdefault(member, default)
    from .c16 import run as _unused  # noqa (shared mapping extraction below)
    ct = src.tree(CONTENTS)
    conv = get_function(ct, 'protocol_version_to_kmip_version')
    cg = CFG(conv)
    cparam = params(conv, skip_self=False)[0]
    mapping = {}
    for pn, lab in cg.exit.pred:
        s = pn.stmt
        if isinstance(s, ast.Return) and enum_member(s.value, 'KMIPVersion'):
            maj = mnr = None
            for t, l2 in dominating_edges(cg, pn):
                p = cmp_parts(t.stmt)
                if p and p[1] == 'Eq' and l2 == 'T' and isinstance(p[2], ast.Constant) and isinstance(p[0], ast.Attribute) and isinstance(p[0].value, ast.Name) and p[0].value.id == cparam:
                    if p[0].attr == 'major':
                        maj = p[2].value
                    elif p[0].attr == 'minor':
                        mnr = p[2].value
            mapping[(maj, mnr)] = enum_member(s.value, 'KMIPVersion')[1]
    bsite = '%s:%s KMIPProxy._build_protocol_version' % (PROXY, bpv.lineno)
    ctx.count('kmip_versions', len(kv), 6)
    for member in sorted(kv):
        pvv = build.get(member)
        ctx.check(pvv is not None and mapping.get(pvv) == member, 'C19.R4', 'KMIPProxy._build_protocol_version|%s' % member, bsite,
                  '%s -> ProtocolVersion%s -> %s' % (member, pvv, member), 'client version %s is sent as ProtocolVersion%s, which the server reads as %s' % (member, pvv, mapping.get(pvv)))
    # the request header carries that version and the message is encoded under self.kmip_version
    brm = get_method(xc, '_build_request_message')
    hdr = [c for c in ast.walk(brm) if isinstance(c, ast.Call) and (call_name(c) or '').endswith('RequestHeader')]
    g = CFG(brm)
    rd = ReachingDefs(g)
    okh = False
    if len(hdr) == 1:
        from ..dataflow import node_of_expr
        a = [k.value for k in hdr[0].keywords if k.arg == 'protocol_version']
        if a and isinstance(a[0], ast.Name):
            vv = rd.values(node_of_expr(g, hdr[0]), a[0].id)
            okh = len(vv) == 1 and isinstance(vv[0], ast.Call) and call_name(vv[0]) == 'self._build_protocol_version'
        bc = [k.value for k in hdr[0].keywords if k.arg == 'batch_count']
        okb = bool(bc) and isinstance(bc[0], ast.Name) and any(isinstance(v, ast.Call) and U(v.args[0]).startswith('len(') for v in rd.values(node_of_expr(g, hdr[0]), bc[0].id) if isinstance(v, ast.Call))
        okh = okh and okb
    ctx.check(okh, 'C19.R4', 'KMIPProxy._build_request_message|header-version', '%s:%s KMIPProxy._build_request_message' % (PROXY, brm.lineno),
              'request header version = _build_protocol_version(); batch count = len(batch items)', 'the request header does not carry _build_protocol_version() / len(batch_items)')
    sm = get_method(xc, '_send_message')
    wr = [c for c in ast.walk(sm) if isinstance(c, ast.Call) and isinstance(c.func, ast.Attribute) and c.func.attr == 'write' and len(c.args) + len(c.keywords) == 2]
    ctx.check(len(wr) == 1 and is_self_attr((wr[0].args[1:2] or [k.value for k in wr[0].keywords])[0], 'kmip_version'), 'C19.R4', 'KMIPProxy._send_message|encode-version',
              '%s:%s KMIPProxy._send_message' % (PROXY, sm.lineno), 'request encoded under self.kmip_version', 'the request is not encoded under self.kmip_version')

    # ---------------- R5 requests are decodable: reader/writer schema agreement of everything a request consists of
    ctx.rule('C19.R5', 'every request structure the client emits (request message, header, batch item, all request payloads) is accepted by its own reader under every version: element sequence and presence agree (C01.R1/R2 restricted to requests)')
    from ..ttlv import Schema, VERSIONS
    from .c01 import compare_schemas
    sch = Schema(src)
    n_req = 0
    for ref, rf, wf in sch.codec_classes():
        cname = ref[1]
        if not (cname.endswith('RequestPayload') or cname in ('RequestMessage', 'RequestHeader', 'RequestBatchItem', 'Authentication', 'ProtocolVersion')):
            continue
        n_req += 1
        R, W = sch.extract(ref, rf, 'read'), sch.extract(ref, wf, 'write')
        agg = {}
        for v in VERSIONS:
            if R.defined_under(v) != W.defined_under(v):
                agg.setdefault(('version-support', 'reader and writer are defined for different versions', 'class'), []).append(v)
                continue
            if not R.defined_under(v):
                continue
            for kind, desc, nm in compare_schemas(R, W, v):
                if kind in ('written-not-read', 'presence', 'repetition'):
                    agg.setdefault((kind, desc, nm), []).append(v)
        site = '%s:%s %s' % (ref[0], wf.lineno, cname)
        if not agg:
            ctx.ok('C19.R5', site, 'everything %s.write emits is accepted by %s.read under all versions' % (cname, cname))
        for (kind, desc, nm), vs in sorted(agg.items()):
            ctx.fail('C19.R5', '%s|%s %s' % (cname, kind, nm), site, 'a request the client can emit is not decodable by the server: %s [versions %s]' % (desc, ','.join(x[5:] for x in vs)))
    ctx.count('request_structures', n_req, 25)
    # ---------------- R11 responses are decodable by the client: the same agreement for everything a response consists of
    ctx.rule('C19.R11', 'every response structure a server can legally send (response message, header, batch item, all response payloads) is accepted by the reader the client decodes it with, under every version: element sequence and presence agree (C01.R1/R2 restricted to responses) - otherwise the client raises a decoding error for a successful operation, or loses the status, reason and message of a failed one')
    n_resp = 0
    for ref, rf, wf in sch.codec_classes():
        cname = ref[1]
        if not (cname.endswith('ResponsePayload') or cname in ('ResponseMessage', 'ResponseHeader', 'ResponseBatchItem')):
            continue
        n_resp += 1
        R, W = sch.extract(ref, rf, 'read'), sch.extract(ref, wf, 'write')
        agg = {}
        for v in VERSIONS:
            if R.defined_under(v) != W.defined_under(v):
                agg.setdefault(('version-support', 'reader and writer are defined for different versions', 'class'), []).append(v)
                continue
            if not R.defined_under(v):
                continue
            for kind, desc, nm in compare_schemas(R, W, v):
                if kind in ('written-not-read', 'presence', 'repetition', 'order'):
                    agg.setdefault((kind, desc, nm), []).append(v)
        # the reader takes an element only for some VALUES of another field while the writer emits it whatever that value is
        wdepth_ = {e['tag'] or e['ident']: len(e.get('conds') or []) for e in W.events}
        for e in R.events:
            k_ = e['tag'] or e['ident']
            outer_ = [c_ for c_ in (e.get('conds') or [])[:-1] if c_[0] == 'value']
            if outer_ and wdepth_.get(k_, 0) <= 1:
                agg.setdefault(('presence', 'the reader accepts %s only when %s, while the writer emits it whenever it is set' % (k_, ' and '.join(c_[1] for c_ in outer_)), 'read only when ' + '/'.join(c_[1] for c_ in outer_) + ':' + str(k_)), []).append(VERSIONS[-1])
        site = '%s:%s %s' % (ref[0], rf.lineno, cname)
        if not agg:
            ctx.ok('C19.R11', site, 'everything %s.write emits is accepted by %s.read under all versions' % (cname, cname))
        for (kind, desc, nm), vs in sorted(agg.items()):
            ctx.fail('C19.R11', '%s|%s %s' % (cname, kind, nm), site, 'a response a server can send is not decodable by the client: %s [versions %s]' % (desc, ','.join(x[5:] for x in vs)))
    ctx.count('response_structures', n_resp, 25)
    # ---------------- R8 explicitly tagged values the clients build carry the tag the request reader expects for that field
    ctx.rule('C19.R8', 'where a client builds a tagged value for a request field (primitives.X(value, enums.Tags.T), tag=enums.Tags.T, create_attribute_value_by_enum(enums.Tags.T, ...)) and binds it to a local or keyword named like a request payload field, T is the tag under which the request readers decode that field: otherwise the server cannot decode the request')
    field_tags = {}
    for ref, rf, wf in sch.codec_classes():
        if not ref[1].endswith('RequestPayload'):
            continue
        for e in sch.extract(ref, rf, 'read').events:
            if e.get('tag') and not str(e['tag']).startswith('?'):
                field_tags.setdefault(e['ident'], set()).add(e['tag'])
    n_tagged = 0
    for rel in (PIE, PROXY):
        for c in ast.walk(src.tree(rel)):
            if not isinstance(c, ast.Call):
                continue
            cn = call_name(c) or ''
            tag = None
            if cn.split('.')[0] == 'primitives' or cn.endswith('create_attribute_value_by_enum'):
                cands = list(c.args) + [k.value for k in c.keywords if k.arg == 'tag']
                for a in cands:
                    em = enum_member(a, 'Tags')
                    if em:
                        tag = em[1]
            if tag is None:
                continue
            par = getattr(c, '_parent', None)
            names = []
            if isinstance(par, ast.Assign):
                names = [t.id for t in par.targets if isinstance(t, ast.Name)]
            elif isinstance(par, ast.keyword) and par.arg:
                names = [par.arg]
            for nm in names:
                want = field_tags.get(nm)
                if not want:
                    continue
                n_tagged += 1
                ctx.check(tag in want, 'C19.R8', '%s|%s tagged %s' % (rel, nm, tag), '%s:%s' % (rel, c.lineno), '%s is built with tag %s, which the request readers expect' % (nm, tag),
                          'the value bound to %s is built with tag %s, but the request readers decode that field under %s: the server leaves the item unread and refuses the request as invalid' % (nm, tag, sorted(want)))
    ctx.count('tagged_request_values_in_clients', n_tagged, 1)
    # ---------------- C19.R9 (lifted from C05)
    ctx.rule('C19.R9', 'the pie client hands back everything a successful response carried: the converters from wire structures to pie objects use every value they extract on every path (lifted from C05.R11)')
    from ..report import Ctx as _LCtx_C19_R9
    from . import c05 as _lsrc_C19_R9
    _sub_C19_R9 = _LCtx_C19_R9('C05', 'quick', ctx.src, 0)
    from ..report import run_lifted as _run_lifted
    _run_lifted(ctx, _lsrc_C19_R9, _sub_C19_R9)
    _lifted_C19_R9 = [f for f in _sub_C19_R9.findings if f.rule == 'C05.R11']
    for f in _lifted_C19_R9:
        ctx.fail('C19.R9', f.key, f.site, f.message)
    if not _lifted_C19_R9:
        ctx.ok('C19.R9', 'lifted from C05', 'converters drop nothing')
    # ---------------- R10 a response cut short inside a value is refused by the decoder, not returned as data (shared with C12.R7)
    from .c12 import check_short_reads
    check_short_reads(ctx, 'C19.R10', tail=' - the client decodes responses with the same primitives: a response truncated or mis-sized inside such a value is returned to the caller as (shorter) data instead of raising')
    check_no_shared_result_containers(ctx)
    check_result_constructor_passthrough(ctx)
    ctx.not_decided += ['that the data returned on success equals the payload values (field-by-field naming of result objects is only checked for status/reason/message)']
    ctx.assumptions += ['socket.recv(n) returns at most n bytes and b"" at end of stream']
    check_optional_batch_item_fields(ctx, src.tree(PROXY))
