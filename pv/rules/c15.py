"""C15 - attribute operations change only what they may, exactly as asked."""
import ast

from ..astutil import U, dotted, walk_local, is_self_attr, call_name, short, params
from ..cfg import CFG, calls_at
from ..guards import dominating_edges, cmp_parts
from ..engmodel import ENGINE
from ..dataflow import ReachingDefs
from ..engai import EngineAI, UNK
from ..source import AnalysisError

EXPLANATION = (
    "Constant-folded attribute rule table + abstract interpretation of SetAttribute / ModifyAttribute / DeleteAttribute with all helpers "
    "inlined, tracking the set of attribute names possible at each point: (R1) the nine protected attributes are non-modifiable and "
    "non-deletable in the table; (R2) at every mutation of the loaded object every possible attribute name is modifiable (set/modify) or "
    "deletable (delete) by the client, i.e. the policy guards dominate the setters for every path and calling context; (R3) the set of stored "
    "fields the three operations can touch is disjoint from the protected fields and each touched field is the one the getter reports for "
    "that attribute name; only the access-checked object is written; (R5) every value stored derives from the request's attribute value "
    "only. R4 (no mutation before a failure exit) is C08.R3. Positional-index semantics after deletions are value-level and not decided.")

# property C15: attributes that can never be altered through the attribute operations -> pie fields carrying them
T_PROTECTED = {
    'Unique Identifier': ['unique_identifier'], 'Object Type': ['_object_type', 'object_type'], 'State': ['state'],
    'Operation Policy Name': ['operation_policy_name'], 'Cryptographic Usage Mask': ['cryptographic_usage_masks'],
    'Cryptographic Algorithm': ['cryptographic_algorithm'], 'Cryptographic Length': ['cryptographic_length'], 'Initial Date': ['initial_date'],
}
OWNER_FIELDS = ['_owner']
ROOTS = {'_process_set_attribute': 'modifiable_by_client', '_process_modify_attribute': 'modifiable_by_client', '_process_delete_attribute': 'deletable_by_client'}


def getter_fields(m):
    """attribute name -> pie field(s) read by its arm of _get_attribute_from_managed_object (None = arm returns constant None)."""
    fn = m.method('_get_attribute_from_managed_object')
    ps = params(fn)
    # CFG based: the nodes reached under exactly one positive test "<name parameter> == '<Attribute Name>'" form that attribute's arm
    from ..cfg import CFG, expr_nodes
    from ..guards import dominating_edges
    g = CFG(fn)
    arms = {}
    for n in g.nodes:
        if n.kind not in ('stmt', 'test', 'loop', 'with'):
            continue
        pos = []
        for t, lab in dominating_edges(g, n):
            p = cmp_parts(t.stmt)
            if not p:
                continue
            l, op, r = p
            if isinstance(r, ast.Name) and r.id == ps[1]:
                l, r = r, l
            if isinstance(l, ast.Name) and l.id == ps[1] and isinstance(r, ast.Constant) and isinstance(r.value, str) and op in ('Eq', 'NotEq'):
                if (op == 'Eq') == (lab == 'T'):
                    pos.append(r.value)
        if len(pos) == 1:
            arms.setdefault(pos[0], []).append(n)
    if not arms:
        raise AnalysisError('unrecognised construct: _get_attribute_from_managed_object has no attribute arms')
    out = {}
    for name, nodes in arms.items():
        flds = set()
        rets = []
        for n in nodes:
            if n.kind == 'stmt' and isinstance(n.stmt, ast.Return):
                rets.append(n.stmt)
            for e in expr_nodes(n):
                for x in ast.walk(e):
                    if isinstance(x, ast.Attribute) and isinstance(x.value, ast.Name) and x.value.id == ps[0]:
                        flds.add(x.attr)
                    if isinstance(x, ast.Call) and call_name(x) == 'getattr' and len(x.args) >= 2 and isinstance(x.args[0], ast.Name) and x.args[0].id == ps[0] \
                            and isinstance(x.args[1], ast.Constant):
                        flds.add(x.args[1].value)
        const_none = bool(rets) and all(isinstance(r.value, ast.Constant) and r.value.value is None for r in rets)
        out[name] = None if (const_none and not flds) else sorted(flds)
    return out



def check_index_bounds(ctx, m, rule='C15.R9', tail=''):
    """A positional index taken from the request is bounded on both sides before it selects an instance."""
    ctx.rule(rule, 'wherever the engine tests a positional index against the length of a collection (`i < len(xs)`) and then selects with it (xs[i], xs.pop(i), del xs[i]), the index is bounded from below as well (`0 <= i < len(xs)`, or a dominating `i >= 0`): a negative index from the request would otherwise address an instance counted from the end - DeleteAttribute would remove an instance nobody addressed - or make the selection raise IndexError, which is answered with General Failure' + tail)
    n = 0

    def bounds_in(test, it, positive):
        """(upper, lower): does `test` (taken on its true edge when positive, else on its false edge) bound the expression text `it` by a len() from above / by 0 from below"""
        if isinstance(test, ast.UnaryOp) and isinstance(test.op, ast.Not):
            return bounds_in(test.operand, it, not positive)
        if isinstance(test, ast.BoolOp):
            if isinstance(test.op, ast.And) == positive:       # every conjunct holds on the true edge of `and`; every disjunct fails on the false edge of `or`
                rs = [bounds_in(v, it, positive) for v in test.values]
                return any(r[0] for r in rs), any(r[1] for r in rs)
            return False, False
        if not isinstance(test, ast.Compare):
            return False, False
        NEG = {ast.Lt: ast.GtE, ast.LtE: ast.Gt, ast.Gt: ast.LtE, ast.GtE: ast.Lt}
        if not positive and len(test.ops) != 1:
            return False, False
        up = lo = False
        ops_ = [test.left] + list(test.comparators)
        for j, o in enumerate(test.ops):
            x_, y_ = ops_[j], ops_[j + 1]
            ot = type(o) if positive else NEG.get(type(o))
            if ot is None:
                continue
            if ot is ast.Lt and U(x_) == it and isinstance(y_, ast.Call) and call_name(y_) == 'len':
                up = True
            if ot is ast.Gt and U(y_) == it and isinstance(x_, ast.Call) and call_name(x_) == 'len':
                up = True
            if ot in (ast.LtE, ast.Lt) and isinstance(x_, ast.Constant) and isinstance(x_.value, int) and U(y_) == it and (x_.value >= 0 if ot is ast.LtE else x_.value >= -1):
                lo = True
            if ot in (ast.GtE, ast.Gt) and isinstance(y_, ast.Constant) and isinstance(y_.value, int) and U(x_) == it and (y_.value >= 0 if ot is ast.GtE else y_.value >= -1):
                lo = True
        return up, lo
    for name, fn in sorted(m.methods.items()):
        sels = []
        for x in walk_local(fn):
            if isinstance(x, ast.Subscript) and not isinstance(x.slice, ast.Slice) and not isinstance(x.slice, ast.Constant):
                sels.append((x, x.slice))
            elif isinstance(x, ast.Call) and isinstance(x.func, ast.Attribute) and x.func.attr in ('pop', 'insert') and x.args and not isinstance(x.args[0], ast.Constant) and not x.keywords:
                sels.append((x, x.args[0]))
            elif isinstance(x, ast.Call) and is_self_attr(x.func):
                for a_ in x.args:
                    if isinstance(a_, ast.Name):
                        sels.append((x, a_))            # handed to a helper that may select with it
        if not sels:
            continue
        g = CFG(fn)
        from ..dataflow import node_of_expr
        done = set()
        for x, idx in sels:
            it = U(idx)
            nd = node_of_expr(g, x)
            if nd is None:
                continue
            up_test = None
            lower = False
            for tt, lab in dominating_edges(g, nd):
                u_, l_ = bounds_in(tt.stmt, it, lab == 'T')
                if u_ and up_test is None:
                    up_test = tt
                lower = lower or l_
            if up_test is None or (id(up_test), it) in done:
                continue            # not a length-bounded selection
            done.add((id(up_test), it))
            n += 1
            ctx.check(lower, rule, 'KmipEngine.%s|%s bounded below' % (name, it), m.site(up_test.stmt, fn), '%s is tested against 0 and against the length before it selects' % it,
                      'the index %s is only tested against the length (%s) before it selects an instance: a negative index counts from the end (another instance than the one addressed), and one below -len raises IndexError (General Failure)' % (it, U(up_test.stmt)))
    ctx.count('length_bounded_index_selections', n, 3)

def check_setters_refuse_by_type_only(ctx):
    """C15.R10: the property setters of the stored classes refuse a value for its type only."""
    from ..cfg import CFG
    from ..guards import dominating_edges
    PIE_ = 'kmip/pie/objects.py'
    ctx.rule('C15.R10', 'the attribute operations update several fields of a stored row in place, one assignment after the other, and nothing is rolled back when an item fails: so a property setter of kmip/pie/objects.py may refuse a value only for its type (raises sit behind isinstance / None tests, which the decoded request values always pass) or unconditionally - a setter that refuses some VALUES (an empty string, a number out of range) can fail at the second field after the first was written, and the half-applied change is persisted by the next commit although the call reported failure')
    t = ctx.src.tree(PIE_)
    n = 0

    def type_test_only(e):
        if isinstance(e, ast.BoolOp):
            return all(type_test_only(v) for v in e.values)
        if isinstance(e, ast.UnaryOp) and isinstance(e.op, ast.Not):
            return type_test_only(e.operand)
        if isinstance(e, ast.Call) and call_name(e) in ('isinstance', 'issubclass', 'callable'):
            return True
        if isinstance(e, ast.Compare) and len(e.ops) == 1 and isinstance(e.ops[0], (ast.Is, ast.IsNot)) and isinstance(e.comparators[0], ast.Constant) and e.comparators[0].value is None:
            return True
        if isinstance(e, ast.Compare) and len(e.ops) == 1 and isinstance(e.ops[0], (ast.Eq, ast.NotEq, ast.Is, ast.IsNot)) and isinstance(e.left, ast.Call) and call_name(e.left) == 'type':
            return True
        return False
    for c in [x for x in t.body if isinstance(x, ast.ClassDef)]:
        for f in [x for x in c.body if isinstance(x, ast.FunctionDef) and any(isinstance(d, ast.Attribute) and d.attr == 'setter' for d in x.decorator_list)]:
            n += 1
            g = CFG(f)
            for nd in g.nodes:
                if nd.kind == 'stmt' and isinstance(nd.stmt, ast.Raise):
                    tests = [tt.stmt for tt, lab in dominating_edges(g, nd)]
                    bad = [U(x)[:60] for x in tests if not type_test_only(x)]
                    ctx.check(not bad, 'C15.R10', '%s.%s setter|raise under a value test' % (c.name, f.name), '%s:%s %s.%s' % (PIE_, nd.stmt.lineno, c.name, f.name),
                              'the setter refuses by type only', 'the setter of %s.%s raises depending on the VALUE it is given (%s): an in-place update of several fields can fail half way and is not rolled back' % (c.name, f.name, '; '.join(bad)))
    ctx.count('pie_property_setters', n, 10)


def run(ctx):
    src = ctx.src
    ai = EngineAI.shared(src)
    m = ai.m
    pol = ai.pol
    for rid, text in (
        ('C15.R1', 'every protected attribute has modifiable_by_client = False and deletable_by_client = False in the rule table'),
        ('C15.R2', 'at every mutation of the loaded object in Set/Modify/DeleteAttribute all attribute names possible there are client-modifiable (resp. client-deletable)'),
        ('C15.R3', 'the pie fields the three operations can store to exclude the protected fields; each stored field is the one the getter reports for the attribute name; only the access-checked object is written'),
        ('C15.R5', 'every value stored by Set/ModifyAttribute derives from the request attribute value and nothing else'),
    ):
        ctx.rule(rid, text)
    if ai.bounds_hit:
        raise AnalysisError('analysis bound hit: %s' % ai.bounds_hit[:3])
    # ---------------- R1
    ctx.count('rule_table_entries', len(pol.rules), 40)
    for name in sorted(T_PROTECTED):
        r = pol.rules.get(name)
        site = 'kmip/services/server/policy.py:%s AttributePolicy rule %r' % (pol.rule_nodes[name].lineno if name in pol.rule_nodes else 0, name)
        ctx.need(r is not None, 'anchor vanished: rule table entry %r' % name)
        ctx.check(r['modifiable_by_client'] is False and r['deletable_by_client'] is False, 'C15.R1', 'AttributePolicy|%s|client-flags' % name, site,
                  '%s: modifiable_by_client=False, deletable_by_client=False' % name,
                  'protected attribute %s is marked modifiable_by_client=%s / deletable_by_client=%s' % (name, r['modifiable_by_client'], r['deletable_by_client']))
    # the query methods return those flags
    for meth, fld in (('is_attribute_modifiable_by_client', 'modifiable_by_client'), ('is_attribute_deletable_by_client', 'deletable_by_client'), ('is_attribute_multivalued', 'multiple_instances_permitted')):
        ctx.check(pol.query_field.get(meth) == [fld], 'C15.R1', 'AttributePolicy.%s|returns-flag' % meth, 'kmip/services/server/policy.py AttributePolicy.%s' % meth,
                  '%s returns rule.%s' % (meth, fld), '%s does not return the %s flag (reads %s)' % (meth, fld, pol.query_field.get(meth)))
    pf = pol.param_field
    ctx.check(pf.get('modifiable_by_client') == 'modifiable_by_client' and pf.get('deletable_by_client') == 'deletable_by_client' and pf.get('multivalued') == 'multiple_instances_permitted',
              'C15.R1', 'AttributeRuleSet.__init__|flag-plumbing', 'kmip/services/server/policy.py AttributeRuleSet.__init__', 'constructor stores each flag under its own name',
              'AttributeRuleSet stores a flag under a different field: %s' % {k: v for k, v in pf.items() if k in ('modifiable_by_client', 'deletable_by_client', 'multivalued')})

    # ---------------- R2 / R3 / R5 from mutation events
    gf = getter_fields(m)
    ctx.count('getter_arms', len(gf), 10)
    protected_fields = set(f for fs in T_PROTECTED.values() for f in fs) | set(OWNER_FIELDS)
    sites = {}
    for e in ai.events:
        if e['kind'] != 'mutation' or e['ctx'][0] not in ROOTS:
            continue
        if e['origin'] == 'copy':
            continue
        k = (e['ctx'][0], e['fn'], e['line'], e['field'], e['how'])
        s = sites.setdefault(k, {'names': set(), 'origins': set(), 'nonames': False, 'sources': set(), 'values': set()})
        s['origins'].add(e['origin'])
        if e['names'] is None:
            s['nonames'] = True
        else:
            s['names'] |= set(e['names'])
        s['sources'] |= set(map(tuple, e['sources']))
        s['values'].add(e['value'])
    ctx.count('mutation_sites_in_attribute_operations', len(sites), 10)
    for root in ROOTS:
        ctx.need(any(k[0] == root for k in sites), 'unrecognised construct: no mutation found for %s (anchor vanished?)' % root)
    effect = {r: set() for r in ROOTS}
    for (root, fn, line, field, how), s in sorted(sites.items(), key=str):
        site = '%s:%s KmipEngine.%s' % (ENGINE, line, fn)
        key = 'KmipEngine.%s|%s %s|via %s' % (fn, how, field, root)
        flag = ROOTS[root]
        basef = field.split('.')[0]
        effect[root].add(basef)
        # R2
        if s['nonames'] or UNK in s['names']:
            ctx.fail('C15.R2', key + '|unguarded-name', site, 'the loaded object is mutated at a point where the attribute name is unknown / not established by the policy guards')
        else:
            bad = sorted(n for n in s['names'] if not pol.rules[n][flag])
            ctx.check(not bad, 'C15.R2', key + '|guard', site, 'names possible here %s are all %s' % (sorted(s['names']), flag),
                      'the loaded object can be mutated for attribute(s) %s which are not %s: the policy guard does not dominate this setter' % (bad, flag))
        # R3
        ctx.check(s['origins'] == {'loaded'}, 'C15.R3', key + '|target-object', site, 'the object written is the access-checked one', 'a mutation targets an object of origin %s' % sorted(s['origins']))
        if basef == '<dynamic>':
            ctx.fail('C15.R3', key + '|dynamic-field', site, 'setattr with a field name that is not a known constant: any field, including protected ones, could be stored')
        else:
            ctx.check(basef not in protected_fields, 'C15.R3', key + '|protected-field', site, 'field %s is not protected' % basef,
                      'attribute operation %s can store to the protected field %s' % (root[9:], basef))
            for n in sorted(s['names'] - {UNK}):
                want = gf.get(n)
                ctx.check(want is not None and basef in want, 'C15.R3', key + '|field-of-%s' % n, site, 'attribute %s is carried by field %s (getter agrees)' % (n, basef),
                          'for attribute %s the operation writes field %s but GetAttributes reads %s: a different attribute is changed' % (n, basef, want))
        # R5
        if root != '_process_delete_attribute':
            others = sorted(x for x in s['sources'] if x[1] != 'attrval')
            ctx.check(bool(s['sources']) and not others, 'C15.R5', key + '|value-provenance', site, 'stored value %s derives from the request attribute value' % sorted(s['values']),
                      'the stored value %s does not derive solely from the request attribute value (sources %s)' % (sorted(s['values']), sorted(s['sources'])))

    # ---------------- R6 no row sharing: what is linked into an object's collection is freshly built from the request, never a row fetched from the store
    ctx.rule('C15.R6', 'elements added to a managed object\'s multi-valued collections (names, object groups, application specific information) are freshly constructed; '
                       'a row obtained from the store is never linked into another object (in-place modification through one object would change the other)')
    n_add = 0
    shared = {}
    for e in ai.events:
        if e['kind'] != 'mutation' or e['how'] not in ('append', 'extend', 'insert', 'setitem', 'setslice'):
            continue
        n_add += 1
        bad = [x for x in e['sources'] if x[1] in ('other:query',)]
        if bad:
            shared.setdefault((e['ctx'][0], e['fn'], e['line'], e['field']), set()).update(x[0] for x in bad)
    ctx.count('collection_stores', n_add, 5)
    for (root, fn, line, field), names in sorted(shared.items()):
        ctx.fail('C15.R6', 'KmipEngine.%s|shares-stored-row %s|via %s' % (fn, field, root), '%s:%s KmipEngine.%s' % (ENGINE, line, fn),
                 'a value taken from the object store (%s) is linked into field %s of a managed object: two objects then share one row, and changing the attribute on one changes it on the other' % (sorted(names), field))
    if not shared:
        ctx.ok('C15.R6', ENGINE, 'all %d stores/appends use freshly built values' % n_add)
    for root, fields in sorted(effect.items()):
        ctx.note('effect set of %s: %s' % (root, sorted(fields)))
    ctx.analysed['effect_sets'] = {r: sorted(f) for r, f in effect.items()}
    # every setter/deleter helper call in the three handlers was interpreted (no uninterpreted mutator)
    for root in ROOTS:
        fn = m.method(root)
        for c in [c for c in walk_local(fn) if isinstance(c, ast.Call) and is_self_attr(c.func) and c.func.attr in m.methods]:
            if c.func.attr in ai.no_inline and c.func.attr not in ('_get_object_with_access_controls',):
                ctx.fail('C15.R3', 'KmipEngine.%s|uninterpreted-call %s' % (root, c.func.attr), m.site(c, fn), 'call of %s is not interpreted by the effect analysis' % c.func.attr)
    # ---------------- R7 instances of multi-valued attributes keep their position
    ctx.rule('C15.R7', 'a multi-valued attribute whose instances are rows of an id-ordered relationship (order_by=<Row>.id) is modified by storing into the addressed row; the operations never replace a row by a newly built one at an index (the new row gets the highest id, so after the commit the instance moves to the end and every later index shifts)')
    ordered = set()
    pt_ = src.tree('kmip/pie/objects.py')
    for a_ in ast.walk(pt_):
        if isinstance(a_, ast.Assign) and isinstance(a_.value, ast.Call) and (call_name(a_.value) or '').split('.')[-1] == 'relationship' and any(k.arg == 'order_by' for k in a_.value.keywords):
            for tg in a_.targets:
                if isinstance(tg, ast.Name):
                    ordered.add(tg.id)
    ctx.count('id_ordered_relationships', len(ordered), 2)
    repl = {}
    for e in ai.events:
        if e['kind'] == 'mutation' and e['ctx'][0] in ROOTS and e['how'] == 'setitem' and e['field'] in ordered:
            repl.setdefault((e['ctx'][0], e['fn'], e['line'], e['field']), e)
    for (root, fn, line, field), e in sorted(repl.items()):
        ctx.fail('C15.R7', 'KmipEngine.%s|replaces row of %s by index|via %s' % (fn, field, root), '%s:%s KmipEngine.%s' % (ENGINE, line, fn),
                 '%s[<index>] is assigned a new row object: %s is ordered by row id, so the modified instance moves to the end after the commit and the instances after it change their index' % (field, field))
    if not repl:
        ctx.ok('C15.R7', ENGINE, 'no attribute operation replaces a row of %s by index' % sorted(ordered))
    # ---------------- R8 "no value given" is decided by None, not by truthiness, wherever the value can be an empty string
    ctx.rule('C15.R8', 'in _delete_attribute_from_managed_object the choice between delete-by-value, delete-by-index and delete-all-instances tests the value with `is None` / `is not None` wherever the value can be a plain string (an arm that rebinds it to <decoded value>.value of a class that has such a field): an empty string is a value, and treating it as "no value" deletes every instance')
    from ..factmodel import FactoryModel
    fm8 = FactoryModel(src)
    dfn = m.method('_delete_attribute_from_managed_object')
    dg = CFG(dfn)
    drd = ReachingDefs(dg)
    n8 = 0
    for tn in [x for x in dg.nodes if x.kind == 'test' and isinstance(x.stmt, ast.Name)]:
        v8 = tn.stmt.id
        # definitions reaching the truthiness test that are `<v>.value` reads in an arm for attribute name N whose decoded class has a `value` field
        for var, val, dn in drd.reaching(tn, v8):
            if not (isinstance(val, ast.Attribute) and val.attr == 'value' and isinstance(val.value, ast.Name)):
                continue
            names8 = []
            for t_, lab_ in dominating_edges(dg, dn):
                p_ = cmp_parts(t_.stmt)
                if p_ and p_[1] == 'Eq' and lab_ == 'T' and isinstance(p_[2], ast.Constant) and isinstance(p_[2].value, str):
                    names8.append(p_[2].value)
            for nm8 in names8:
                classes8 = fm8.classes_for_name(nm8)
                feasible = bool(classes8) and all('value' in fm8.ix.fields(c8) for c8 in classes8)
                if feasible:
                    n8 += 1
                    ctx.fail('C15.R8', 'KmipEngine._delete_attribute_from_managed_object|truthiness of %s for %s' % (v8, nm8), m.site(tn.stmt, dfn),
                             'for attribute %r the value is rebound to the plain string <value>.value (line %s) and then tested by truthiness: DeleteAttribute with the empty string as current value falls through to "delete all instances"' % (nm8, getattr(val, 'lineno', '?')))
    if n8 == 0:
        ctx.ok('C15.R8', m.site(dfn, dfn), 'no string-valued attribute value is tested by truthiness')
    # ---------------- R4 an unsuccessful attribute operation changes nothing
    ctx.rule('C15.R4', 'in Set/Modify/DeleteAttribute (and the helpers they call) no failure is raised after the loaded object was modified: a call that reports failure leaves the stored object and all others untouched (the batch session is not rolled back, so a dirty instance would be written by the next commit)')
    n_r4 = 0
    bad4 = {}
    for e in ai.events:
        if e['kind'] != 'raise' or e['ctx'][0] not in ROOTS:
            continue
        n_r4 += 1
        dirty = set(e['state']['dirty']) & {'loaded', 'added', 'deleted', 'mixed', 'unknown'}
        if (dirty or e['state']['commits']) and not e['in_handler']:
            bad4.setdefault((e['ctx'][0], e['fn'], e['line'], e['exc']), e)
    ctx.count('raise_events_in_attribute_operations', n_r4, 20)
    for (root, fn, line, exc), e in sorted(bad4.items(), key=str):
        ctx.fail('C15.R4', 'KmipEngine.%s|raise %s after modification|via %s' % (fn, exc, root), '%s:%s KmipEngine.%s' % (ENGINE, line, fn),
                 '%s raises %s after the loaded object was already modified (%s): the call fails but its change is persisted by the next commit in the batch' % (fn, exc, sorted(e['state']['dirty'])))
    if not bad4:
        ctx.ok('C15.R4', ENGINE, 'none of the %d failure exits of the three operations is reached with a modified object' % n_r4)
    check_index_bounds(ctx, m, 'C15.R9')
    check_setters_refuse_by_type_only(ctx)
    ctx.not_decided += ['"exactly the addressed instance" for positional indices after deletions (value-level)', 'that GetAttributes afterwards reflects the change (C05)']
    ctx.assumptions += ['T_PROTECTED transcribes the property statement (owner has no attribute name; its field _owner is included)']
