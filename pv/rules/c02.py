"""C02 - everything emitted is spec-conformant TTLV; responses follow the envelope (structural part)."""
import ast
import struct

from ..astutil import (U, dotted, get_class, get_method, methods, walk_local, is_self_attr, call_name, short, enum_member, params, bind_args)
from ..cfg import CFG, calls_at
from ..dataflow import ReachingDefs, node_of_expr
from ..guards import call_nodes, dominating_edges, cmp_parts, handler_catches
from ..engmodel import EngineModel, ENGINE, SESSION
from ..polmodel import enum_table
from ..ttlv import Schema
from ..source import AnalysisError

PRIM = 'kmip/core/primitives.py'
EXPLANATION = (
    "PARTIAL (structural) decision: (R1) the TTLV constants of the code base - item type codes, fixed lengths, tag/type/length field sizes, "
    "big-endian formats, the type code each primitive class announces, the zero pad word after 4-byte values - are compared with a table "
    "transcribed from the KMIP specification, i.e. an oracle independent of the code, which a reader/writer-symmetric defect cannot fool; (R2) "
    "every fixed-length primitive reader rejects a different encoded length; (R3) in each of the 105 structure writers all children are written "
    "to a local stream, self.length is taken from that stream after the last child write on every path, before the header is written to the "
    "output, which precedes the single copy of the body - so the structure length equals the size of its children; (R4) the response envelope "
    "is built with BatchCount = len of the very list of items, the request's version and a time stamp, reason and message are assigned exactly "
    "on the failure arms; (R5) the session only sends engine-built responses. Byte identity of primitive encodings with an independent "
    "implementation for all values requires execution and is NOT decided.")

# KMIP 1.x section 9.1 (TTLV encoding): item type codes and fixed value lengths
T_TYPES = {'STRUCTURE': 0x01, 'INTEGER': 0x02, 'LONG_INTEGER': 0x03, 'BIG_INTEGER': 0x04, 'ENUMERATION': 0x05, 'BOOLEAN': 0x06,
           'TEXT_STRING': 0x07, 'BYTE_STRING': 0x08, 'DATE_TIME': 0x09, 'INTERVAL': 0x0A}
T_FIXED = {'Integer': ('INTEGER', 4, 'i'), 'LongInteger': ('LONG_INTEGER', 8, 'q'), 'Enumeration': ('ENUMERATION', 4, 'I'), 'Boolean': ('BOOLEAN', 8, 'Q'),
           'DateTime': ('DATE_TIME', 8, 'q'), 'Interval': ('INTERVAL', 4, 'I')}
T_VAR = {'BigInteger': 'BIG_INTEGER', 'TextString': 'TEXT_STRING', 'ByteString': 'BYTE_STRING', 'Struct': 'STRUCTURE'}
T_SIZES = {'TAG_SIZE': 3, 'TYPE_SIZE': 1, 'LENGTH_SIZE': 4}


def check_value_length_accounting(ctx):
    """C02.R6: for TextString / ByteString the length field is len(B) of some expression B; write_value must emit exactly len(B) value bytes."""
    ctx.rule('C02.R6', 'variable-length primitives: the length field is computed as len(B) in the constructor; write_value emits exactly that many value bytes - it iterates over B (or bytearray(B)) and writes one struct-packed single byte per element, or writes B itself once; the padding loop then writes padding_length zero bytes')
    t = ctx.src.tree(PRIM)
    n = 0
    for cname in ('TextString', 'ByteString'):
        cls = get_class(t, cname)
        init = get_method(cls, '__init__')
        wv = get_method(cls, 'write_value')
        site = '%s:%s %s.write_value' % (PRIM, wv.lineno, cname)
        basis = [a.value.args[0] for a in walk_local(init) if isinstance(a, ast.Assign) and U(a.targets[0]) == 'self.length' and isinstance(a.value, ast.Call) and call_name(a.value) == 'len' and a.value.args]
        if len(basis) != 1:
            raise AnalysisError('C02.R6: %s.__init__ does not compute self.length as len(<expr>) exactly once' % cname)
        B = U(basis[0])
        fmt = None
        for a in cls.body:
            if isinstance(a, ast.Assign) and U(a.targets[0]) == 'BYTE_FORMAT' and isinstance(a.value, ast.Constant):
                fmt = a.value.value
        folded = fold_write_value(ctx, cls, cname, wv, B, fmt)
        if folded is not None:
            n += 1
            okv, okp, why = folded
            ctx.check(okv, 'C02.R6', '%s.write_value|value-bytes-equal-length' % cname, site, 'length = len(%s); the writer emits exactly that many value bytes for every length 0..40 (folded)' % B,
                      'the length field is len(%s) but the writer %s: length, padding and the enclosing structure lengths no longer describe the bytes written' % (B, why))
            ctx.check(okp, 'C02.R6', '%s.write_value|padding-bytes' % cname, site, 'padding_length zero bytes follow the value', 'the value is not followed by exactly padding_length zero bytes')
            continue
        loops = [x for x in wv.body if isinstance(x, ast.For)]
        direct = [c for c in walk_local(wv) if isinstance(c, ast.Call) and isinstance(c.func, ast.Attribute) and c.func.attr == 'write' and c.args and U(c.args[0]) == B
                  and not any(isinstance(p, ast.For) for p in _parents(c))]
        verdict = None
        why = ''
        if direct and len(direct) == 1:
            verdict, why = True, 'writes %s itself once' % B
        else:
            # value loop: iterates over B, a local copy of B, or bytearray(B)
            aliases = {B}
            for a in walk_local(wv):
                if isinstance(a, ast.Assign) and isinstance(a.targets[0], ast.Name) and (U(a.value) == B or (isinstance(a.value, ast.Call) and call_name(a.value) in ('bytearray', 'bytes', 'list') and len(a.value.args) == 1 and U(a.value.args[0]) == B)):
                    aliases.add(a.targets[0].id)
            vloops = [l for l in loops if U(l.iter) in aliases or (isinstance(l.iter, ast.Call) and call_name(l.iter) in ('bytearray', 'bytes') and l.iter.args and U(l.iter.args[0]) == B)]
            if len(vloops) == 1 and isinstance(vloops[0].target, ast.Name):
                lp = vloops[0]
                writes = [c for st in lp.body for c in ast.walk(st) if isinstance(c, ast.Call) and isinstance(c.func, ast.Attribute) and c.func.attr == 'write']
                if len(writes) == 1 and len(lp.body) == 1 and writes[0].args:
                    w = writes[0].args[0]
                    if isinstance(w, ast.Call) and (call_name(w) or '').split('.')[-1] == 'pack' and w.args:
                        f = w.args[0]
                        fv = f.value if isinstance(f, ast.Constant) else (fmt if U(f) in ('self.BYTE_FORMAT', '%s.BYTE_FORMAT' % cname) else None)
                        if fv in ('!c', '!B', '!b', 'c', 'B', 'b', '>c', '>B'):
                            verdict, why = True, 'one byte (%s) per element of %s' % (fv, B)
                        elif fv is not None:
                            verdict, why = False, 'packs %s per element of %s: not one byte per counted element' % (fv, B)
                    elif any(isinstance(x, ast.Name) and x.id == lp.target.id for x in ast.walk(w)):
                        verdict, why = False, 'writes %s per element of %s without a single-byte pack: an element can contribute several bytes (e.g. a non-ASCII character), while the length field and the padding count elements' % (U(w), B)
        n += 1
        if verdict is None:
            raise AnalysisError('C02.R6: unrecognised value-writing shape in %s.write_value' % cname)
        ctx.check(verdict, 'C02.R6', '%s.write_value|value-bytes-equal-length' % cname, site, 'length = len(%s); writer %s' % (B, why),
                  'the length field is len(%s) but the writer %s: length, padding and the enclosing structure lengths no longer describe the bytes written' % (B, why))
        pad = [l for l in loops if isinstance(l.iter, ast.Call) and call_name(l.iter) == 'range' and l.iter.args and U(l.iter.args[0]) == 'self.padding_length']
        okp = False
        if len(pad) == 1 and len(pad[0].body) == 1 and isinstance(pad[0].body[0], ast.Expr) and isinstance(pad[0].body[0].value, ast.Call):
            wc = pad[0].body[0].value
            if isinstance(wc.func, ast.Attribute) and wc.func.attr == 'write' and wc.args and isinstance(wc.args[0], ast.Call) and (call_name(wc.args[0]) or '').split('.')[-1] == 'pack':
                pa = wc.args[0].args
                okp = len(pa) == 2 and isinstance(pa[0], ast.Constant) and pa[0].value in ('!B', 'B', '!b', 'b', '>B') and isinstance(pa[1], ast.Constant) and pa[1].value == 0
        ctx.check(okp, 'C02.R6', '%s.write_value|padding-bytes' % cname, site, 'padding_length zero bytes follow the value', 'the padding loop does not write padding_length zero bytes')
    ctx.count('variable_length_primitives', n, 2)


def fold_write_value(ctx, cls, cname, wv, basis, fmt):
    """(value-bytes ok, padding ok, why) by folding write_value over a length abstraction for every value length 0..40; None when
    the method uses something the folder does not model (the spelling-based rule decides then)."""
    from ..fold import Folder, AbsStr, AbsBytes, AbsNum, Opaque, Unfoldable, Raised, length_models
    ps = params(wv)
    if not ps or basis != 'self.value':
        return None
    okv, okp, why = True, True, ''
    try:
        for n_ in range(0, 41):
            for pad in sorted({(8 - n_ % 8) % 8, 3}):      # the count the constructor computes, and an arbitrary one
                written = []
                f = Folder(models=dict(length_models()), steps=100000)
                val = AbsStr(n_) if cname == 'TextString' else AbsBytes(n_)
                selfv = {'__attrs__': ('value', 'length', 'padding_length', 'BYTE_FORMAT', 'PADDING_SIZE'), 'value': val, 'length': n_, 'padding_length': pad,
                         'BYTE_FORMAT': fmt, 'PADDING_SIZE': 8}
                env = {'self': selfv, ps[0]: {'__attrs__': ()}}
                for p_ in ps[1:]:
                    env[p_] = Opaque('argument')
                f.models['%s.write' % ps[0]] = lambda x, w_=written: w_.append(x)
                f.models['%s.extend' % ps[0]] = lambda x, w_=written: w_.append(x)
                body = [x for x in wv.body if not (isinstance(x, ast.Expr) and isinstance(x.value, ast.Constant))]
                f.run(body, env)
                # the stream of pieces: abstract (value) bytes first, then concrete zero bytes
                total_val = 0
                zeros = 0
                inexact = False
                seen_pad = False
                for x in written:
                    if isinstance(x, (bytes, bytearray)):
                        if set(bytes(x)) - {0}:
                            okp, why = False, 'emits non-zero constant bytes'
                        zeros += len(x)
                        seen_pad = seen_pad or len(x) > 0
                    elif isinstance(x, AbsStr) and x.kind == 'bytes':
                        if seen_pad and len(x):
                            okp, why = False, 'writes value bytes after padding bytes'
                        total_val += len(x)
                        inexact = inexact or not x.exact
                    else:
                        raise Unfoldable('writes %r' % (x,))
                if inexact:
                    okv, why = False, 'writes the encoding of each element without a single-byte pack: an element can contribute several bytes (e.g. a non-ASCII character), while the length field and the padding count elements'
                elif total_val != n_:
                    okv, why = False, 'emits %d value bytes for a value of length %d' % (total_val, n_)
                if zeros != pad:
                    okp = False
    except Raised as ex:
        return None
    except Unfoldable as ex:
        ctx.note('C02.R6: %s.write_value is not foldable (%s); spelling-based rule used' % (cname, ex))
        return None
    return okv, okp, why


def _parents(n):
    p = getattr(n, '_parent', None)
    while p is not None:
        yield p
        p = getattr(p, '_parent', None)


# reviewed sites at which a KMIP error text is the text of a foreign exception: (function, calls in the try body) -> why the text is never empty
T_FOREIGN_TEXT = {
    ('CryptographyEngine.wrap_key', 'keywrap.aes_key_wrap'): 'cryptography.hazmat.primitives.keywrap.aes_key_wrap raises ValueError with literal, non-empty messages only',
    ('CryptographyEngine.wrap_key', 'keywrap.aes_key_wrap_with_padding'): 'cryptography.hazmat.primitives.keywrap.aes_key_wrap_with_padding raises ValueError with a literal, non-empty message only',
}


def check_failure_messages_nonempty(ctx, rule='C02.R9'):
    """A failed item needs a Result Message; _process_batch wraps the message only when it is truthy, so no KMIP error text may be empty."""
    from ..astutil import all_functions
    ctx.rule(rule, 'every KMIP error raised in the engine or the crypto engine carries a text that cannot be empty - a literal (possibly formatted) - or, where the text is taken from a caught foreign exception (str(e)), the site is in the reviewed table: _process_batch wraps reason and message only when they are truthy, so an empty text would leave a failed item without a well-formed Result Message (cryptography raises InvalidTag / InvalidSignature with empty text)')
    n = 0
    for rel in ('kmip/services/server/engine.py', 'kmip/services/server/crypto/engine.py'):
        t = ctx.src.tree(rel)
        for qn, fn, cls in all_functions(t):
            for tr in [x for x in walk_local(fn) if isinstance(x, ast.Try)]:
                for h in tr.handlers:
                    if not h.name:
                        continue
                    for r in [x for st in h.body for x in ast.walk(st) if isinstance(x, ast.Raise) and isinstance(x.exc, ast.Call) and (call_name(x.exc) or '').startswith('exceptions.')]:
                        args = list(r.exc.args) + [k.value for k in r.exc.keywords]
                        derived = [a for a in args if any(isinstance(y, ast.Name) and y.id == h.name for y in ast.walk(a))]
                        if not derived:
                            continue
                        # a literal prefix/suffix makes the text non-empty: "...{}".format(e), "..." + str(e), "...%s" % e
                        lit = any(isinstance(y, ast.Constant) and isinstance(y.value, str) and y.value.strip() for a in derived for y in ast.walk(a))
                        n += 1
                        callees = set(call_name(c) for st in tr.body for c in ast.walk(st) if isinstance(c, ast.Call) and call_name(c) and '.' in call_name(c) and not call_name(c).startswith('self.logger'))
                        # a callee looked up in an instance table of the class (f = self._table.get(K); f(...)): every entry of the table
                        if cls is not None:
                            from ..astutil import table_callees
                            for st in tr.body:
                                for c in ast.walk(st):
                                    if isinstance(c, ast.Call) and isinstance(c.func, ast.Name):
                                        ents = table_callees(cls, fn, c)
                                        for k_, v_ in ents or ():
                                            callees.add(dotted(v_) or U(v_))
                        callees = tuple(sorted(callees))
                        site = '%s:%s %s' % (rel, r.lineno, qn)
                        if lit:
                            ctx.ok(rule, site, 'foreign exception text embedded in a literal')
                        else:
                            whys = [T_FOREIGN_TEXT.get((qn, c_)) for c_ in callees]
                            why = '; '.join(whys) if callees and all(whys) else None
                            ctx.check(why is not None, rule, '%s|message = text of the caught %s' % (qn, dotted(h.type) or 'exception'), site, 'reviewed: %s' % why,
                                      'the error text is exactly the text of the caught exception (calls in the try body: %s), which is not in the reviewed table; exceptions such as cryptography.exceptions.InvalidTag have an empty text, and a failed item with an empty message is emitted without a Result Message structure (its encoding fails)' % list(callees))
    ctx.count('foreign_exception_text_sites', n, 1)



def check_no_value_store_on_sized_primitives(ctx):
    """C02.R10: the length of a text / byte string / big integer item is fixed when the object is built."""
    from ..ttlv import Schema
    from ..astutil import all_functions
    ctx.rule('C02.R10', 'server, client and pie code never assigns .value on a variable-length primitive that already exists (TextString, ByteString, BigInteger and their subclasses, reached as a field of a wire structure: key_block.key_value.key_material.value = ...): the length and padding count of such an item are computed once in its constructor, so a later store leaves them describing the old value and the item - and every structure around it - is encoded with a length field that does not match the bytes that follow; a new value needs a new object')
    sch = Schema(ctx.src)
    sized = set()
    field_classes = {}
    for ref, rfn, wfn in sch.codec_classes():
        R = sch.extract(ref, rfn, 'read')
        for e in R.events:
            if e.get('cls') is not None:
                field_classes.setdefault(e['ident'], set()).add(e['cls'])

    def is_sized(ref, depth=0):
        if ref is None or depth > 6:
            return False
        if ref[1] in ('TextString', 'ByteString', 'BigInteger') and ref[0].endswith('primitives.py'):
            return True
        return any(is_sized(b, depth + 1) for b in sch.ix.bases(ref))
    n = 0
    n_files = 0
    for rel in ctx.src.modules('kmip/services') + ctx.src.modules('kmip/pie'):
        t = ctx.src.tree(rel)
        n_files += 1
        for q, fn, cls in all_functions(t):
            for x in walk_local(fn):
                if not (isinstance(x, ast.Attribute) and x.attr == 'value' and isinstance(x.ctx, ast.Store) and isinstance(x.value, ast.Attribute)):
                    continue
                fld = x.value.attr.lstrip('_')
                classes = field_classes.get(fld, set())
                if not classes:
                    continue
                n += 1
                bad = sorted(c[1] for c in classes if is_sized(c))
                ctx.check(not bad, 'C02.R10', '%s|store %s' % (q, U(x)), '%s:%s %s' % (rel, x.lineno, q), '%s is not a sized primitive' % fld,
                          '%s = ... replaces the value of an existing %s: its length (and padding count) were computed when it was built and now describe the old value, so the item is encoded with a wrong length field' % (U(x), '/'.join(bad)))
    ctx.count('modules_scanned_for_value_stores', n_files, 10)
    if not n:
        ctx.ok('C02.R10', 'kmip/services, kmip/pie', 'no store to .value of a wire structure field')

def run(ctx):
    src = ctx.src
    for rid, text in (
        ('C02.R1', 'type codes, fixed lengths, header field sizes, byte order, announced type per primitive class and the zero pad word agree with the KMIP TTLV table'),
        ('C02.R2', 'informational (not required by the property): fixed-length primitive readers that compare the decoded length with LENGTH are recorded; a missing comparison is noted, not reported'),
        ('C02.R3', 'every structure writer: children -> local stream; self.length = local.length() after the last child write on all paths; then super().write(out); then exactly one out.write(local.buffer); nothing else is written to out'),
        ('C02.R4', 'response envelope: BatchCount(len(items)) of the items passed, header version = parameter, a time stamp; reason/message non-None exactly on failure arms, SUCCESS only on the fall-through of the try; build_error_response sets status, reason and message'),
        ('C02.R5', 'every response the session encodes and sends is built by the engine (process_request or build_error_response)'),
    ):
        ctx.rule(rid, text)
    # ---------------- R1
    types = enum_table(src, 'Types')
    tsite = 'kmip/core/enums.py Types'
    for k, v in sorted(T_TYPES.items()):
        ctx.check(types.get(k) == v, 'C02.R1', 'enums.Types|%s' % k, tsite, 'Types.%s = 0x%02X' % (k, v), 'Types.%s is %s; the TTLV specification says 0x%02X' % (k, types.get(k), v))
    pt = src.tree(PRIM)
    base = get_class(pt, 'Base')
    consts = {s.targets[0].id: s.value.value for s in base.body if isinstance(s, ast.Assign) and isinstance(s.targets[0], ast.Name) and isinstance(s.value, ast.Constant)}
    for k, v in sorted(T_SIZES.items()):
        ctx.check(consts.get(k) == v, 'C02.R1', 'Base|%s' % k, '%s Base' % PRIM, 'Base.%s = %d' % (k, v), 'Base.%s is %s; the TTLV header uses %d bytes' % (k, consts.get(k), v))
    bm = methods(base)
    hdr = {'write_tag': ('!I', True), 'write_type': ('!B', False), 'write_length': ('!I', False)}
    for mname, (fmt, sliced) in hdr.items():
        fn = bm.get(mname)
        ctx.need(fn is not None, 'anchor vanished: Base.%s' % mname)
        packs = [c for c in walk_local(fn) if isinstance(c, ast.Call) and (call_name(c) or '').split('.')[-1] == 'pack']
        ok = len(packs) == 1 and isinstance(packs[0].args[0], ast.Constant) and packs[0].args[0].value == fmt
        if ok and sliced:
            par = packs[0]._parent
            ok = isinstance(par, ast.Subscript) and isinstance(par.slice, ast.Slice) and U(par.slice.lower) == '1' and par.slice.upper is None
        elif ok:
            ok = not isinstance(packs[0]._parent, ast.Subscript)
        ctx.check(ok, 'C02.R1', 'Base.%s|format' % mname, '%s:%s Base.%s' % (PRIM, fn.lineno, mname), '%s packs %s%s' % (mname, fmt, '[1:] (3 bytes)' if sliced else ''),
                  'the %s is not encoded as big-endian %s%s' % (mname[6:], fmt, ' truncated to 3 bytes' if sliced else ''))
    order = [c.func.attr for c in walk_local(bm['write']) if isinstance(c, ast.Call) and is_self_attr(c.func)]
    order_lines = sorted((c.lineno, c.func.attr) for c in walk_local(bm['write']) if isinstance(c, ast.Call) and is_self_attr(c.func))
    ctx.check([a for _, a in order_lines] == ['write_tag', 'write_type', 'write_length'], 'C02.R1', 'Base.write|tag-type-length-order', '%s Base.write' % PRIM, 'header = tag, type, length',
              'Base.write does not emit tag, type, length in this order: %s' % [a for _, a in order_lines])
    prims = {c.name: c for c in pt.body if isinstance(c, ast.ClassDef)}
    for cname, (tname, length, code) in sorted(T_FIXED.items()):
        c = prims.get(cname)
        ctx.need(c is not None, 'anchor vanished: primitive %s' % cname)
        site = '%s:%s %s' % (PRIM, c.lineno, cname)
        L = [s.value.value for s in c.body if isinstance(s, ast.Assign) and isinstance(s.targets[0], ast.Name) and s.targets[0].id == 'LENGTH' and isinstance(s.value, ast.Constant)]
        if cname == 'DateTime':
            L = L or [8]
        ctx.check(L == [length], 'C02.R1', '%s|LENGTH' % cname, site, 'LENGTH = %d' % length, '%s.LENGTH is %s; the specification mandates %d' % (cname, L, length))
        ms = methods(c)
        announced = set()
        for fn in ms.values():
            for n in walk_local(fn):
                em = enum_member(n, 'Types') if isinstance(n, ast.Attribute) else None
                if em:
                    announced.add(em[1])
        ctx.check(announced == {tname}, 'C02.R1', '%s|announced-type' % cname, site, 'announces Types.%s' % tname, '%s announces item type %s; expected %s' % (cname, sorted(announced), tname))
        fmts = set()
        for fn in ms.values():
            for n in walk_local(fn):
                if isinstance(n, ast.Call) and (call_name(n) or '').split('.')[-1] in ('pack', 'unpack') and n.args and isinstance(n.args[0], ast.Constant):
                    fmts.add(n.args[0].value)
                if isinstance(n, ast.Assign) and is_self_attr(n.targets[0], 'pack_string') and isinstance(n.value, ast.Constant):
                    fmts.add(n.value.value)
        if cname == 'DateTime':
            continue
        ctx.check(all(f.startswith('!') or f.startswith('>') for f in fmts) and ('!' + code) in fmts, 'C02.R1', '%s|big-endian-%s' % (cname, code), site, 'uses %s' % sorted(fmts),
                  '%s does not encode its value as big-endian %r (formats %s)' % (cname, code, sorted(fmts)))
        if length == 4:
            # value word + zero pad word on write; pad read and checked on read
            wfn = ms.get('write_value') or ms.get('write')
            packs = [n for n in walk_local(wfn) if isinstance(n, ast.Call) and (call_name(n) or '').split('.')[-1] == 'pack']
            zero = [p for p in packs if len(p.args) == 2 and isinstance(p.args[1], ast.Constant) and p.args[1].value == 0]
            vals = [p for p in packs if p not in zero]
            def widths(f):
                # the sizes the format can have: a literal, or an instance field assigned literals only
                import struct as _st
                lits = [f.value] if isinstance(f, ast.Constant) else None
                if lits is None and is_self_attr(f):
                    asg = [n.value for fn_ in ms.values() for n in walk_local(fn_) if isinstance(n, ast.Assign) and is_self_attr(n.targets[0], f.attr)]
                    lits = [a.value for a in asg] if asg and all(isinstance(a, ast.Constant) for a in asg) else None
                try:
                    return {_st.calcsize(x) for x in lits} if lits and all(isinstance(x, str) for x in lits) else None
                except _st.error:
                    return None
            okp = len(zero) == 1 and len(vals) == 1 and widths(zero[0].args[0]) == {4} and widths(vals[0].args[0]) == {4} \
                and (zero[0].lineno, zero[0].col_offset) > (vals[0].lineno, vals[0].col_offset)
            ctx.check(okp, 'C02.R1', '%s|pad-word-written' % cname, site, 'value word followed by a zero word of the same width', '%s does not write a zero pad word of the same width after its 4-byte value' % cname)
            rfn = ms.get('read_value') or ms.get('read')
            unp = [n for n in walk_local(rfn) if isinstance(n, ast.Call) and (call_name(n) or '').split('.')[-1] == 'unpack']
            # the pad word: the local bound to the result of the last unpack of the reader, compared with 0 in a test
            from_unpack = sorted(((a.lineno, a.targets[0].id) for a in walk_local(rfn) if isinstance(a, ast.Assign) and isinstance(a.targets[0], ast.Name)
                                  and any(isinstance(c, ast.Call) and (call_name(c) or '').split('.')[-1] == 'unpack' for c in ast.walk(a.value))))
            padvar = from_unpack[-1][1] if from_unpack else None
            padchk = padvar is not None and any(isinstance(n, ast.Compare) and isinstance(n.left, ast.Name) and n.left.id == padvar and isinstance(n.ops[0], (ast.NotEq, ast.Eq, ast.IsNot, ast.Is))
                                                and isinstance(n.comparators[0], ast.Constant) and n.comparators[0].value == 0 for n in walk_local(rfn))
            ctx.check(len(unp) == 2 and padchk, 'C02.R1', '%s|pad-word-read' % cname, site, 'reader consumes and checks the pad word', '%s reader does not consume and verify the pad word' % cname)
    for cname, tname in sorted(T_VAR.items()):
        c = prims.get(cname)
        ctx.need(c is not None, 'anchor vanished: primitive %s' % cname)
        announced = set(enum_member(n, 'Types')[1] for fn in methods(c).values() for n in walk_local(fn) if isinstance(n, ast.Attribute) and enum_member(n, 'Types'))
        ctx.check(announced == {tname}, 'C02.R1', '%s|announced-type' % cname, '%s:%s %s' % (PRIM, c.lineno, cname), 'announces Types.%s' % tname, '%s announces item type %s; expected %s' % (cname, sorted(announced), tname))
    # BigInteger: multiple of 8
    bi = prims['BigInteger']
    bread = get_method(bi, 'read')
    consts8 = {}
    for st_ in bi.body:
        if isinstance(st_, ast.Assign) and isinstance(st_.targets[0], ast.Name) and isinstance(st_.value, ast.Constant) and isinstance(st_.value.value, int):
            consts8[st_.targets[0].id] = st_.value.value

    def is8(e):
        if isinstance(e, ast.Constant):
            return e.value == 8
        if isinstance(e, ast.Attribute) and isinstance(e.value, ast.Name) and e.value.id in ('self', 'BigInteger', 'cls'):
            return consts8.get(e.attr) == 8
        return False
    # `self.length % 8` (the 8 possibly a class constant) decides a raise
    ok8 = any(isinstance(n, ast.BinOp) and isinstance(n.op, ast.Mod) and U(n.left) == 'self.length' and is8(n.right) for n in walk_local(bread))
    ctx.check(ok8, 'C02.R1', 'BigInteger|length-multiple-of-8', '%s:%s BigInteger.read' % (PRIM, bread.lineno), 'reader rejects lengths that are not a multiple of 8', 'BigInteger reader does not enforce a length that is a multiple of 8')

    # ---------------- R2
    for cname, (tname, length, code) in sorted(T_FIXED.items()):
        if cname == 'DateTime':
            continue
        c = prims[cname]
        ms = methods(c)
        found = False
        for mname in ('read', 'read_value'):
            fn = ms.get(mname)
            if fn is None:
                continue
            g = CFG(fn)
            for n in g.nodes:
                if n.kind == 'test':
                    p = cmp_parts(n.stmt)
                    if p and is_self_attr(p[0], 'length') and p[1] in ('IsNot', 'NotEq') and U(p[2]).endswith('.LENGTH'):
                        succ = [m for m, l in n.succ if l == 'T']
                        if succ and all(g.exit.id not in g.reachable(s_) or any(isinstance(x.stmt, ast.Raise) for x in g.nodes if x.id in g.reachable(s_) and x.kind == 'stmt') for s_ in succ):
                            unp = [x for x in g.nodes for c2 in calls_at(x) if (call_name(c2) or '').split('.')[-1] == 'unpack']
                            found = all(g.dominates(n, x) for x in unp) and bool(unp)
        # Reader strictness is not required by the property (which speaks about emitted bytes): informational when absent.
        if found:
            ctx.ok('C02.R2', '%s:%s %s' % (PRIM, c.lineno, cname), 'reader raises unless length == LENGTH before decoding')
        else:
            ctx.note('C02.R2 informational: %s reader does not compare the decoded length with LENGTH (it reads LENGTH bytes regardless)' % cname)

    # ---------------- R3 struct writers
    sch = Schema(src)
    cc = sch.codec_classes()
    ctx.count('struct_writers', len(cc), 100)
    for ref, rf, wf in cc:
        cname = ref[1]
        site = '%s:%s %s.write' % (ref[0], wf.lineno, cname)
        g = CFG(wf)
        ps = [a.arg for a in wf.args.args]
        out = ps[1]
        locals_ = [n.stmt.targets[0].id for n in g.nodes if n.kind == 'stmt' and isinstance(n.stmt, ast.Assign) and isinstance(n.stmt.targets[0], ast.Name)
                   and isinstance(n.stmt.value, ast.Call) and (call_name(n.stmt.value) or '').endswith('BytearrayStream') and not n.stmt.value.args]
        probs = []
        if len(set(locals_)) != 1:
            probs.append('expected exactly one local stream, found %s' % sorted(set(locals_)))
            ctx.fail('C02.R3', '%s|local-stream' % cname, site, probs[0])
            continue
        loc = locals_[0]
        child = [n for n in g.nodes for c in calls_at(n) if isinstance(c.func, ast.Attribute) and c.func.attr == 'write' and c.args and isinstance(c.args[0], ast.Name)
                 and not (isinstance(c.func.value, ast.Call) and call_name(c.func.value) == 'super') and not (isinstance(c.func.value, ast.Name) and c.func.value.id in (out, loc))]
        child_out = [n for n in child for c in calls_at(n) if isinstance(c.func, ast.Attribute) and c.func.attr == 'write' and c.args and isinstance(c.args[0], ast.Name) and c.args[0].id == out
                     and not (isinstance(c.func.value, ast.Call) and call_name(c.func.value) == 'super')]
        if child_out:
            probs.append('a child is written directly to the output stream (line %s)' % child_out[0].line)
        raw_local = [n for n in g.nodes for c in calls_at(n) if isinstance(c.func, ast.Attribute) and c.func.attr == 'write' and isinstance(c.func.value, ast.Name) and c.func.value.id == loc]
        lens = [n for n in g.nodes if n.kind == 'stmt' and isinstance(n.stmt, ast.Assign) and is_self_attr(n.stmt.targets[0], 'length')]
        sup = [n for n in g.nodes for c in calls_at(n) if isinstance(c.func, ast.Attribute) and c.func.attr == 'write' and isinstance(c.func.value, ast.Call) and call_name(c.func.value) == 'super']
        body = [n for n in g.nodes for c in calls_at(n) if isinstance(c.func, ast.Attribute) and c.func.attr == 'write' and isinstance(c.func.value, ast.Name) and c.func.value.id == out]
        if len(lens) != 1 or U(lens[0].stmt.value) != '%s.length()' % loc:
            probs.append('self.length is not assigned exactly once from %s.length()' % loc)
        if len(sup) != 1 or not (len(sup) == 1 and any(isinstance(a, ast.Name) and a.id == out for c in calls_at(sup[0]) for a in c.args)):
            probs.append('super().write(%s) is not called exactly once' % out)
        if len(body) != 1 or not any(U(c.args[0]) == '%s.buffer' % loc for c in calls_at(body[0]) if c.args and isinstance(c.func.value, ast.Name) and c.func.value.id == out):
            probs.append('%s.write(%s.buffer) does not occur exactly once' % (out, loc))
        if not probs:
            ln, sn, bn = lens[0], sup[0], body[0]
            for ch in child + raw_local:
                if g.exists_path(ln, ch) and ch is not ln:
                    probs.append('a child is written (line %s) after self.length was taken' % ch.line)
                    break
            if not (g.dominates(ln, sn) and g.dominates(sn, bn)):
                probs.append('order is not length -> header -> body')
            if not (g.all_paths_pass(g.entry, g.exit, [ln]) and g.all_paths_pass(g.entry, g.exit, [bn])):
                probs.append('a normal path skips the length computation or the body copy')
        ctx.check(not probs, 'C02.R3', '%s|header-after-body' % cname, site, 'children -> %s; self.length = %s.length(); super().write(%s); %s.write(%s.buffer)' % (loc, loc, out, out, loc),
                  'structure length may differ from the size of the children: %s' % '; '.join(probs))

    # ---------------- R4 envelope
    m = EngineModel(src)
    br = m.method('_build_response')
    bps = params(br)
    ctx.need(len(bps) >= 2, 'unrecognised construct: _build_response no longer takes (version, batch items)')
    hdr_calls = [c for c in walk_local(br) if isinstance(c, ast.Call) and (call_name(c) or '').endswith('ResponseHeader')]
    msg_calls = [c for c in walk_local(br) if isinstance(c, ast.Call) and (call_name(c) or '').endswith('ResponseMessage')]
    ok = len(hdr_calls) == 1 and len(msg_calls) == 1
    if ok:
        hk = {k.arg: k.value for k in hdr_calls[0].keywords}
        mk = {k.arg: k.value for k in msg_calls[0].keywords}
        bc = hk.get('batch_count')
        ok = isinstance(bc, ast.Call) and (call_name(bc) or '').endswith('BatchCount') and bc.args and U(bc.args[0]) == 'len(%s)' % bps[1] and U(mk.get('batch_items')) == bps[1]
        ok = ok and U(hk.get('protocol_version')) == bps[0] and isinstance(hk.get('time_stamp'), ast.Call) and 'time.time()' in U(hk['time_stamp'])
        g = CFG(br)
        rd = ReachingDefs(g)
        hv = mk.get('response_header')
        ok = ok and isinstance(hv, ast.Name) and [v for v in rd.values(node_of_expr(g, msg_calls[0]), hv.id)] == [hdr_calls[0]]
    ctx.check(ok, 'C02.R4', 'KmipEngine._build_response|envelope', m.site(br, br), 'header(version, time stamp, BatchCount(len(items))) + the same items', 'the response envelope is not built from the version parameter, a time stamp and len() of the very batch item list')
    ber = m.method('build_error_response')
    rbi = [c for c in walk_local(ber) if isinstance(c, ast.Call) and (call_name(c) or '').endswith('ResponseBatchItem')]
    okb = len(rbi) == 1
    if okb:
        kw = {k.arg: k.value for k in rbi[0].keywords}
        eps = params(ber)
        okb = isinstance(kw.get('result_status'), ast.Call) and enum_member(kw['result_status'].args[0]) == ('ResultStatus', 'OPERATION_FAILED') \
            and isinstance(kw.get('result_reason'), ast.Call) and U(kw['result_reason'].args[0]) == eps[1] and isinstance(kw.get('result_message'), ast.Call) and U(kw['result_message'].args[0]) == eps[2]
    ctx.check(okb, 'C02.R4', 'KmipEngine.build_error_response|status-reason-message', m.site(ber, ber), 'OPERATION_FAILED with the given reason and message', 'an error response does not carry OPERATION_FAILED with the given reason and message')
    pb = m.method('_process_batch')
    g = CFG(pb)
    rd = ReachingDefs(g)
    opc = call_nodes(g, 'self._process_operation')
    ctx.need(len(opc) == 1 and opc[0][0].tries, 'unrecognised construct: per-item try in _process_batch')
    tr = opc[0][0].tries[-1]
    psite = m.site(tr, pb)
    # What holds for the result of an item on every path through one iteration of the batch loop (pv/pathsim.py, shared with
    # C08.R1): a result whose item ran through the try without an exception carries SUCCESS and neither reason nor message;
    # a result built after an except arm carries a failure status and both a reason and a message.
    from .c08 import batch_iteration_paths
    on_ = opc[0][0]
    loops_ = [n for n in g.nodes if n.kind == 'loop' and isinstance(n.stmt, ast.For) and n.stmt in on_.loops]
    ctx.need(len(loops_) == 1, 'unrecognised construct: the _process_operation call must sit in exactly one for loop')
    rets_ = [pn for pn, l in g.exit.pred if isinstance(pn.stmt, ast.Return) and isinstance(pn.stmt.value, ast.Name)]
    ctx.need(rets_, 'unrecognised construct: _process_batch return')
    sim, paths = batch_iteration_paths(g, loops_[0], rets_[0].stmt.value.id, tr, params(pb)[1])
    done = [(n, lab, env) for n, lab, env in paths if (n is loops_[0] or lab == 'break') and env.get('#n', 0) >= 1]
    ctx.need(done, 'unrecognised construct: no result is appended in the batch loop')

    def wrapped(v):
        """value of a result field -> (kind, inner): the contents.X(...) wrapper is looked through"""
        d = sim.describe(v)
        if v[0] == 'x' and d and d[0] == 'call' and len(d[2]) == 1 and (call_name(d[1]) or '').split('.')[-1] in ('ResultStatus', 'ResultReason', 'ResultMessage'):
            return d[2][0]
        return v
    bad_r, bad_m, bad_s = [], [], []
    n_fail = n_ok = 0
    for n, lab, env in done:
        d = sim.describe(env.get('#item')) if env.get('#item') else None
        if not d or d[0] != 'call' or not (call_name(d[1]) or '').endswith('ResponseBatchItem'):
            raise AnalysisError('unrecognised construct: the value appended to the batch response is not a ResponseBatchItem built in the iteration')
        kws = d[3]
        st_, re_, me_ = (wrapped(kws.get(k, ('c', None))) for k in ('result_status', 'result_reason', 'result_message'))
        failed = bool(env.get('#failed'))
        if failed:
            n_fail += 1
            if st_ == ('e', 'ResultStatus', 'SUCCESS') or st_ == ('c', None) or sim.is_pre(st_):
                bad_s.append('a failed item is reported with status %s' % (st_,))
            if re_ == ('c', None) or sim.is_pre(re_):
                bad_r.append('a failed item carries no reason of its own')
            if me_ == ('c', None) or sim.is_pre(me_):
                bad_m.append('a failed item carries no message of its own')
        else:
            n_ok += 1
            if st_ != ('e', 'ResultStatus', 'SUCCESS'):
                bad_s.append('an item that did not fail is reported with status %s' % (st_,))
            if re_ != ('c', None):
                bad_r.append('a successful item carries a result reason')
            if me_ != ('c', None):
                bad_m.append('a successful item carries a result message')
    for fld, bad_ in (('result_reason', bad_r), ('result_message', bad_m)):
        ctx.check(not bad_ and n_fail and n_ok, 'C02.R4', 'KmipEngine._process_batch|%s-only-on-failure' % fld, psite, '%s is present exactly on the paths through an except arm (%d failing, %d successful path classes)' % (fld, n_fail, n_ok),
                  '%s does not accompany exactly the failed items: %s' % (fld, sorted(set(bad_))[:2]))
    ctx.check(not bad_s and n_fail and n_ok, 'C02.R4', 'KmipEngine._process_batch|success-only-on-fall-through', psite, 'SUCCESS is reported exactly for items whose operation returned normally; each except arm yields a failure status',
              'result_status SUCCESS can be reported for a failed item, or a failure status for a successful one: %s' % sorted(set(bad_s))[:2])
    # ---------------- R5
    st = src.tree(SESSION)
    sc = get_class(st, 'KmipSession')
    loop = get_method(sc, '_handle_message_loop')
    lg = CFG(loop)
    lrd = ReachingDefs(lg)
    n_enc = 0
    for n, c in call_nodes(lg, '.write'):
        if not (isinstance(c.func.value, ast.Name) and any(k.arg == 'kmip_version' for k in c.keywords)):
            continue
        n_enc += 1
        v = c.func.value.id
        good = True
        for var, val, dn in lrd.reaching(n, v):
            if isinstance(val, ast.Call) and call_name(val) == 'self._engine.build_error_response':
                continue
            if isinstance(val, tuple) and val[0] == 'unpack' and val[2] == 0 and isinstance(val[1], ast.Name):
                vv = lrd.values(dn, val[1].id)
                if len(vv) == 1 and isinstance(vv[0], ast.Call) and call_name(vv[0]) == 'self._engine.process_request':
                    continue
            good = False
        ctx.check(good, 'C02.R5', 'KmipSession._handle_message_loop|encoded-response-is-engine-built', '%s:%s' % (SESSION, c.lineno), 'the encoded response is engine-built on every path',
                  'a response that was not built by the engine can be encoded and sent')
    ctx.count('session_encode_sites', n_enc, 2)
    ctx.not_decided += ['byte identity of primitive encodings with an independent implementation for all values', 'two\'s-complement correctness of BigInteger for all values',
                        'well-formedness of attribute/credential values whose class is chosen at run time']
    ctx.assumptions += ['T_TYPES / T_FIXED / T_SIZES transcribe KMIP 1.x section 9.1', 'struct module semantics']
    check_value_length_accounting(ctx)
    ctx.rule('C02.R7', 'BigInteger.write emits a two\'s-complement number: the magnitude bits are padded to a multiple of 64 with at least one leading zero (the sign bit) for every bit length (shared with C01.R3 sign-room)')
    from .c01 import check_biginteger_sign_room
    check_biginteger_sign_room(ctx, src.tree(PRIM), rule='C02.R7')
    ctx.rule('C02.R8', 'the padding count kept in a TextString/ByteString after construction or decoding is in 0..7 and makes length + padding a multiple of 8 for every length residue: write_value emits exactly that many zero bytes, also when a decoded object is encoded again (lifted from C01.R3 padding-arithmetic)')
    from ..report import Ctx as _Ctx
    from . import c01 as _c01
    sub = _Ctx('C01', 'quick', ctx.src, 0)
    from ..report import run_lifted as _run_lifted
    _run_lifted(ctx, _c01, sub)
    lifted = [f for f in sub.findings if f.rule == 'C01.R3' and 'padding' in f.key]
    for f in lifted:
        ctx.fail('C02.R8', f.key, f.site, f.message)
    if not lifted:
        ctx.ok('C02.R8', PRIM, 'padding counts are within 0..7 for all residues in constructor and reader of both classes')
    check_failure_messages_nonempty(ctx, 'C02.R9')
    check_no_value_store_on_sized_primitives(ctx)
    from .c16 import check_error_response_versions
    check_error_response_versions(ctx, 'C02.R4')
