"""C13 - well-formed requests never hit the server's internal-error path."""
import ast

from ..astutil import all_functions, U, dotted, walk_local, is_self_attr, call_name, short, enum_member, get_class, get_method, methods, classes, params, bind_args
from ..cfg import CFG, calls_at
from ..dataflow import ReachingDefs, node_of_expr
from ..guards import handler_catches, dominating_edges
from ..index import Index
from ..engmodel import ENGINE, CRYPTO, POLICY
from ..engai import EngineAI, UNK
from ..factmodel import FactoryModel
from ..polmodel import attribute_name_tag_table
from ..source import AnalysisError

EXC = 'kmip/core/exceptions.py'
EXPLANATION = (
    "Abstract interpretation of all 21 KmipEngine handlers with helper inlining: (R1) every attribute read on a managed object is defined for "
    "every pie class the object may have at that point (type refinement by object-type / hasattr / isinstance / attribute-applicability tests), "
    "and every field read on a decoded attribute value exists on the class the value factory builds for the attribute name(s) possible there; "
    "(R2) every AttributePolicy query that dereferences the rule table receives a name known to be a rule key; (R4) explicit raises in the "
    "engine, crypto engine and attribute policy are KmipError subclasses carrying a specific result reason, conversions of client-supplied "
    "objects that can raise non-KMIP errors are protected. Sites inside a try that catches the error are exempt. Implicit exceptions of "
    "third-party libraries for particular values are not decided.")


def kmip_errors(src):
    """KmipError subclasses in kmip/core/exceptions.py -> reason member passed to the base constructor (None = not fixed)."""
    t = src.tree(EXC)
    cls = {c.name: c for c in t.body if isinstance(c, ast.ClassDef)}
    out = {}

    def is_kmip(c, seen=()):
        if c.name == 'KmipError':
            return True
        for b in c.bases:
            bn = b.id if isinstance(b, ast.Name) else None
            if bn in cls and bn not in seen and is_kmip(cls[bn], seen + (c.name,)):
                return True
        return False
    for name, c in cls.items():
        if not is_kmip(c):
            continue
        reason = None
        init = [m for m in c.body if isinstance(m, ast.FunctionDef) and m.name == '__init__']
        if init:
            for n in ast.walk(init[0]):
                if isinstance(n, ast.Call) and isinstance(n.func, ast.Attribute) and n.func.attr == '__init__':
                    for k in n.keywords:
                        if k.arg == 'reason':
                            em = enum_member(k.value, 'ResultReason')
                            reason = em[1] if em else 'param:' + U(k.value)
        out[name] = reason
    return out



def string_leaves(hg, hrd, node, expr, depth=0, seen=None):
    """Classify the values an identifier expression can take: list of (verdict, text) with verdict in ok / bad / unknown."""
    seen = seen if seen is not None else set()
    if isinstance(expr, ast.Constant):
        return [('ok' if expr.value is None or isinstance(expr.value, str) else 'bad', U(expr))]
    if isinstance(expr, ast.JoinedStr):
        return [('ok', U(expr))]
    if isinstance(expr, ast.Call):
        cn = call_name(expr) or ''
        if cn == 'str' or (isinstance(expr.func, ast.Attribute) and expr.func.attr in ('format', 'join', 'decode')):
            return [('ok', U(expr))]
        if cn.endswith('UniqueIdentifier') and len(expr.args) == 1:
            return string_leaves(hg, hrd, node, expr.args[0], depth, seen)
        return [('unknown', U(expr))]
    if isinstance(expr, ast.ListComp):
        # element expressions are evaluated inside the comprehension scope: only direct forms are classified
        e = expr.elt
        if isinstance(e, ast.Call) and call_name(e) == 'str':
            return [('ok', U(expr))]
        if isinstance(e, ast.Attribute) and e.attr == 'unique_identifier':
            return [('bad', U(expr))]
        return [('unknown', U(expr))]
    if isinstance(expr, (ast.List, ast.Tuple)):
        out = []
        for e in expr.elts:
            out += string_leaves(hg, hrd, node, e, depth, seen)
        return out or [('ok', '[]')]
    if isinstance(expr, ast.Attribute):
        if is_self_attr(expr, '_id_placeholder'):
            return [('ok', U(expr))]          # its stores are obligations of their own
        root = expr
        while isinstance(root, ast.Attribute):
            root = root.value
        if isinstance(root, ast.Name) and root.id == 'payload':
            return [('ok', U(expr))]          # decoded TextString field (setter type-checks str)
        if expr.attr == 'unique_identifier':
            return [('bad', U(expr))]         # pie object primary key: an Integer column
        return [('unknown', U(expr))]
    if isinstance(expr, ast.Name):
        if (expr.id, node.id) in seen or depth > 6:
            return []
        seen.add((expr.id, node.id))
        out = []
        for _var, val, dn in hrd.reaching(node, expr.id):
            if isinstance(val, tuple) and val[0] == 'iter' and dn is not None and isinstance(val[1], ast.AST):
                # an element of a collection: classified like the collection it iterates over
                out += string_leaves(hg, hrd, dn, val[1], depth + 1, seen)
            elif not isinstance(val, ast.AST) or dn is None:
                out.append(('unknown', '%s (parameter or opaque definition)' % expr.id))
            else:
                out += string_leaves(hg, hrd, dn, val, depth + 1, seen)
        # a list that is filled by append(...) (a comprehension written as a loop): its elements count too
        for n2 in hg.nodes:
            for c2 in calls_at(n2):
                if isinstance(c2.func, ast.Attribute) and c2.func.attr in ('append', 'insert') and isinstance(c2.func.value, ast.Name) and c2.func.value.id == expr.id and c2.args:
                    a2 = c2.args[-1]
                    if isinstance(a2, ast.Attribute) and a2.attr == 'unique_identifier' and not (isinstance(a2.value, ast.Name) and a2.value.id == 'payload'):
                        out.append(('bad', U(a2)))
                    elif isinstance(a2, ast.Call) and call_name(a2) == 'str':
                        out.append(('ok', U(a2)))
                    else:
                        out += string_leaves(hg, hrd, n2, a2, depth + 1, seen)
        return out or [('unknown', '%s (no definition)' % expr.id)]
    if isinstance(expr, ast.Subscript) and not isinstance(expr.slice, ast.Slice) and isinstance(expr.value, ast.Name):
        # one element of a local collection: classified like the collection's elements
        return string_leaves(hg, hrd, node, expr.value, depth + 1, seen)
    if isinstance(expr, ast.Subscript) and isinstance(expr.slice, ast.Slice):
        return string_leaves(hg, hrd, node, expr.value, depth + 1, seen)
    if isinstance(expr, ast.IfExp):
        return string_leaves(hg, hrd, node, expr.body, depth, seen) + string_leaves(hg, hrd, node, expr.orelse, depth, seen)
    if isinstance(expr, ast.BoolOp):
        out = []
        for v in expr.values:
            out += string_leaves(hg, hrd, node, v, depth, seen)
        return out
    return [('unknown', U(expr))]


def check_identifier_strings(ctx, m):
    ctx.rule('C13.R5', 'identifiers kept in the ID placeholder or handed to response payload constructors (which type-check for str and raise TypeError -> General Failure) are strings on every path: str(...) of the object id, a decoded payload field, or the placeholder itself')
    n_sites = 0
    unknown = []
    for meth, fn in sorted(m.methods.items()):
        sites = []
        for n in walk_local(fn):
            if isinstance(n, ast.Assign) and len(n.targets) == 1 and is_self_attr(n.targets[0], '_id_placeholder'):
                sites.append((n, n.value, 'placeholder-type'))
            if isinstance(n, ast.Call) and (call_name(n) or '').startswith('payloads.') and (call_name(n) or '').endswith('ResponsePayload'):
                for kw in n.keywords:
                    if kw.arg and (kw.arg == 'unique_identifier' or kw.arg == 'unique_identifiers' or kw.arg.endswith('_unique_identifier')):
                        sites.append((n, kw.value, '%s(%s=)' % (call_name(n), kw.arg)))
        if not sites:
            continue
        hg = CFG(fn)
        hrd = ReachingDefs(hg)
        for stmt, val, what in sites:
            n_sites += 1
            node = node_of_expr(hg, stmt)
            if node is None:
                raise AnalysisError('C13.R5: no CFG node for %s in %s' % (U(stmt)[:60], meth))
            leaves = string_leaves(hg, hrd, node, val)
            bad = sorted(set(t for v, t in leaves if v == 'bad'))
            unk = sorted(set(t for v, t in leaves if v == 'unknown'))
            site = m.site(stmt, fn)
            if bad:
                ctx.fail('C13.R5', 'KmipEngine.%s|%s' % (meth, what), site, 'the identifier can be a non-string (%s): a later payload constructor or attribute type check raises TypeError, which is answered with General Failure' % ', '.join(bad))
            elif unk:
                unknown.append('%s %s: %s' % (site, what, unk))
            else:
                ctx.ok('C13.R5', site, '%s is a string on every path (%d leaves)' % (what, len(leaves)))
    ctx.count('identifier_string_sites', n_sites, 15)
    if unknown:
        raise AnalysisError('C13.R5 cannot classify identifier values: %s' % unknown[:3])



class OptSchemas:
    """per codec class: field -> {'kinds': {version: 'req'|'opt'|'rep'}, 'cls': class of the field, 'rep': bool, 'raw': getter returns .value}"""
    def __init__(self, sch):
        self.sch = sch
        self.schemas = {}

    def schema_of(self, ref):
        from ..ttlv import VERSIONS, eval_guard
        sch, schemas = self.sch, self.schemas
        if ref in schemas:
            return schemas[ref]
        schemas[ref] = {}
        cn = sch.ix.class_node(ref)
        own = {n.name: n for n in cn.body if isinstance(n, ast.FunctionDef)}
        if 'read' not in own:
            for b in sch.ix.bases(ref):
                schemas[ref] = self.schema_of(b)
                return schemas[ref]
            return {}
        R = sch.extract(ref, own['read'], 'read')
        out = {}
        for e in R.events:
            d = out.setdefault(e['ident'], {'kinds': {}, 'cls': e['cls'], 'rep': False})
            for v in VERSIONS:
                if R.defined_under(v) and eval_guard(e['guards'], v):
                    prev = d['kinds'].get(v)
                    d['kinds'][v] = e['kind'] if prev is None or e['kind'] == 'opt' else prev
            if e['kind'] == 'rep':
                d['rep'] = True
            if d['cls'] is None:
                d['cls'] = e['cls']
        # does the property getter return the wrapper object or its raw .value ?
        for ident, d in out.items():
            getter = None
            for k in sch.ix.mro(ref):
                for f in sch.ix.class_node(k).body:
                    if isinstance(f, ast.FunctionDef) and f.name == ident and any((dotted(x) or '') == 'property' for x in f.decorator_list):
                        getter = getter or f
            d['raw'] = False
            if getter is not None:
                rets = [r for r in ast.walk(getter) if isinstance(r, ast.Return) and r.value is not None]
                if any(isinstance(r.value, ast.Attribute) and r.value.attr == 'value' for r in rets):
                    d['raw'] = True
        schemas[ref] = out
        return out

def check_optional_deref(ctx, m):
    """C13.R3: a structure field that its decoder treats as optional (or version-conditional) may be None; dereferencing it in a handler needs a guard."""
    from ..ttlv import Schema, VERSIONS
    from ..index import Index
    from ..cfg import CFG
    from ..dataflow import ReachingDefs, node_of_expr
    from ..guards import dominating_edges, is_none_test
    src = ctx.src
    sch = Schema(src)
    ctx.rule('C13.R3', 'in engine handlers, an attribute access on a payload/structure field that the decoder treats as optional is dominated by a None/truthiness test of that field')
    schema_of = OptSchemas(sch).schema_of
    # operation -> request payload class
    reqf = src.tree('kmip/core/factories/payloads/request.py')
    fac = [x for x in reqf.body if isinstance(x, ast.ClassDef)][0]
    op_cls = {}
    for name, fn in methods(fac).items():
        if name.startswith('_create_'):
            rets = [r for r in walk_local(fn) if isinstance(r, ast.Return) and isinstance(r.value, ast.Call)]
            if rets:
                ref = sch.ix.resolve_class('kmip/core/factories/payloads/request.py', rets[0].value.func)
                if ref:
                    op_cls[name[8:-8].upper()] = ref
    hop = m.handler_op()
    n_deref = 0
    for h, op in sorted(hop.items()):
        ref = op_cls.get(op)
        if ref is None:
            continue
        fn = m.method(h)
        g = CFG(fn)
        rd = ReachingDefs(g)
        pname = [a.arg for a in fn.args.args][1]

        gate = m.version_gate(fn) or '1.0'
        from ..polmodel import fold_version

        def versions_at(node):
            vs = [v for v in VERSIONS if tuple(int(x) for x in v.split('_')[1:]) >= tuple(int(x) for x in gate.split('.'))]
            for tt, lab in dominating_edges(g, node):
                c = tt.stmt
                if isinstance(c, ast.Compare) and len(c.ops) == 1 and is_self_attr(c.left, '_protocol_version') and isinstance(c.comparators[0], ast.Call):
                    try:
                        b = fold_version(c.comparators[0])
                    except AnalysisError:
                        continue
                    opn = type(c.ops[0]).__name__

                    def holds(v):
                        t = tuple(int(x) for x in v.split('_')[1:])
                        return {'GtE': t >= b, 'Gt': t > b, 'Lt': t < b, 'LtE': t <= b, 'Eq': t == b, 'NotEq': t != b}[opn]
                    vs = [v for v in vs if holds(v) == (lab == 'T')]
            return vs

        def type_of(e, node, depth=0):
            """-> (class ref or None, nullable, origin text)"""
            if depth > 6:
                return None
            if isinstance(e, ast.Name):
                if e.id == pname:
                    return (ref, False, pname)
                defs = rd.reaching(node, e.id)
                if len(defs) == 1 and isinstance(defs[0][1], ast.AST) and defs[0][2] is not None:
                    t = type_of(defs[0][1], defs[0][2], depth + 1)
                    return t
                return None
            if isinstance(e, ast.Attribute):
                bt = type_of(e.value, node, depth + 1)
                if bt is None or bt[0] is None:
                    return None
                sc = schema_of(bt[0])
                d = sc.get(e.attr)
                if d is None:
                    return None
                vs = versions_at(node)
                nullable = any(d['kinds'].get(v) in (None, 'opt') for v in vs)
                if d['raw'] or d['rep']:
                    return (None, nullable, U(e))
                return (d['cls'], nullable, U(e))
            return None
        for n in g.nodes:
            from ..cfg import expr_nodes
            for ex in expr_nodes(n):
                for x in ast.walk(ex):
                    if not (isinstance(x, ast.Attribute) and isinstance(x.ctx, ast.Load)):
                        continue
                    base = x.value
                    t = type_of(base, n)
                    if t is None or not t[1] or t[0] is None:
                        continue
                    # x reads a field of a nullable structure-valued expression
                    n_deref += 1
                    texts = {U(base)}
                    if isinstance(base, ast.Name):
                        for dv in rd.values(n, base.id):
                            if isinstance(dv, ast.AST):
                                texts.add(U(dv))
                    guarded = False
                    for tt, lab in dominating_edges(g, n):
                        nt = is_none_test(tt.stmt)
                        if nt and U(nt[1]) in texts and ((nt[0] == 'isnot') == (lab == 'T')):
                            guarded = True
                        if U(tt.stmt) in texts and lab == 'T':
                            guarded = True
                    prot = any('*' in handler_catches(hh) or 'AttributeError' in handler_catches(hh) for tr in n.tries for hh in tr.handlers)
                    site = '%s:%s KmipEngine.%s' % (ENGINE, x.lineno, h)
                    ctx.check(guarded or prot, 'C13.R3', 'KmipEngine.%s|%s.%s' % (h, t[2], x.attr), site, '%s is tested before .%s is read' % (U(base), x.attr),
                              '%s (decoded from %s, which the decoder treats as optional) may be None, but .%s is read without a None test: AttributeError -> General Failure'
                              % (U(base), t[2], x.attr))
    ctx.count('nullable_structure_dereferences', n_deref, 3)


def partial_on_empty(fn):
    """parameters of a helper for which an EMPTY collection makes the helper raise: functools.reduce(f, p) without an initial value,
    max(p) / min(p) without a default, p[0] / p[-1] - unless the use is dominated by a truthiness / len() test of p"""
    from ..cfg import CFG
    from ..guards import dominating_edges
    from ..dataflow import node_of_expr
    ps = set(params(fn, skip_self=False))
    out = {}
    g = None
    for n in walk_local(fn):
        p_, how = None, None
        if isinstance(n, ast.Call):
            cn = (call_name(n) or '').split('.')[-1]
            def source_param(e):
                # the collection itself, or a comprehension / list() / map() / sorted() over it (empty when it is empty)
                names = [x.id for x in ast.walk(e) if isinstance(x, ast.Name) and x.id in ps]
                return names[0] if len(set(names)) == 1 else None
            if cn == 'reduce' and len(n.args) == 2 and not n.keywords and source_param(n.args[1]):
                p_, how = source_param(n.args[1]), 'reduce() without an initial value'
            elif cn in ('max', 'min') and len(n.args) == 1 and not any(k.arg == 'default' for k in n.keywords) and source_param(n.args[0]):
                p_, how = source_param(n.args[0]), '%s() without a default' % cn
        elif isinstance(n, ast.Subscript) and isinstance(n.ctx, ast.Load) and isinstance(n.value, ast.Name) and isinstance(n.slice, ast.Constant) and n.slice.value in (0, -1):
            p_, how = n.value.id, 'indexing [%d]' % n.slice.value
        if p_ is None or p_ not in ps:
            continue
        if g is None:
            g = CFG(fn)
        node = node_of_expr(g, n)
        guarded = False
        if node is not None:
            for t, lab in dominating_edges(g, node):
                ts = U(t.stmt)
                if ts in (p_, 'len(%s)' % p_) and lab == 'T':
                    guarded = True
                if ts.startswith('len(%s) ' % p_) or ts.startswith('%s is' % p_) or ts == 'not %s' % p_:
                    guarded = True
        if not guarded:
            out[p_] = how
    return out


def check_partial_helpers(ctx, m):
    """C13.R9: helper functions of kmip.core (enums, utils) that raise on an empty collection are called from the engine only with
    an argument that was tested for emptiness: stored collections (usage masks, names, groups) can legitimately be empty."""
    from ..cfg import CFG
    from ..guards import dominating_edges
    from ..dataflow import node_of_expr
    ctx.rule('C13.R9', 'a helper of kmip.core that raises on an empty collection (functools.reduce without an initial value, max()/min() without a default, indexing [0] of its parameter) is called from the engine only with an argument tested for emptiness on the path: stored collections such as the usage mask list can be empty, and the helper\'s TypeError/ValueError/IndexError is answered with General Failure')
    src = ctx.src
    partial = {}
    for rel, alias in (('kmip/core/enums.py', 'enums'), ('kmip/core/utils.py', 'utils')):
        t = src.tree(rel)
        for f in [x for x in t.body if isinstance(x, ast.FunctionDef)]:
            po = partial_on_empty(f)
            if po:
                partial['%s.%s' % (alias, f.name)] = (f, po)
    ctx.analysed['helpers_partial_on_empty_collections'] = sorted(partial)
    n_calls = 0
    for name, fn in sorted(m.methods.items()):
        g = None
        for c in [x for x in walk_local(fn) if isinstance(x, ast.Call) and call_name(x) in partial]:
            f, po = partial[call_name(c)]
            b = bind_args(f, c, skip_self=False)
            for p_, how in sorted(po.items()):
                a = b.get(p_)
                if a is None or isinstance(a, (ast.List, ast.Tuple)) and a.elts:
                    continue
                n_calls += 1
                if g is None:
                    g = CFG(fn)
                node = node_of_expr(g, c)
                at = U(a)
                guarded = False
                if node is not None:
                    for t, lab in dominating_edges(g, node):
                        ts = U(t.stmt)
                        if (ts == at or ts == 'len(%s)' % at or ts.startswith('len(%s) >' % at)) and lab == 'T':
                            guarded = True
                        if ts == 'not %s' % at and lab == 'F':
                            guarded = True
                ctx.check(guarded, 'C13.R9', 'KmipEngine.%s|%s(%s)' % (name, call_name(c), at), m.site(c, fn),
                          '%s is called with a collection tested for emptiness' % call_name(c),
                          '%s raises on an empty collection (%s) and is called with %s, which can be empty (e.g. an object stored without that attribute): the exception is answered with General Failure' % (call_name(c), how, at))
    ctx.analysed['calls_of_partial_helpers_from_engine'] = n_calls



def check_factory_optional_deref(ctx):
    """C13.R11: the converters from decoded wire structures to stored objects tolerate every optional field being absent."""
    from ..ttlv import Schema
    from ..cfg import CFG
    from ..dataflow import ReachingDefs
    from ..guards import dominating_edges, is_none_test
    FACTORY = 'kmip/pie/factory.py'
    ctx.rule('C13.R11', 'in ObjectFactory (wire structure -> stored object, run by Register) a structure that its decoder treats as optional is never dereferenced without a None / truthiness test: neither directly nor by handing it to a converter helper that reads its fields unconditionally - an absent optional sub-structure (e.g. the Cryptographic Parameters inside Encryption Key Information) would raise AttributeError, answered with General Failure')
    src = ctx.src
    sch = Schema(src)
    osch = OptSchemas(sch)
    # field name -> [(holder class, descriptor)] over every codec class
    by_field = {}
    for ref, rfn, wfn in sch.codec_classes():
        for ident, d in osch.schema_of(ref).items():
            by_field.setdefault(ident, []).append((ref, d))
    t = src.tree(FACTORY)
    fac = get_class(t, 'ObjectFactory')
    from ..inline import flat_methods
    ms = flat_methods(fac)[0]

    def field_info(e, holders=None):
        """(possible classes of e, nullable) for an attribute read of a codec field, by field name (filtered by the holder classes when known)"""
        if not isinstance(e, ast.Attribute):
            return None
        cands = by_field.get(e.attr, [])
        base = field_info(e.value)
        if base and base[0]:
            f = [(r, d) for r, d in cands if r in base[0]]
            cands = f or cands
        if not cands:
            return None
        classes = {d['cls'] for r, d in cands if d['cls'] is not None and not d['raw'] and not d['rep']}
        nullable = any(k in (None, 'opt') for r, d in cands for k in (list(d['kinds'].values()) or [None]))
        return classes, nullable

    def unguarded_param_derefs(fn, p):
        g = CFG(fn)
        out = []
        for n in g.nodes:
            from ..cfg import expr_nodes
            for ex in expr_nodes(n):
                for x in ast.walk(ex):
                    if isinstance(x, ast.Attribute) and isinstance(x.ctx, ast.Load) and isinstance(x.value, ast.Name) and x.value.id == p:
                        guarded = False
                        for tt, lab in dominating_edges(g, n):
                            nt = is_none_test(tt.stmt)
                            if nt and U(nt[1]) == p and ((nt[0] == 'isnot') == (lab == 'T')):
                                guarded = True
                            if U(tt.stmt) == p and lab == 'T':
                                guarded = True
                        if not guarded:
                            out.append(x)
        return out
    n_sites = 0
    for name, fn in sorted(ms.items()):
        g = CFG(fn)
        rd = ReachingDefs(g)
        for n in g.nodes:
            for c in calls_at(n):
                if not (is_self_attr(c.func) and c.func.attr in ms):
                    continue
                callee = ms[c.func.attr]
                cps = params(callee)
                for i_, a in enumerate(c.args):
                    if i_ >= len(cps):
                        break
                    ae = a
                    texts = {U(a)}
                    if isinstance(a, ast.Name):
                        vals = [v for v in rd.values(n, a.id) if isinstance(v, ast.AST)]
                        if len(vals) != 1:
                            continue
                        ae = vals[0]
                        texts.add(U(ae))
                    info = field_info(ae)
                    if not info or not info[1] or not info[0]:
                        continue
                    n_sites += 1
                    guarded = False
                    for tt, lab in dominating_edges(g, n):
                        nt = is_none_test(tt.stmt)
                        if nt and U(nt[1]) in texts and ((nt[0] == 'isnot') == (lab == 'T')):
                            guarded = True
                        if U(tt.stmt) in texts and lab == 'T':
                            guarded = True
                    bad = [] if guarded else unguarded_param_derefs(callee, cps[i_])
                    ctx.check(not bad, 'C13.R11', 'ObjectFactory.%s|%s -> %s(%s)' % (name, U(ae), c.func.attr, cps[i_]), '%s:%s ObjectFactory.%s' % (FACTORY, c.lineno, name),
                              'the optional structure %s is tested before its fields are read' % U(ae),
                              '%s is optional in its decoder and is handed to %s, which reads %s without testing %s for None: AttributeError -> General Failure for a well-formed Register'
                              % (U(ae), c.func.attr, sorted(set(U(x) for x in bad))[:3], cps[i_]))
    ctx.count('optional_structures_handed_to_converters', n_sites, 2)
    # direct chains: <core object>.<...>.<optional field>.<attr> read in a converter without a test of the optional field
    # (F32: key.key_block.cryptographic_algorithm.value - both optional in KeyBlock.read)
    n_direct = 0
    core_param = {'key', 'secret', 'cert', 'obj', 'certificate', 'split_key', 'opaque'}
    for name, fn in sorted(ms.items()):
        ps = params(fn)
        if name.startswith('_build_core') or not ps:
            continue
        g = CFG(fn)
        rd = ReachingDefs(g)
        from ..cfg import expr_nodes
        for n in g.nodes:
            for ex in expr_nodes(n):
                for x in ast.walk(ex):
                    if not (isinstance(x, ast.Attribute) and isinstance(x.ctx, ast.Load) and isinstance(x.value, ast.Attribute)):
                        continue
                    b = x.value
                    root = b
                    while isinstance(root, ast.Attribute):
                        root = root.value
                    if not (isinstance(root, ast.Name) and root.id in ps):
                        continue
                    info = field_info(b)
                    if not info or not info[1]:
                        continue
                    # the holder must be known: the base of b is itself a codec field (or the parameter)
                    cands = by_field.get(b.attr, [])
                    binfo = field_info(b.value)
                    if binfo and binfo[0]:
                        cands = [(r, d) for r, d in cands if r in binfo[0]]
                        if not cands:
                            continue
                        if not any(k in (None, 'opt') for r, d in cands for k in (list(d['kinds'].values()) or [None])):
                            continue
                        if any(d['raw'] or d['rep'] for r, d in cands):
                            continue
                    else:
                        continue
                    n_direct += 1
                    guarded = False
                    tb = U(b)
                    for tt, lab in dominating_edges(g, n):
                        nt = is_none_test(tt.stmt)
                        if nt and U(nt[1]) == tb and ((nt[0] == 'isnot') == (lab == 'T')):
                            guarded = True
                        if U(tt.stmt) == tb and lab == 'T':
                            guarded = True
                    ctx.check(guarded, 'C13.R11', 'ObjectFactory.%s|%s.%s' % (name, tb, x.attr), '%s:%s ObjectFactory.%s' % (FACTORY, x.lineno, name),
                              'the optional field %s is tested before .%s is read' % (tb, x.attr),
                              '%s is optional in the decoder of its structure and .%s is read from it without a None test: AttributeError -> General Failure for a well-formed Register' % (tb, x.attr))
    ctx.analysed['optional_fields_dereferenced_in_converters'] = n_direct
    # a local that holds an optional field (info = value.encryption_key_information): every attribute read on it sits behind a test of THAT local
    # (reading it under the test of its sibling - `if mac_signature_key_info: ... encryption_key_info.cryptographic_parameters` - is the defect)
    n_locals = 0
    for name, fn in sorted(ms.items()):
        ps = params(fn)
        if name.startswith('_build_core') or not ps:
            continue
        g = CFG(fn)
        rd = ReachingDefs(g)
        from ..cfg import expr_nodes
        for n in g.nodes:
            for ex in expr_nodes(n):
                for x in ast.walk(ex):
                    if not (isinstance(x, ast.Attribute) and isinstance(x.ctx, ast.Load) and isinstance(x.value, ast.Name) and x.value.id not in ps):
                        continue
                    v = x.value.id
                    vals = [d for d in rd.values(n, v) if isinstance(d, ast.AST)]
                    if len(vals) != 1 or not isinstance(vals[0], ast.Attribute):
                        continue
                    src_ = vals[0]
                    root = src_
                    while isinstance(root, ast.Attribute):
                        root = root.value
                    if not (isinstance(root, ast.Name) and root.id in ps):
                        continue
                    info = field_info(src_)
                    if not info or not info[1]:
                        continue
                    cands = by_field.get(src_.attr, [])
                    if any(d['raw'] or d['rep'] for r, d in cands):
                        continue
                    n_locals += 1
                    guarded = False
                    for tt, lab in dominating_edges(g, n):
                        nt = is_none_test(tt.stmt)
                        if nt and U(nt[1]) == v and ((nt[0] == 'isnot') == (lab == 'T')):
                            guarded = True
                        if U(tt.stmt) == v and lab == 'T':
                            guarded = True
                    ctx.check(guarded, 'C13.R11', 'ObjectFactory.%s|%s.%s (= %s)' % (name, v, x.attr, U(src_)), '%s:%s ObjectFactory.%s' % (FACTORY, x.lineno, name),
                              'the local %s (= %s, optional) is tested before .%s is read' % (v, U(src_), x.attr),
                              '%s holds %s, which is optional in the decoder of its structure, and .%s is read from it without a test of %s itself: AttributeError -> General Failure for a well-formed Register' % (v, U(src_), x.attr, v))
    ctx.analysed['optional_field_locals_dereferenced_in_converters'] = n_locals


def check_table_lookup_results(ctx):
    """C13.R12: a value taken out of an engine lookup table with .get() is None for a key the table does not hold."""
    from ..astutil import instance_table
    from ..cfg import CFG
    from ..dataflow import ReachingDefs, node_of_expr
    from ..guards import dominating_edges, is_none_test, handler_catches, cmp_parts
    ctx.rule('C13.R12', 'in CryptographyEngine and KmipEngine the result of <table>.get(key) (None when the table does not hold the key; the tables list what is supported) is not called or dereferenced before it was tested - a None / truth test of the result, a membership test of the key, the key compared equal to a key of the table - unless the use sits in a try that turns any exception into a KMIP error: otherwise an unsupported algorithm / mode / padding in a well-formed request ends in None() or None.attr, a TypeError / AttributeError answered with General Failure')
    n = 0
    for rel, cn in ((CRYPTO, 'CryptographyEngine'), (ENGINE, 'KmipEngine')):
        t = ctx.src.tree(rel)
        c = get_class(t, cn)
        from ..inline import flat_methods
        for name, fn in sorted(flat_methods(c)[0].items()):
            g = None
            for a in walk_local(fn):
                if not (isinstance(a, ast.Assign) and len(a.targets) == 1 and isinstance(a.targets[0], ast.Name)):
                    continue
                v = a.value
                if not (isinstance(v, ast.Call) and isinstance(v.func, ast.Attribute) and v.func.attr == 'get' and is_self_attr(v.func.value) and v.args):
                    continue
                lit = instance_table(c, v.func.value.attr)
                if lit is None:
                    continue
                if len(v.args) == 2 and not (isinstance(v.args[1], ast.Constant) and v.args[1].value is None):
                    continue
                x = a.targets[0].id
                keytxt = U(v.args[0])
                tabkeys = {U(k) for k in lit.keys if k is not None}
                if g is None:
                    g = CFG(fn)
                    rd = ReachingDefs(g)
                for u in walk_local(fn):
                    use = None
                    if isinstance(u, ast.Call) and isinstance(u.func, ast.Name) and u.func.id == x:
                        use = u
                    elif isinstance(u, ast.Attribute) and isinstance(u.value, ast.Name) and u.value.id == x and isinstance(u.ctx, ast.Load):
                        use = u
                    if use is None:
                        continue
                    nd = node_of_expr(g, use)
                    if nd is None or not any(dn is not None and dn.stmt is a for var, val, dn in rd.reaching(nd, x)):
                        continue
                    n += 1
                    ok = False
                    for tt, lab in dominating_edges(g, nd):
                        nt = is_none_test(tt.stmt)
                        if nt and U(nt[1]) == x and ((nt[0] == 'isnot') == (lab == 'T')):
                            ok = True
                        if U(tt.stmt) == x and lab == 'T':
                            ok = True
                        p = cmp_parts(tt.stmt)
                        if p and U(p[0]) == keytxt:
                            if (p[1] == 'In' and lab == 'T') or (p[1] == 'NotIn' and lab == 'F'):
                                ok = True
                            if p[1] == 'Eq' and lab == 'T' and U(p[2]) in tabkeys:
                                ok = True
                    if not ok:
                        ok = any(('*' in handler_catches(h) or 'Exception' in handler_catches(h)) and any(isinstance(r_, ast.Raise) and isinstance(r_.exc, ast.Call) and (call_name(r_.exc) or '').startswith('exceptions.')
                                                                                                           for s_ in h.body for r_ in ast.walk(s_))
                                 for tr in nd.tries for h in tr.handlers)
                    ctx.check(ok, 'C13.R12', '%s.%s|%s from %s' % (cn, name, x, U(v.func.value)), '%s:%s %s.%s' % (rel, use.lineno, cn, name),
                              '%s is tested (or its key is) before it is used' % x,
                              '%s = %s can be None (the table does not hold every value of the enumeration), and %s is evaluated without a test: TypeError / AttributeError -> General Failure for an unsupported value' % (x, U(v)[:70], U(use)[:40]))
    ctx.count('table_lookup_result_uses', n, 8)


def check_calendar_conversions(ctx):
    """C13.R17: calendar conversions of request-controlled numbers cannot escape as library exceptions."""
    from ..cfg import CFG
    from ..dataflow import ReachingDefs
    from ..guards import dominating_edges, handler_catches, cmp_parts
    ctx.rule('C13.R17', 'a KMIP Date-Time is any 64-bit number of seconds, and time.gmtime / localtime / ctime (and datetime.fromtimestamp / utcfromtimestamp) raise OverflowError, OSError or ValueError for numbers outside the calendar range: in KmipEngine every such call either converts the server clock (time.time()), or a request value that a dominating test keeps within a constant distance of the server clock, or runs inside a try that catches those errors - arguments of a log call are evaluated whether or not the record is emitted, so a date that is only formatted for a DEBUG line still turns a well-formed request into General Failure')
    t = ctx.src.tree(ENGINE)
    cls = get_class(t, 'KmipEngine')
    CONV = {'time.gmtime', 'time.localtime', 'time.ctime', 'datetime.datetime.fromtimestamp', 'datetime.datetime.utcfromtimestamp', 'datetime.fromtimestamp', 'datetime.utcfromtimestamp'}
    n = 0
    from ..inline import flat_methods
    from ..dataflow import node_of_expr

    def clock(e):
        e2 = e.args[0] if isinstance(e, ast.Call) and call_name(e) == 'int' and len(e.args) == 1 else e
        return isinstance(e2, ast.Call) and call_name(e2) == 'time.time'
    NEG = {'Lt': 'GtE', 'LtE': 'Gt', 'Gt': 'LtE', 'GtE': 'Lt'}
    SWAP = {'Lt': 'Gt', 'LtE': 'GtE', 'Gt': 'Lt', 'GtE': 'LtE'}

    def bounded(g, rd, node, r):
        """the facts that hold at `node` keep the number named r within a constant distance below the server clock: clock >= r and clock - r < c"""
        def is_clock(e_, at):
            return clock(e_) or (isinstance(e_, ast.Name) and rd.values(at, e_.id) and all(isinstance(v, ast.AST) and clock(v) for v in rd.values(at, e_.id)))
        lo = hi = False
        for tt, lab in dominating_edges(g, node):
            p = cmp_parts(tt.stmt)
            if not p or p[1] not in NEG:
                continue
            op = p[1] if lab == 'T' else NEG[p[1]]
            l_, r_ = p[0], p[2]
            # clock ? r
            if isinstance(l_, ast.Name) and isinstance(r_, ast.Name):
                if l_.id == r and is_clock(r_, tt):
                    l_, r_, op = r_, l_, SWAP[op]
                if isinstance(r_, ast.Name) and r_.id == r and is_clock(l_, tt) and op in ('GtE', 'Gt'):
                    lo = True
            # (clock - r) ? c
            if isinstance(l_, ast.BinOp) and isinstance(l_.op, ast.Sub) and isinstance(l_.right, ast.Name) and l_.right.id == r and is_clock(l_.left, tt) \
                    and isinstance(r_, ast.Constant) and isinstance(r_.value, (int, float)) and op in ('Lt', 'LtE'):
                hi = True
        return lo and hi

    def safe(g, rd, node, e, depth=0):
        if e is None or clock(e):
            return True
        if not isinstance(e, ast.Name) or depth > 3:
            return False
        if bounded(g, rd, node, e.id):
            return True
        defs = rd.reaching(node, e.id)
        if not defs:
            return False
        for var, val, dn in defs:
            if dn is None or not isinstance(val, ast.AST):
                return False                     # a parameter / unknown
            if clock(val):
                continue
            if isinstance(val, ast.Name) and safe(g, rd, dn, val, depth + 1):
                continue
            return False
        return True
    for name, fn in sorted(flat_methods(cls)[0].items()):
        calls = [c for c in walk_local(fn) if isinstance(c, ast.Call) and (call_name(c) or '') in CONV]
        if not calls:
            continue
        g = CFG(fn)
        rd = ReachingDefs(g)
        for c in calls:
            n += 1
            nd = node_of_expr(g, c)
            arg = c.args[0] if c.args else None
            ok = arg is None or (nd is not None and safe(g, rd, nd, arg))
            why = 'the server clock, or a request value kept within a constant distance of it'
            if not ok and nd is not None:
                for tr in nd.tries:
                    hs = set()
                    for h in tr.handlers:
                        ts_ = [None] if h.type is None else (h.type.elts if isinstance(h.type, ast.Tuple) else [h.type])
                        hs |= {(dotted(x) or '').split('.')[-1] if x is not None else 'BaseException' for x in ts_}
                    if hs & {'Exception', 'BaseException'} or {'OverflowError', 'ValueError'} <= hs:
                        ok, why = True, 'inside a try that catches the conversion errors'
            ctx.check(ok, 'C13.R17', 'KmipEngine.%s|%s(%s)' % (name, call_name(c), U(arg)[:30] if arg is not None else ''), '%s:%s KmipEngine.%s' % (ENGINE, c.lineno, name),
                      '%s converts %s' % (call_name(c), why),
                      '%s(%s) converts a number a request controls (any 64-bit Date-Time) without a bound or a try: OverflowError / OSError / ValueError for far-away dates is not a KMIP error - General Failure for a well-formed request' % (call_name(c), U(arg)[:40] if arg is not None else ''))
    ctx.analysed['calendar_conversions_in_engine'] = n


def check_library_value_errors(ctx):
    """C13.R13: calls into the cryptography library that validate request-controlled values sit in a try that answers with a KMIP error."""
    from ..cfg import CFG
    from ..guards import handler_catches
    ctx.rule('C13.R13', 'in CryptographyEngine the library calls that reject request-controlled values - ciphers.Cipher(...) (the IV / nonce size is checked there), finalize() / finalize_with_tag() of a decryptor or an unpadder (ciphertext length, authentication tag, padding bytes), and the constructors hkdf.HKDF / pbkdf2.PBKDF2HMAC (requested length, iteration count) - run inside a try whose handler answers with a KMIP error (as mac, wrap_key and verify_signature do), in the method itself or around every call of that method inside the class: otherwise undecryptable ciphertext, a wrong tag, an IV of the wrong size or an excessive derivation length - all well-formed requests - are answered with General Failure.  Encryption-side update/finalize are not demanded: the plaintext is padded to whole blocks first')
    t = ctx.src.tree(CRYPTO)
    c = get_class(t, 'CryptographyEngine')
    from ..inline import flat_methods
    ms = flat_methods(c)[0]

    def converting(h):
        return ('*' in handler_catches(h) or 'Exception' in handler_catches(h)) and any(
            isinstance(r_, ast.Raise) and isinstance(r_.exc, ast.Call) and (call_name(r_.exc) or '').startswith('exceptions.') for s_ in h.body for r_ in ast.walk(s_))
    graphs = {}

    def graph(name):
        if name not in graphs:
            graphs[name] = CFG(ms[name])
        return graphs[name]

    def method_protected(name, seen=()):
        """every call of self.<name> inside the class sits in a converting try, or in a method that is itself protected that way"""
        sites = []
        for m2 in ms:
            g2 = graph(m2)
            for n2 in g2.nodes:
                for c2 in calls_at(n2):
                    if is_self_attr(c2.func, name):
                        sites.append((m2, n2))
        if not sites or name in seen:
            return False
        return all(any(converting(h) for tr in n2.tries for h in tr.handlers) or method_protected(m2, seen + (name,)) for m2, n2 in sites)
    n = 0
    for name in sorted(ms):
        fn = ms[name]
        g = graph(name)
        # locals holding a decryptor / unpadder
        dec = {}
        for a in walk_local(fn):
            if isinstance(a, ast.Assign) and len(a.targets) == 1 and isinstance(a.targets[0], ast.Name) and isinstance(a.value, ast.Call) and isinstance(a.value.func, ast.Attribute) \
                    and a.value.func.attr in ('decryptor', 'unpadder'):
                dec[a.targets[0].id] = a.value.func.attr
        for nd in g.nodes:
            for call in calls_at(nd):
                cn_ = call_name(call) or ''
                kind = None
                if cn_ in ('ciphers.Cipher', 'Cipher'):
                    kind = 'ciphers.Cipher'
                elif cn_ in ('hkdf.HKDF', 'pbkdf2.PBKDF2HMAC'):
                    kind = cn_
                elif isinstance(call.func, ast.Attribute) and call.func.attr in ('finalize', 'finalize_with_tag') and isinstance(call.func.value, ast.Name) and call.func.value.id in dec:
                    kind = '%s.%s' % (dec[call.func.value.id], call.func.attr)
                if kind is None:
                    continue
                n += 1
                ok = any(converting(h) for tr in nd.tries for h in tr.handlers) or method_protected(name)
                ctx.check(ok, 'C13.R13', 'CryptographyEngine.%s|%s|%s' % (name, kind, ' '.join(U(call).split())[:50]), '%s:%s CryptographyEngine.%s' % (CRYPTO, call.lineno, name), '%s runs inside a try that answers with a KMIP error' % kind,
                          '%s can reject the values of a well-formed request (ValueError / InvalidTag) and no try around it turns that into a KMIP error: the item is answered with General Failure' % U(call)[:60])
    ctx.count('value_checking_library_calls', n, 6)

UNION_FIELD_SCOPE = ('kmip/services/server/engine.py', 'kmip/services/server/session.py', 'kmip/services/server/policy.py', 'kmip/services/server/auth/utils.py',
                     'kmip/services/server/auth/slugs.py', 'kmip/services/server/auth/api.py', 'kmip/services/server/crypto/engine.py', 'kmip/pie/factory.py')


def union_fields(src):
    """{public field name: (owner class, {member class name: ref})} for decoded fields whose class is chosen by a tag at decode time."""
    ix = Index(src)
    out = {}
    for rel in src.modules('kmip/core'):
        t = src.tree(rel)
        for c in [n for n in ast.walk(t) if isinstance(n, ast.ClassDef)]:
            rd = get_method(c, 'read', optional=True)
            if rd is None:
                continue
            by = {}
            for a in walk_local(rd):
                if isinstance(a, ast.Assign) and len(a.targets) == 1 and is_self_attr(a.targets[0]) and isinstance(a.value, ast.Call):
                    ref = ix.resolve_class(rel, a.value.func)
                    # chosen by a tag field of the owner: the assignment is an arm of `if self.<tag> == <member>`
                    # (KeyValue.key_material, chosen by the TTLV type of the next item, is not one: KeyValue.validate() refuses the
                    # structure alternative at decode time, so only KeyMaterial ever reaches the server code)
                    par = getattr(a, '_parent', None)
                    tagged = isinstance(par, ast.If) and isinstance(par.test, ast.Compare) and len(par.test.ops) == 1 and isinstance(par.test.ops[0], (ast.Eq, ast.Is)) \
                        and any(is_self_attr(x) for x in (par.test.left, par.test.comparators[0]))
                    if ref and tagged:
                        by.setdefault(a.targets[0].attr, {})[ref[1]] = ref
            for f, members in by.items():
                if len(members) > 1:
                    out[f.lstrip('_')] = (c.name, members, ix)
    return out


def check_union_field_reads(ctx):
    """C13.R15: a field read on a decoded value whose class depends on a type tag exists in every member class, or the read is behind a test of the tag / class."""
    ctx.rule('C13.R15', 'where the decoder chooses the class of a field by a type tag of the message (Credential.credential_value: UsernamePassword / Device / Attestation credential; KeyValue.key_material: bytes / structure), server-side code reads on that field only attributes that every member class defines, unless the read is dominated by a test of the owner\'s tag or of the value\'s class (isinstance / hasattr) or sits in a try catching AttributeError: otherwise a legal request carrying one of the other alternatives raises AttributeError and is answered with General Failure')
    uf = union_fields(ctx.src)
    ctx.count('tag_selected_fields', len(uf), 1)
    from ..guards import handler_catches
    n = 0
    for rel in UNION_FIELD_SCOPE:
        t = ctx.src.tree(rel)
        for qn, fn, _c in all_functions(t):
            reads = [a for a in walk_local(fn) if isinstance(a, ast.Attribute) and isinstance(a.ctx, ast.Load) and isinstance(a.value, ast.Attribute) and a.value.attr in uf and not is_self_attr(a.value)]
            if not reads:
                continue
            g = CFG(fn)
            for a in reads:
                owner, members, ix = uf[a.value.attr]
                n += 1
                lacking = sorted(m_ for m_, ref in members.items() if a.attr not in ix.fields(ref))
                ok = not lacking
                if not ok:
                    nd = node_of_expr(g, a)
                    base = U(a.value.value)
                    for tn, lab in (dominating_edges(g, nd) if nd is not None else ()):
                        tx = U(tn.stmt)
                        if ('isinstance(' in tx or 'hasattr(' in tx) and U(a.value) in tx or (base + '.') in tx.replace(U(a.value), ''):
                            ok = True
                    if nd is not None and any(handler_catches(h) & {'*', 'Exception', 'AttributeError'} for tr in nd.tries for h in tr.handlers):
                        ok = True
                ctx.check(ok, 'C13.R15', '%s|%s.%s' % (qn, a.value.attr, a.attr), '%s:%s %s' % (rel, a.lineno, qn), '%s.%s defined by every alternative of %s.%s (or read behind a test of the tag)' % (a.value.attr, a.attr, owner, a.value.attr),
                          '%s reads .%s on %s.%s, which the decoder may have built as %s - that class has no such attribute and nothing before the read tells the alternatives apart: AttributeError -> General Failure for a legal request' % (U(a)[:70], a.attr, owner, a.value.attr, '/'.join(lacking)))
    ctx.analysed['tag_selected_field_reads'] = n


def check_single_row_queries(ctx):
    """C13.R16: a query that demands exactly one / at most one row filters on a column the schema keeps unique."""
    PIEOBJ_ = 'kmip/pie/objects.py'
    ctx.rule('C13.R16', 'every query of the engine that ends in .one() / .one_or_none() / .scalar() / .scalar_one() / .scalar_one_or_none() - which raise MultipleResultsFound when several rows match - filters on a column that the schema keeps unique (primary_key=True or unique=True in kmip/pie/objects.py, i.e. the unique identifier): nothing stops two rows from carrying the same name, group or any other attribute value, and the library exception is not a KMIP error, so the request and every later one touching those rows would be answered with General Failure')
    pt = ctx.src.tree(PIEOBJ_)
    unique = {}
    for c in [n for n in ast.walk(pt) if isinstance(n, ast.ClassDef)]:
        for st in c.body:
            if isinstance(st, ast.Assign) and isinstance(st.value, ast.Call) and (call_name(st.value) or '').split('.')[-1] == 'Column' and isinstance(st.targets[0], ast.Name):
                if any(k.arg in ('primary_key', 'unique') and isinstance(k.value, ast.Constant) and k.value.value is True for k in st.value.keywords):
                    unique.setdefault(c.name, set()).add(st.targets[0].id)
    ctx.count('unique_columns', sum(len(v) for v in unique.values()), 2)
    ucols = set(x for v in unique.values() for x in v)
    from ..inline import flat_methods
    c = get_class(ctx.src.tree(ENGINE), 'KmipEngine')
    n = 0
    for name, fn in sorted(flat_methods(c)[0].items()):
        for call in walk_local(fn):
            if not (isinstance(call, ast.Call) and isinstance(call.func, ast.Attribute) and call.func.attr in ('one', 'one_or_none', 'scalar', 'scalar_one', 'scalar_one_or_none') and not call.args):
                continue
            # walk the receiver chain: query(...).filter(...)....
            x = call.func.value
            filters, is_query = [], False
            while isinstance(x, ast.Call) and isinstance(x.func, ast.Attribute):
                if x.func.attr in ('filter', 'filter_by', 'where'):
                    filters.append(x)
                if x.func.attr == 'query':
                    is_query = True
                x = x.func.value
            if not is_query:
                continue
            n += 1
            cols = set()
            for fcall in filters:
                for a in fcall.args:
                    p = cmp_parts_(a)
                    if p and p[1] == 'Eq':
                        for side in (p[0], p[2]):
                            if isinstance(side, ast.Attribute) and not is_self_attr(side):
                                cols.add(side.attr)
                for k in fcall.keywords:
                    if fcall.func.attr == 'filter_by' and k.arg:
                        cols.add(k.arg)
            ok = bool(cols & ucols) or bool(cols & set('_' + u for u in ucols))
            ctx.check(ok, 'C13.R16', 'KmipEngine.%s|.%s() on a filter over %s' % (name, call.func.attr, '/'.join(sorted(cols)) or 'nothing'), '%s:%s KmipEngine.%s' % (ENGINE, call.lineno, name),
                      'the single-row query filters on the unique column %s' % '/'.join(sorted(cols & ucols)),
                      '.%s() is applied to a query filtered on %s, none of which the schema keeps unique: as soon as two rows match (nothing prevents that) it raises MultipleResultsFound -> General Failure for this and every later request that names the value' % (call.func.attr, '/'.join(sorted(cols)) or 'no column'))
    ctx.count('single_row_queries', n, 2)


def cmp_parts_(e):
    from ..guards import cmp_parts
    return cmp_parts(e)

def run(ctx):
    src = ctx.src
    ai = EngineAI.shared(src)
    fm = FactoryModel(src)
    m = ai.m
    for rid, text in (
        ('C13.R1', 'no attribute is read on a managed object (or on a decoded attribute value) that some class possible at that point does not define, unless a handler catches the error'),
        ('C13.R2', 'every AttributePolicy query that dereferences the rule set (detected from its body) receives an attribute name that is known to be a rule key'),
        ('C13.R4', 'explicit raises in engine.py, crypto/engine.py and server/policy.py are KmipError subclasses with a specific ResultReason; client-supplied objects are converted inside a try that maps errors to a KMIP error; tags reaching convert_attribute_tag_to_name are in the name table'),
    ):
        ctx.rule(rid, text)
    ctx.count('handlers_interpreted', len(m.handlers), 21)
    if ai.bounds_hit:
        raise AnalysisError('analysis bound hit: %s' % ai.bounds_hit[:3])
    ctx.analysed['max_disjuncts'] = max(ai.max_disjuncts.values())

    # ---------------- R1 pie objects
    reads = {}
    for e in ai.events:
        if e['kind'] != 'attr_read':
            continue
        k = (e['fn'], e['var'], e['attr'], e['ctx'][0])
        r = reads.setdefault(k, {'missing': set(), 'line': e['line'], 'protected': True, 'ctx': e['ctx']})
        if e['missing'] and not e['protected']:
            r['missing'] |= set(e['missing'])
            r['bad_ctx'] = e['ctx']
            r['line'] = e['line']
        if not e['protected']:
            r['protected'] = False
    ctx.count('pie_attribute_read_sites', len(reads), 120)
    for (fn, var, attr, root), r in sorted(reads.items(), key=str):
        site = '%s:%s KmipEngine.%s' % (ENGINE, r['line'], fn)
        if r['missing']:
            if ai.unresolved.get(root):
                raise AnalysisError('unrecognised construct: %s tests a stored object against values that are not constants at that point (%s); which classes reach %s.%s cannot be decided' % (root, '; '.join(ai.unresolved[root][:3]), var, attr))
            ctx.fail('C13.R1', 'KmipEngine.%s|%s.%s|via %s' % (fn, var, attr, root), site,
                     'attribute %r is read on %s although the object may be a %s, which has no such attribute (AttributeError -> General Failure); call chain %s'
                     % (attr, var, '/'.join(sorted(r['missing'])), ' > '.join(r.get('bad_ctx', r['ctx']))))
        else:
            ctx.ok('C13.R1', site, '%s.%s defined for every possible class%s' % (var, attr, ' (or protected by try)' if r['protected'] else ''))
    # ---------------- R1 attribute value objects
    vreads = {}
    for e in ai.events:
        if e['kind'] != 'attrval_read' or e['names'] is None:
            continue
        k = (e['fn'], e['attr'], e['line'])
        v = vreads.setdefault(k, {'bad': {}, 'names': set(), 'protected': True, 'ctx': e['ctx']})
        if not e['protected']:
            v['protected'] = False
        for n in e['names']:
            if n == UNK:
                continue
            v['names'].add(n)
            for c in fm.classes_for_name(n):
                if e['attr'] not in fm.ix.fields(c) and not e['protected']:
                    v['bad'].setdefault(n, set()).add(c[1])
                    v['ctx'] = e['ctx']
    ctx.count('attribute_value_read_sites', len(vreads), 25)
    for (fn, attr, line), v in sorted(vreads.items(), key=str):
        site = '%s:%s KmipEngine.%s' % (ENGINE, line, fn)
        if v['bad']:
            for n, cs in sorted(v['bad'].items()):
                ctx.fail('C13.R1', 'KmipEngine.%s|attribute_value.%s|%s' % (fn, attr, n), site,
                         'field %r is read on the decoded value of attribute %r, whose class %s has no such field (AttributeError -> General Failure); call chain %s'
                         % (attr, n, '/'.join(sorted(cs)), ' > '.join(v['ctx'])))
        else:
            ctx.ok('C13.R1', site, 'value field %s exists for %d possible attribute names' % (attr, len(v['names'])))

    # ---------------- R2 rule-table dereference
    derefs = {}
    for e in ai.events:
        if e['kind'] != 'policy_call' or not e['deref']:
            continue
        k = (e['fn'], e['method'], e['arg'], e['ctx'][0])
        d = derefs.setdefault(k, {'bad': False, 'line': e['line'], 'why': '', 'ctx': e['ctx']})
        if e['protected']:
            continue
        if not e['tracked']:
            d['bad'] = True
            d['why'] = 'the argument is not a tracked attribute name'
            d['ctx'] = e['ctx']
        elif e['unknown']:
            d['bad'] = True
            d['why'] = 'the client-supplied name has not been checked against the rule table'
            d['ctx'] = e['ctx']
    if ai.pol.deref:
        ctx.count('rule_table_dereference_sites', len(derefs), 15)
    else:
        # no query method dereferences the rule set any more (each tests it for None first): nothing can go wrong at the call sites;
        # the calls themselves must still have been seen
        ctx.count('rule_table_dereference_sites', len(derefs), 0)
        ctx.count('policy_query_calls', len([e for e in ai.events if e['kind'] == 'policy_call']), 15)
    ctx.count('dereferencing_policy_methods', len(ai.pol.deref), 0)
    ctx.count('policy_query_methods', len(ai.pol.guard_quality), 5)
    for (fn, meth, arg, root), d in sorted(derefs.items(), key=str):
        site = '%s:%s KmipEngine.%s' % (ENGINE, d['line'], fn)
        if d['bad']:
            ctx.fail('C13.R2', 'KmipEngine.%s|%s(%s)|via %s' % (fn, meth, arg, root), site,
                     '%s dereferences the attribute rule set but %s (unknown name -> AttributeError on None -> General Failure); call chain %s'
                     % (meth, d['why'], ' > '.join(d['ctx'])))
        else:
            ctx.ok('C13.R2', site, '%s(%s) receives a known rule key' % (meth, arg))
    # the refinements used above (a name that passed is_attribute_supported / a dereferencing query is a rule key) hold only if the policy
    # methods test and look up the very name they are given
    for meth, probs in sorted(ai.pol.guard_quality.items()):
        site = '%s AttributePolicy.%s' % (POLICY, meth)
        ctx.check(not probs, 'C13.R2', 'AttributePolicy.%s|tests-the-given-name' % meth, site, 'membership test and rule-set lookups use the name parameter unmodified',
                  'the policy query does not decide about the name it is given (%s): a name it reports as supported need not have a rule set under that name, and the other queries dereference None for it' % '; '.join(probs))
    ctx.count('policy_query_methods', len(ai.pol.guard_quality), 6)
    # informational: decodable names without a rule entry are treated as unknown names by the analysis above
    extra = sorted(ai.byenum_names - ai.allnames)
    if extra:
        ctx.note('attributes decodable under KMIP 2.0 without a rule-table entry (handled as unknown names by R2): %s' % extra)

    # ---------------- R4 explicit raises
    kerr = kmip_errors(src)
    ctx.count('kmip_error_classes', len(kerr), 12)
    for name, reason in sorted(kerr.items()):
        if name in ('KmipError', 'OperationFailure'):
            continue
        ctx.check(reason is not None and reason != 'GENERAL_FAILURE' and not str(reason).startswith('param:'), 'C13.R4', 'exceptions.%s|reason' % name, '%s %s' % (EXC, name),
                  '%s carries ResultReason.%s' % (name, reason), 'KMIP error class %s does not fix a specific result reason (%s)' % (name, reason))
    n_raise = 0
    for rel, clsname in ((ENGINE, 'KmipEngine'), (CRYPTO, 'CryptographyEngine'), (POLICY, 'AttributePolicy')):
        t = src.tree(rel)
        c = get_class(t, clsname)
        for mname, fn in methods(c).items():
            g = None
            for n in walk_local(fn):
                if not isinstance(n, ast.Raise):
                    continue
                n_raise += 1
                site = '%s:%s %s.%s' % (rel, n.lineno, clsname, mname)
                exc = n.exc
                nm = call_name(exc) if isinstance(exc, ast.Call) else (dotted(exc) if exc is not None else None)
                key = '%s.%s|raise %s' % (clsname, mname, nm)
                if getattr(n, '_synthetic_keyerror', False):
                    # stands for TABLE[KEY] of a constant lookup table (pv/tables.py): a violation only if the interpreter finds a path on which the key is none of the table's
                    reach = [e_ for e_ in ai.events if e_['kind'] == 'raise' and e_.get('exc') == 'KeyError' and e_['line'] == n.lineno and e_['fn'] == mname and not e_.get('in_try')]
                    if clsname == 'KmipEngine' and not reach:
                        ctx.ok('C13.R4', site, 'table lookup: the key is one of the table\'s on every path')
                        continue
                    if clsname != 'KmipEngine':
                        continue
                    key = '%s.%s|table lookup may raise KeyError' % (clsname, mname)
                if nm and nm.startswith('exceptions.') and nm.split('.')[1] in kerr:
                    cn = nm.split('.')[1]
                    if cn in ('KmipError', 'OperationFailure') and isinstance(exc, ast.Call):
                        rk = [k.value for k in exc.keywords if k.arg == 'reason']
                        em = enum_member(rk[0], 'ResultReason') if rk else None
                        ctx.check(em is not None and em[1] != 'GENERAL_FAILURE', 'C13.R4', key + '|reason', site, 'KmipError with reason %s' % (em[1] if em else None),
                                  'a generic KmipError is raised without a specific result reason')
                    else:
                        ctx.ok('C13.R4', site, 'raises %s' % nm)
                    continue
                # bare re-raise / raise of a caught variable inside an except arm
                if g is None:
                    g = CFG(fn)
                node = [x for x in g.nodes if x.stmt is n]
                if node and node[0].handlers:
                    h = node[0].handlers[-1]
                    caught = handler_catches(h)
                    if exc is None or (isinstance(exc, ast.Name) and exc.id == h.name):
                        if all(x.startswith('exceptions.') and x.split('.')[1] in kerr for x in caught):
                            ctx.ok('C13.R4', site, 're-raises a caught KMIP error')
                            continue
                        if caught == ['exc.MultipleResultsFound'] and mname == '_get_object_type':
                            ctx.ok('C13.R4', site, 're-raise of MultipleResultsFound: infeasible, the filter is on the primary key (C07.R1)')
                            continue
                ctx.fail('C13.R4', key, site, 'explicit raise of a non-KMIP exception (%s) on a request path: it reaches the catch-all and is answered with General Failure' % nm)
    ctx.count('explicit_raise_sites', n_raise, 150)
    # conversions of client-supplied objects
    conv = [e for e in ai.events if False]
    for h in m.handlers:
        fn = m.method(h)
        g = None
        for c in [x for x in walk_local(fn) if isinstance(x, ast.Call) and isinstance(x.func, ast.Attribute) and x.func.attr == 'convert']:
            if g is None:
                g = CFG(fn)
            node = [x for x in g.nodes if x.stmt is not None and any(y is c for y in ast.walk(x.stmt)) and x.kind == 'stmt']
            prot = bool(node) and any('*' in handler_catches(hh) or 'ValueError' in handler_catches(hh) for t in node[0].tries for hh in t.handlers)
            site = '%s:%s KmipEngine.%s' % (ENGINE, c.lineno, h)
            ctx.check(prot, 'C13.R4', 'KmipEngine.%s|convert(client object)' % h, site, 'conversion of the client-supplied object is protected',
                      'ObjectFactory.convert of the client-supplied object is not protected: pie validate() raises ValueError/TypeError for inconsistent but well-formed input '
                      '(e.g. key length attribute != key size) -> General Failure')
    # tag -> name conversion: tags the by-tag factory can produce are all in the name table
    tagtab = {t for n, t in attribute_name_tag_table(src)}
    bytag = {t for t, v in fm.by_tag.items() if v}
    missing = sorted(bytag - tagtab)
    n_t2n = len([e for e in ai.events if e['kind'] == 'tag_to_name'])
    ctx.count('tag_to_name_sites_reached', n_t2n, 3)
    ctx.check(not missing, 'C13.R4', 'enums.convert_attribute_tag_to_name|decodable-tags-named', 'kmip/core/enums.py attribute_name_tag_table',
              'every tag the by-tag factory decodes has a name (ValueError infeasible for decoded attributes)',
              'decodable attribute tags without a name entry (convert_attribute_tag_to_name raises ValueError -> General Failure): %s' % missing)
    check_optional_deref(ctx, m)
    check_identifier_strings(ctx, m)
    # ---------------- C13.R6 (lifted from C07)
    ctx.rule('C13.R6', 'identifiers are never reused (AUTOINCREMENT on the base table, lifted from C07.R1): Destroy removes the base row by a bulk delete and leaves the subclass rows, so a reused identifier would collide with them (IntegrityError, answered with General Failure)')
    from ..report import Ctx as _LCtx
    from . import c07 as _lsrc
    _sub = _LCtx('C07', 'quick', ctx.src, 0)
    from ..report import run_lifted as _run_lifted
    _run_lifted(ctx, _lsrc, _sub)
    _lifted = [f for f in _sub.findings if f.rule == 'C07.R1']
    for f in _lifted:
        ctx.fail('C13.R6', f.key, f.site, f.message)
    if not _lifted:
        ctx.ok('C13.R6', 'kmip/services/server/engine.py', 'the base table is AUTOINCREMENT')
    # ---------------- C13.R7 (lifted from C05)
    ctx.rule('C13.R7', 'the column converters of the object store never raise (lifted from C05.R3): their exceptions are not KMIP errors and are answered with General Failure')
    from ..report import Ctx as _LCtx_C13_R7
    from . import c05 as _lsrc_C13_R7
    _sub_C13_R7 = _LCtx_C13_R7('C05', 'quick', ctx.src, 0)
    from ..report import run_lifted as _run_lifted
    _run_lifted(ctx, _lsrc_C13_R7, _sub_C13_R7)
    _lifted_C13_R7 = [f for f in _sub_C13_R7.findings if f.rule == 'C05.R3' and '|total' in f.key]
    for f in _lifted_C13_R7:
        ctx.fail('C13.R7', f.key, f.site, f.message)
    if not _lifted_C13_R7:
        ctx.ok('C13.R7', 'lifted from C05', 'column converters are total')
    # ---------------- R8 the schema adds no constraint that a commit of engine-validated data could violate
    ctx.rule('C13.R8', 'the object store schema (kmip/pie) declares no uniqueness or check constraint besides the primary keys: the engine validates requests itself, and a constraint violated at commit surfaces as IntegrityError - not a KMIP error, answered with General Failure after part of the batch was executed')
    n_k = 0
    for rel in ('kmip/pie/objects.py', 'kmip/pie/sqltypes.py'):
        t8 = src.tree(rel)
        for x in ast.walk(t8):
            bad8 = None
            if isinstance(x, ast.Call) and (call_name(x) or '').split('.')[-1] in ('UniqueConstraint', 'CheckConstraint', 'ExcludeConstraint'):
                bad8 = call_name(x)
            if isinstance(x, ast.Call) and (call_name(x) or '').split('.')[-1] in ('Column', 'Index'):
                n_k += 1
                for k in x.keywords:
                    if k.arg == 'unique' and not (isinstance(k.value, ast.Constant) and k.value.value in (False, None)):
                        bad8 = '%s(unique=%s)' % (call_name(x), U(k.value))
            if bad8:
                ctx.fail('C13.R8', '%s|%s' % (rel, bad8), '%s:%s' % (rel, x.lineno), '%s adds a constraint the engine does not check before committing (e.g. ModifyAttribute never tests for duplicates): a request that violates it is answered with General Failure' % bad8)
    ctx.count('columns_and_indexes_scanned', n_k, 30)
    if not any(f.rule == 'C13.R8' for f in ctx.findings):
        ctx.ok('C13.R8', 'kmip/pie/objects.py, kmip/pie/sqltypes.py', 'no uniqueness / check constraints besides the primary keys')
    check_partial_helpers(ctx, m)
    from .c15 import check_index_bounds
    check_index_bounds(ctx, m, 'C13.R10', ' (shared with C15.R9)')
    check_factory_optional_deref(ctx)
    check_table_lookup_results(ctx)
    check_calendar_conversions(ctx)
    check_library_value_errors(ctx)
    check_union_field_reads(ctx)
    check_single_row_queries(ctx)
    from .c05 import check_big_integer_columns
    check_big_integer_columns(ctx, 'C13.R14', ' (shared with C05.R13)')
    ctx.not_decided += ['implicit exceptions of third-party code for particular values (cryptography rejecting a nonce length, unpadding failure with a wrong key)']
    ctx.assumptions += ['requests reach the engine only through the decoders (wire-decoded provenance): field types are those the decoders construct',
                        'TypeError raises in pie validate() are infeasible for decoder-typed values; ValueError raises depend on values and are feasible']
