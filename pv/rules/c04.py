"""C04 - object lifecycle is monotone and gates every cryptographic use."""
import ast

from ..astutil import U, dotted, walk_local, is_self_attr, call_name, short, enum_member, all_functions
from ..cfg import CFG, calls_at
from ..dataflow import node_of_expr
from ..guards import dominating_edges, cmp_parts
from ..engmodel import ENGINE, PIEOBJ
from ..engai import EngineAI, STATES
from ..source import AnalysisError

EXPLANATION = (
    "Typestate abstract interpretation of all KmipEngine handlers over the finite domains object type x lifecycle state x usage-mask bits "
    "(branch refinement on type/state/mask/hasattr/isinstance tests, helpers inlined): (R1) .state is stored only by the pie constructor and "
    "the Activate/Revoke/Destroy handlers; (R2) the extracted transition relation {(possible source states, target)} is monotone and matches "
    "the lifecycle table, COMPROMISED only under the key/CA-compromise reason code, DESTROYED* only where the row is then deleted; (R3) at every "
    "CryptographyEngine call the managed object whose value is bound to a key parameter satisfies the required (type, ACTIVE, mask bit) row; "
    "(R4) at the Destroy delete ACTIVE is excluded. Exhaustive over all syntactic paths of the handlers (disjunctive states, join at loop heads).")

RANK = {'PRE_ACTIVE': 0, 'ACTIVE': 1, 'DEACTIVATED': 2, 'COMPROMISED': 3, 'DESTROYED': 4, 'DESTROYED_COMPROMISED': 5}
LIVE = ('PRE_ACTIVE', 'ACTIVE', 'DEACTIVATED', 'COMPROMISED')
# property C04: crypto-engine key parameter -> required facts of the managed object whose value is passed
T_USE = {
    ('encrypt', 'encryption_key'): dict(types={'SYMMETRIC_KEY'}, active=True, bit='ENCRYPT'),
    ('decrypt', 'decryption_key'): dict(types={'SYMMETRIC_KEY'}, active=True, bit='DECRYPT'),
    ('sign', 'signing_key'): dict(types={'PRIVATE_KEY'}, active=True, bit='SIGN'),
    ('verify_signature', 'signing_key'): dict(types={'PUBLIC_KEY'}, active=True, bit='VERIFY'),
    ('mac', 'key'): dict(types=None, active=True, bit='MAC_GENERATE'),
    ('wrap_key', 'encryption_key'): dict(types={'SYMMETRIC_KEY'}, active=True, bit='WRAP_KEY'),
    ('derive_key', 'key_material'): dict(types=None, active=False, bit='DERIVE_KEY'),
    # the derivation data may come from the request instead of a stored object; when it is a stored object's value that object is a base object of the derivation too
    ('derive_key', 'derivation_data'): dict(types=None, active=False, bit='DERIVE_KEY', optional=True),
}
LIFECYCLE_HANDLERS = {'_process_activate': 'ACTIVATE', '_process_revoke': 'REVOKE', '_process_destroy': 'DESTROY'}


def run(ctx):
    src = ctx.src
    ai = EngineAI.shared(src)
    m = ai.m
    for rid, text in (
        ('C04.R1', '.state of a managed object is stored only by CryptographicObject.__init__ (PRE_ACTIVE) and by the Activate, Revoke and Destroy handlers'),
        ('C04.R2', 'every extracted transition (live source state -> stored target) is allowed by the lifecycle table; COMPROMISED only under the compromise reason codes; DESTROYED* only where the row is deleted afterwards'),
        ('C04.R3', 'at every CryptographyEngine call, each key parameter is the value of a loaded managed object with the required type, state ACTIVE and usage-mask bit'),
        ('C04.R4', 'the Destroy delete is reached only with ACTIVE excluded from the possible states of the loaded object'),
    ):
        ctx.rule(rid, text)
    ctx.count('handlers_interpreted', len(m.handlers), 21)
    ctx.analysed['max_disjuncts'] = max(ai.max_disjuncts.values())
    ctx.analysed['events'] = len(ai.events)

    # ---------------- R1 who writes .state (package sweep, AST) + dynamic stores seen by the interpreter
    n_st = 0
    for rel in src.modules('kmip'):
        t = src.tree(rel)
        for q, fn, cls in all_functions(t):
            for n in walk_local(fn):
                hit = None
                if isinstance(n, ast.Attribute) and n.attr == 'state' and isinstance(n.ctx, (ast.Store, ast.Del)):
                    hit = n
                elif isinstance(n, ast.Call) and call_name(n) == 'setattr' and len(n.args) >= 2 and isinstance(n.args[1], ast.Constant) and n.args[1].value == 'state':
                    hit = n
                if hit is None:
                    continue
                n_st += 1
                site = '%s:%s %s' % (rel, n.lineno, q)
                if rel == PIEOBJ and q == 'CryptographicObject.__init__' and is_self_attr(n):
                    v = n._parent.value if isinstance(n._parent, ast.Assign) else None
                    ctx.check(enum_member(v) == ('State', 'PRE_ACTIVE'), 'C04.R1', 'CryptographicObject.__init__|initial-state', site,
                              'initial state PRE_ACTIVE', 'a new cryptographic object does not start PRE_ACTIVE: %s' % U(v))
                elif rel == ENGINE and cls is not None and cls.name == 'KmipEngine' and fn.name in LIFECYCLE_HANDLERS:
                    ctx.ok('C04.R1', site, 'state stored in lifecycle handler %s' % fn.name)
                else:
                    ctx.fail('C04.R1', '%s|state-store' % q, site, 'the lifecycle state is stored outside the constructor and the Activate/Revoke/Destroy handlers')
    ctx.count('state_store_sites', n_st, 1)
    for e in ai.events:
        if e['kind'] == 'dynamic_field' and e['call'] == 'setattr':
            ctx.fail('C04.R1', 'KmipEngine.%s|dynamic-setattr' % e['fn'], '%s:%s KmipEngine.%s' % (ENGINE, e['line'], e['fn']),
                     'setattr on a managed object with a field name that is not a known constant (%s): could store .state' % e['field'])
        if e['kind'] == 'mutation' and e['field'] == 'state' and e['how'] == 'setattr':
            ctx.fail('C04.R1', 'KmipEngine.%s|setattr-state' % e['fn'], '%s:%s KmipEngine.%s' % (ENGINE, e['line'], e['fn']),
                     'setattr(<object>, "state", ...) reached via %s' % '>'.join(e['ctx']))

    # ---------------- R2 transitions
    trans = {}
    for e in ai.events:
        if e['kind'] == 'state_store':
            k = (e['fn'], e['line'], e['target'])
            trans.setdefault(k, set()).update(e['before'])
    ctx.count('transitions_extracted', len(trans), 1)
    cfgs = {}
    for (fn, line, target), before in sorted(trans.items(), key=str):
        site = '%s:%s KmipEngine.%s' % (ENGINE, line, fn)
        key = 'KmipEngine.%s|->%s' % (fn, target)
        if target is None:
            ctx.fail('C04.R2', key, site, 'the stored state is not a State constant')
            continue
        live_src = sorted(s for s in before if s in LIVE)
        bad = []
        for s in live_src:
            if target == 'ACTIVE' and s != 'PRE_ACTIVE':
                bad.append((s, target))
            elif target == 'DEACTIVATED' and s != 'ACTIVE':
                bad.append((s, target))
            elif target == 'PRE_ACTIVE':
                bad.append((s, target))
            elif RANK[target] < RANK[s]:
                bad.append((s, target))
        ctx.check(not bad, 'C04.R2', key + '|monotone', site, '%s -> %s' % (live_src or sorted(before), target),
                  'lifecycle transition(s) not allowed by the state table: %s' % bad, before=sorted(before))
        hfn = m.method(fn)
        if fn not in cfgs:
            cfgs[fn] = CFG(hfn)
        g = cfgs[fn]
        store_nodes = [n for n in g.nodes if n.kind == 'stmt' and n.line == line and isinstance(n.stmt, ast.Assign)]
        ctx.need(len(store_nodes) == 1, 'unrecognised construct: state store node at %s' % site)
        sn = store_nodes[0]
        op = LIFECYCLE_HANDLERS.get(fn)
        if target == 'ACTIVE':
            ctx.check(op == 'ACTIVATE', 'C04.R2', key + '|only-activate', site, 'ACTIVE stored by Activate', 'a handler other than Activate makes an object ACTIVE')
        if target == 'DEACTIVATED':
            ctx.check(op == 'REVOKE', 'C04.R2', key + '|only-revoke', site, 'DEACTIVATED stored by Revoke', 'a handler other than Revoke deactivates an object')
        if target == 'COMPROMISED' or (target == 'DESTROYED_COMPROMISED' and op == 'REVOKE'):
            # the reasons possible on the paths that reach this store (tracked by the interpreter through every comparison with
            # RevocationReasonCode members, wherever it sits) ...
            rsets = [e_.get('reasons') for e_ in ai.events if e_['kind'] == 'state_store' and e_['ctx'][0] == fn and e_['line'] == line and e_['target'] == target]
            comp = bool(rsets) and all(r_ is not None and set(r_) <= {'KEY_COMPROMISE', 'CA_COMPROMISE'} for r_ in rsets)
            # ... or, equivalently, a dominating test at the store itself
            for t, lab in dominating_edges(g, sn):
                p = cmp_parts(t.stmt)
                if p and p[1] in ('Is', 'Eq') and lab == 'T' and enum_member(p[2], 'RevocationReasonCode') and enum_member(p[2])[1] in ('KEY_COMPROMISE', 'CA_COMPROMISE'):
                    if 'revocation' in U(p[0]) and U(p[0]).endswith('.value'):
                        comp = True
                if p and p[1] == 'In' and lab == 'T' and isinstance(p[2], (ast.List, ast.Tuple)) and all(
                        enum_member(x, 'RevocationReasonCode') and enum_member(x)[1] in ('KEY_COMPROMISE', 'CA_COMPROMISE') for x in p[2].elts):
                    comp = True
            ctx.check(comp and op == 'REVOKE', 'C04.R2', key + '|compromise-reason', site, 'stored only under the key/CA-compromise revocation reason',
                      'an object becomes %s without the key/CA-compromise revocation reason (or outside Revoke)' % target)
        if target in ('DESTROYED', 'DESTROYED_COMPROMISED') and op != 'REVOKE':
            dels = [n for n in g.nodes for c in calls_at(n) if isinstance(c.func, ast.Attribute) and c.func.attr == 'delete']
            ok = op == 'DESTROY' and bool(dels) and g.all_paths_pass(sn, g.exit, dels)
            ctx.check(ok, 'C04.R2', key + '|row-deleted', site, 'the row is deleted on every path after the store', 'a DESTROYED* state is stored without the row being deleted afterwards')
    # the Activate guard must leave exactly PRE_ACTIVE; sources recorded above prove it (before == {PRE_ACTIVE})

    # ---------------- R3 use gating
    seen = {}
    for e in ai.events:
        if e['kind'] != 'crypto_call':
            continue
        site = '%s:%s KmipEngine.%s' % (ENGINE, e['line'], e['fn'])
        if not e['resolved']:
            ctx.fail('C04.R3', 'KmipEngine.%s|unresolved-crypto-call %s' % (e['fn'], e['method']), site, 'call of an unknown CryptographyEngine method %s' % e['method'])
            continue
        for (meth, param), req in T_USE.items():
            if meth != e['method']:
                continue
            key = 'KmipEngine.%s|%s.%s' % (e['fn'], meth, param)
            bound = e['bound'].get(param)
            facts = e['key_args'].get(param)
            if bound is None:
                seen.setdefault(key, []).append((site, False, 'key parameter %s is not passed' % param))
                continue
            if facts is None and req.get('optional'):
                seen.setdefault(key, []).append((site, True, '%s.%s <- %s (not a stored object on this path)' % (meth, param, bound)))
                continue
            if facts is None:
                seen.setdefault(key, []).append((site, False, 'key parameter %s is bound to %s, which is not the value of an access-controlled managed object' % (param, bound)))
                continue
            probs = []
            if facts['origin'] != 'loaded':
                probs.append('object origin is %s' % facts['origin'])
            if req['types'] is not None and not set(facts['types']) <= req['types']:
                probs.append('type may be %s' % sorted(set(facts['types']) - req['types']))
            if req['active'] and set(facts['states']) != {'ACTIVE'}:
                probs.append('state may be %s' % sorted(set(facts['states']) - {'ACTIVE'}))
            if req['bit'] not in facts['bits']:
                probs.append('usage-mask bit %s not established' % req['bit'])
            seen.setdefault(key, []).append((site, not probs, '%s.%s <- %s.value with %s' % (meth, param, facts['var'], {k: facts[k] for k in ('types', 'states', 'bits')})
                                             if not probs else 'cryptographic use without the required guard: %s (%s.%s <- %s.value)' % ('; '.join(probs), meth, param, facts['var'])))
    ctx.count('gated_key_parameters', len(seen), 7)
    for key, lst in sorted(seen.items()):
        bad = [x for x in lst if not x[1]]
        if bad:
            # key = 'KmipEngine.<handler>|<method>.<param>': a guard of that handler the analysis could not read is not a missing guard
            h_ = key.split('|')[0].split('.')[-1]
            if ai.unresolved.get(h_):
                raise AnalysisError('unrecognised construct: %s tests the key object against values that are not constants at that point (%s); the guards of the cryptographic use cannot be decided' % (h_, '; '.join(ai.unresolved[h_][:3])))
            ctx.fail('C04.R3', key, bad[0][0], bad[0][2])
        else:
            ctx.ok('C04.R3', lst[0][0], lst[0][2])
    methods_called = set(e['method'] for e in ai.events if e['kind'] == 'crypto_call')
    ctx.count('crypto_methods_called', len(methods_called), 9)
    # every CryptographyEngine use in engine.py was seen by the interpreter
    static_calls = [c for fn in m.methods.values() for c in walk_local(fn) if isinstance(c, ast.Call) and (call_name(c) or '').startswith('self._cryptography_engine.')]
    seen_lines = set(e['line'] for e in ai.events if e['kind'] == 'crypto_call')
    for c in static_calls:
        ctx.check(c.lineno in seen_lines, 'C04.R3', 'KmipEngine|crypto-call-reached %s' % call_name(c), '%s:%s' % (ENGINE, c.lineno),
                  'call analysed', 'a CryptographyEngine call is not reached by the handler analysis (called from outside the dispatch table?)')
    others = [n for fn in m.methods.values() for n in walk_local(fn) if is_self_attr(n, '_cryptography_engine') and not (isinstance(n._parent, ast.Attribute) and isinstance(n._parent._parent, ast.Call))
              and not isinstance(n.ctx, ast.Store)]
    ctx.check(not others, 'C04.R3', 'KmipEngine|crypto-engine-escapes', ENGINE, 'the crypto engine is only used by direct method calls', 'the crypto engine object is aliased or passed on: lines %s' % [o.lineno for o in others])

    # ---------------- R4 Destroy guard
    dels = [e for e in ai.events if e['kind'] == 'delete']
    ctx.count('delete_events', len(dels))
    agg = {}
    for e in dels:
        for var, o in e['loaded'].items():
            agg.setdefault((e['fn'], e['line']), {'states': set(), 'ops': set(), 'typed_states': set()})
            a = agg[(e['fn'], e['line'])]
            has_state = [t for t in o['types'] if 'state' in ai.fields[t]]
            if has_state:
                a['states'] |= set(o['states'])
            a['ops'].add(o['op'])
        if not e['loaded']:
            agg.setdefault((e['fn'], e['line']), {'states': set(STATES), 'ops': {None}})
    for (fn, line), a in sorted(agg.items()):
        site = '%s:%s KmipEngine.%s' % (ENGINE, line, fn)
        ctx.check('ACTIVE' not in a['states'] and a['ops'] == {'DESTROY'}, 'C04.R4', 'KmipEngine.%s|delete-not-active' % fn, site,
                  'row deleted only when the object (loaded under DESTROY) cannot be ACTIVE; possible states %s' % sorted(a['states']),
                  'an object that may be ACTIVE (or was not loaded under Operation.DESTROY) can be deleted; states %s, ops %s' % (sorted(a['states']), sorted(map(str, a['ops']))))
    if ai.bounds_hit:
        raise AnalysisError('analysis bound hit: %s' % ai.bounds_hit[:3])
    # ---------------- C04.R5 (lifted from C09)
    ctx.rule('C04.R5', 'a lifecycle change is durable: every normal return of Activate, Revoke and Destroy that stored a state (or deleted the row) is reached after the commit, on every path (lifted from C09.R2): a state that is only set in memory is gone with the request, so a revoked or compromised key would be usable again')
    from ..report import Ctx as _LCtx
    from . import c09 as _lsrc
    _sub = _LCtx('C09', 'quick', ctx.src, 0)
    from ..report import run_lifted as _run_lifted
    _run_lifted(ctx, _lsrc, _sub)
    _lifted = [f for f in _sub.findings if f.rule == 'C09.R2' and any(h in f.key for h in ('_process_activate', '_process_revoke', '_process_destroy'))]
    for f in _lifted:
        ctx.fail('C04.R5', f.key, f.site, f.message)
    if not _lifted:
        ctx.ok('C04.R5', 'kmip/services/server/engine.py', 'every state store / delete of the three lifecycle handlers is committed before the handler returns')
    # ---------------- R9 a state change that is refused is not made (lifted from C08.R3)
    ctx.rule('C04.R7', 'a lifecycle change happens entirely or not at all: in a handler that stores a state (Activate, Revoke) no raise is reachable while the stored object carries an uncommitted change (lifted from C08.R3): the batch keeps one database session and never rolls back, so the state assigned before a refusal (e.g. Revoke rejecting a compromise date after it set the state) is seen by the following items - Destroy then accepts an object that is still Active in the store - and is written out by the next commit although the item reported failure')
    _store_roots = {e['ctx'][0] for e in ai.events if e['kind'] == 'state_store'}
    _bad9 = {}
    for e in ai.events:
        if e['kind'] == 'raise' and e['ctx'][0] in _store_roots and not e['in_handler'] and (set(e['state']['dirty']) & {'loaded', 'mixed', 'unknown'}):
            _bad9.setdefault((e['ctx'][0], e['fn'], e['exc']), e)
    for (root9, fn9, exc9), e in sorted(_bad9.items(), key=str):
        ctx.fail('C04.R7', 'KmipEngine.%s|raise %s with a state change pending|via %s' % (fn9, exc9, root9), '%s:%s KmipEngine.%s' % (ENGINE, e['line'], fn9),
                 '%s is raised in %s while the loaded object carries an uncommitted change (its state was assigned on this path): the refusal leaves the new state in the session of the batch' % (exc9, root9))
    if not _bad9:
        ctx.ok('C04.R7', ENGINE, 'no raise after a state store and before its commit in %s' % sorted(_store_roots))
    # ---------------- R6 (lifted from C05.R3) the mask the guards test is exactly the stored one
    ctx.rule('C04.R6', 'the usage mask that the use guards test is exactly the set of flags whose bit is set in the stored integer (UsageMaskType.process_result_value, lifted from C05.R3): a decoder that widens the mask would let every use guard pass')
    from ..report import Ctx as _LCtx2
    from . import c05 as _c05
    _sub2 = _LCtx2('C05', 'quick', ctx.src, 0)
    from ..report import run_lifted as _run_lifted
    _run_lifted(ctx, _c05, _sub2)
    _l2 = [f for f in _sub2.findings if f.rule == 'C05.R3' and 'UsageMaskType' in f.key]
    for f in _l2:
        ctx.fail('C04.R6', f.key, f.site, f.message)
    if not _l2:
        ctx.ok('C04.R6', 'kmip/pie/sqltypes.py UsageMaskType', 'bind ORs the flags, result enumerates exactly the set bits')
    ctx.not_decided += ['that the crypto engine uses no key other than those passed (C06 provenance)', 'state of objects after a server restart (stored column value, C05/C09)']
    ctx.assumptions += ['destroyed rows are deleted, so DESTROYED* are not live source states (C07.R3)', 'State and CryptographicUsageMask constants are compared by identity/equality as enum members']
