"""C17 - no request is evaluated before the client's identity is established."""
import ast

from ..astutil import (walk_flat, U, dotted, get_class, get_method, get_function, methods, walk_local, is_self_attr, call_name, short,
                       enum_member, params)
from ..cfg import CFG, calls_at
from ..dataflow import ReachingDefs
from ..guards import (call_nodes, dominating_edges, required_edge_from, edge_successors, cmp_parts, is_none_test,
                      handler_catches)
from ..engmodel import EngineModel, SESSION
from ..source import AnalysisError
from .c10 import transitive_effects

AUTH_UTILS = 'kmip/services/server/auth/utils.py'
SLUGS = 'kmip/services/server/auth/slugs.py'

EXPLANATION = (
    "CFG dominance and reaching-definition analysis of KmipSession._handle_message_loop, KmipSession.authenticate, "
    "auth.utils and the SLUGS connector: the single process_request call is dominated by the certificate-present test, "
    "(under enable_tls_client_auth) the EKU-present and clientAuth-membership tests, and the normal completion of "
    "authenticate(certificate, request); its identity argument is exactly authenticate's result; authenticate returns only a "
    "plugin's verdict or, with no plugin enabled, the single certificate common name; failure arms build "
    "AUTHENTICATION_NOT_SUCCESSFUL through an engine method whose effect set touches no request or store state.")


def single_def_call(rd, node, var, callee):
    """var at node is defined only by `var = <callee>(...)`; returns that Call or None."""
    vals = rd.values(node, var)
    if len(vals) != 1 or not isinstance(vals[0], ast.Call):
        return None
    if call_name(vals[0]) != callee:
        return None
    return vals[0]


def check_call(ctx, src, g, rd, prn, prc, an, ac, tag):
    site = '%s:%s KmipSession._handle_message_loop' % (SESSION, prc.lineno)
    ctx.need(len(ac.args) == 2 and all(isinstance(a, ast.Name) for a in ac.args) and not ac.keywords,
             'unrecognised construct: authenticate call arguments %s' % U(ac))
    certvar, reqvar = ac.args[0].id, ac.args[1].id
    cdef = single_def_call(rd, an, certvar, 'auth.get_certificate_from_connection')
    ctx.check(cdef is not None and len(cdef.args) == 1 and dotted(cdef.args[0]) == 'self._connection',
              'C17.R1', 'KmipSession._handle_message_loop' + tag + '|certificate-provenance', site,
              'certificate passed to authenticate is get_certificate_from_connection(self._connection)',
              'certificate passed to authenticate has other definitions: %s' % [short(v) if isinstance(v, ast.AST) else v for v in rd.values(an, certvar)])
    # authenticate completes normally before process_request
    ctx.check(g.dominates(an, prn) and not any(l == 'exc' and prn.id in g.reachable(m, [an]) for m, l in an.succ),
              'C17.R1', 'KmipSession._handle_message_loop' + tag + '|authenticate-dominates', site,
              'authenticate(certificate, request) dominates process_request; its exception edge cannot reach it',
              'process_request is reachable without a normally completed authenticate call')
    # request variable: the one parsed
    reads = [(n, c) for n, c in call_nodes(g, reqvar + '.read')]
    ctx.need(len(reads) == 1, 'unrecognised construct: expected one %s.read call' % reqvar)
    ctx.check(isinstance(prc.args[0], ast.Name) and prc.args[0].id == reqvar and len(rd.reaching(prn, reqvar)) == 1,
              'C17.R1', 'KmipSession._handle_message_loop' + tag + '|request-identity', site,
              'the request processed is the one authenticated and parsed (%s)' % reqvar,
              'process_request is called with a different request object than the one authenticated')

    dom_edges = dominating_edges(g, prn)
    dom_desc = [(U(t.stmt), lab) for t, lab in dom_edges]
    # (a) certificate is None -> false edge
    ok_a = False
    for t, lab in dom_edges:
        nt = is_none_test(t.stmt)
        if nt and isinstance(nt[1], ast.Name) and nt[1].id == certvar:
            if (nt[0] == 'is' and lab == 'F') or (nt[0] == 'isnot' and lab == 'T'):
                ok_a = True
        if isinstance(t.stmt, ast.Name) and t.stmt.id == certvar and lab == 'T':
            ok_a = True
    ctx.check(ok_a, 'C17.R1', 'KmipSession._handle_message_loop' + tag + '|certificate-present-guard', site,
              'dominated by `%s is None` false edge' % certvar,
              'process_request is not dominated by a certificate-present test; dominating guards: %s' % dom_desc)

    # (b) EKU checks under the enable flag
    flag_tests = [n for n in g.nodes if n.kind == 'test' and is_self_attr(n.stmt, '_enable_tls_client_auth')]
    ctx.need(len(flag_tests) == 1, 'unrecognised construct: expected one test of self._enable_tls_client_auth, found %d' % len(flag_tests))
    ft = flag_tests[0]
    ctx.check(g.dominates(ft, prn), 'C17.R1', 'KmipSession._handle_message_loop' + tag + '|eku-flag-test-dominates', site,
              'the enable_tls_client_auth test dominates process_request', 'the enable_tls_client_auth test can be bypassed')
    starts = edge_successors(ft, 'T')
    ext_tests = []
    for n in g.nodes:
        if n.kind != 'test':
            continue
        nt = is_none_test(n.stmt)
        if nt and isinstance(nt[1], ast.Name):
            d = single_def_call(rd, n, nt[1].id, 'auth.get_extended_key_usage_from_certificate')
            if d is not None and len(d.args) == 1 and isinstance(d.args[0], ast.Name) and d.args[0].id == certvar:
                ext_tests.append(('none', n, 'F' if nt[0] == 'is' else 'T', nt[1].id))
        p = cmp_parts(n.stmt)
        if p and p[1] in ('In', 'NotIn') and isinstance(p[2], ast.Name) and (dotted(p[0]) or '').endswith('ExtendedKeyUsageOID.CLIENT_AUTH'):
            d = single_def_call(rd, n, p[2].id, 'auth.get_extended_key_usage_from_certificate')
            if d is not None and isinstance(d.args[0], ast.Name) and d.args[0].id == certvar:
                ext_tests.append(('member', n, 'F' if p[1] == 'NotIn' else 'T', p[2].id))
    for kind in ('none', 'member'):
        cands = [e for e in ext_tests if e[0] == kind]
        good = any(all(required_edge_from(g, s, n, lab, prn) for s in starts) for _, n, lab, _ in cands) and bool(starts)
        ctx.check(good, 'C17.R1', 'KmipSession._handle_message_loop' + tag + '|eku-%s-guard' % kind, site,
                  'with client-auth checking enabled every path passes the EKU %s test' % ('present' if kind == 'none' else 'clientAuth membership'),
                  'with _enable_tls_client_auth true, process_request is reachable without passing the EKU %s test'
                  % ('presence' if kind == 'none' else 'CLIENT_AUTH membership'))
    # supporting: what the EKU helper returns
    ut = src.tree(AUTH_UTILS)
    eku = get_function(ut, 'get_extended_key_usage_from_certificate')
    eku_src = [n for n in ast.walk(eku) if isinstance(n, ast.Attribute) and (dotted(n) or '').endswith('ExtensionOID.EXTENDED_KEY_USAGE')]
    rets = [n for n in ast.walk(eku) if isinstance(n, ast.Return)]
    ok_eku = bool(eku_src) and all((isinstance(r.value, ast.Constant) and r.value.value is None) or
                                   (isinstance(r.value, ast.Attribute) and r.value.attr == 'value') for r in rets)
    ctx.check(ok_eku, 'C17.R1', 'get_extended_key_usage_from_certificate|returns-eku-or-none', '%s:%s' % (AUTH_UTILS, eku.lineno),
              'returns the EXTENDED_KEY_USAGE extension value or None', 'helper does not return the extendedKeyUsage extension value / None')

    # -- R2 identity argument
    idarg = prc.args[1] if len(prc.args) > 1 else None
    for k in prc.keywords:
        if k.arg == 'credential':
            idarg = k.value
    ap = getattr(ac, '_parent', None)
    idvar = None
    if isinstance(ap, ast.Assign) and len(ap.targets) == 1 and isinstance(ap.targets[0], ast.Name):
        idvar = ap.targets[0].id
    defs = rd.reaching(prn, idarg.id) if isinstance(idarg, ast.Name) else []
    ctx.check(isinstance(idarg, ast.Name) and idarg.id == idvar and len(defs) == 1 and defs[0][1] is ac,
              'C17.R2', 'KmipSession._handle_message_loop' + tag + '|identity-argument', site,
              'identity argument `%s` has exactly one reaching definition: the authenticate call' % idvar,
              'identity handed to process_request (%s) is not exactly the authenticate result' % U(idarg))




def session_connector_memo(cls, fn, rd, expr):
    """expr reads self.<table>.get(k) / self.<table>[k] where <table> is created empty in the session's own __init__ (not handed in) and everything the
    class stores into it is an auth.<...> connector built on the spot"""
    tab = None
    if isinstance(expr, ast.Call) and isinstance(expr.func, ast.Attribute) and expr.func.attr == 'get' and is_self_attr(expr.func.value):
        tab = expr.func.value.attr
    elif isinstance(expr, ast.Subscript) and is_self_attr(expr.value):
        tab = expr.value.attr
    if tab is None:
        return False
    init = methods(cls).get('__init__')
    if init is None:
        return False
    inits = [a.value for a in walk_local(init) if isinstance(a, ast.Assign) and len(a.targets) == 1 and is_self_attr(a.targets[0], tab)]
    if len(inits) != 1 or not ((isinstance(inits[0], ast.Dict) and not inits[0].keys) or (isinstance(inits[0], ast.Call) and call_name(inits[0]) == 'dict' and not inits[0].args and not inits[0].keywords)):
        return False
    from ..cfg import CFG as _CFG
    from ..dataflow import ReachingDefs as _RD, node_of_expr as _noe
    n_st = 0
    for m_ in methods(cls).values():
        if m_ is init:
            continue
        g_ = rd_ = None
        for a in walk_local(m_):
            stores = isinstance(a, ast.Assign) and len(a.targets) == 1 and isinstance(a.targets[0], ast.Subscript) and is_self_attr(a.targets[0].value, tab)
            rebinding = isinstance(a, ast.Assign) and any(is_self_attr(t_, tab) for t_ in a.targets)
            mutating = isinstance(a, ast.Expr) and isinstance(a.value, ast.Call) and isinstance(a.value.func, ast.Attribute) and is_self_attr(a.value.func.value, tab) and a.value.func.attr in ('update', 'setdefault', 'pop', 'clear')
            if rebinding or mutating:
                return False
            if not stores:
                continue
            n_st += 1
            v = a.value
            if isinstance(v, ast.Name):
                if g_ is None:
                    g_ = _CFG(m_)
                    rd_ = _RD(g_)
                nd = _noe(g_, a)
                vals = rd_.values(nd, v.id) if nd is not None else []
            else:
                vals = [v]
            if not vals or not all(isinstance(x, ast.Call) and (call_name(x) or '').startswith('auth.') and (call_name(x) or '').endswith('Connector') for x in vals):
                return False
    return n_st > 0

def run(ctx):
    src = ctx.src
    st = src.tree(SESSION)
    sc = get_class(st, 'KmipSession')
    loop = get_method(sc, '_handle_message_loop')
    g = CFG(loop)
    rd = ReachingDefs(g)
    ctx.rule('C17.R1', 'the process_request call is dominated by: certificate-is-None false edge; under _enable_tls_client_auth the '
                       'extension-is-None and CLIENT_AUTH-not-in-extension false edges; normal completion of self.authenticate(certificate, request)')
    ctx.rule('C17.R2', "process_request's identity argument is the variable assigned from that authenticate call, with no other reaching definition")
    ctx.rule('C17.R3', 'KmipSession.authenticate returns only plugin.authenticate(certificate, ...) results or, under `not plugin_enabled`, '
                       '(get_client_identity_from_certificate(certificate), None); every other path raises')
    ctx.rule('C17.R4', 'get_client_identity_from_certificate returns client_ids[0] only when exactly one common name exists; the SLUGS connector '
                       'derives the user from the same function and returns only after both lookups passed their 404 tests')
    ctx.rule('C17.R5', 'authentication failure arms build AUTHENTICATION_NOT_SUCCESSFUL via build_error_response, call nothing else on the engine, '
                       'and build_error_response touches no per-request field and no store')

    prs = call_nodes(g, 'self._engine.process_request')
    ctx.need(len(prs) >= 1, 'anchor vanished: no self._engine.process_request call in _handle_message_loop')
    ctx.count('cfg_nodes_message_loop', len(g.nodes), 40)
    ctx.count('process_request_calls', len(prs), 1)
    other = [n for n in walk_flat(st, loop) if isinstance(n, ast.Attribute) and n.attr in ('process_request', '_process_batch', '_process_operation')
             and not any(n is c.func for _, c in prs)]
    ctx.check(not other, 'C17.R1', 'KmipSession|extra-engine-processing-use', '%s KmipSession' % SESSION, 'engine request processing is used only through direct self._engine.process_request calls',
              'request processing is reachable from another site: %s' % [(o.lineno, U(o)) for o in other])
    auths = call_nodes(g, 'self.authenticate')
    ctx.need(len(auths) == 1, 'unrecognised construct: expected exactly one self.authenticate call, found %d' % len(auths))
    an, ac = auths[0]
    for i, (prn, prc) in enumerate(prs):
        check_call(ctx, src, g, rd, prn, prc, an, ac, '' if i == 0 else '#%d' % (i + 1))

    # -- R3 authenticate()
    af = get_method(sc, 'authenticate')
    ag = CFG(af)
    ard = ReachingDefs(ag)
    aps = params(af)
    ctx.need(len(aps) >= 2, 'unrecognised construct: authenticate signature')
    acert = aps[0]
    asite = '%s:%s KmipSession.authenticate' % (SESSION, af.lineno)
    # path-sensitive: which returns can be reached on a path that built a plugin connector (auth.<X>Connector(...)) - whatever the spelling
    # of the bookkeeping (a flag set to True, a list of the plugins tried, early raise ...); constants, flags, appended-to lists and
    # repeated tests of one local are followed along each path, everything else is left open
    from ..pathsim import Sim

    def builds_connector(node, c):
        """auth.<X>Connector(...), or v(...) where every definition of the local v that reaches the call is auth.<X>Connector or None
        (a connector class taken out of a table of supported plugins)"""
        cn_ = call_name(c) or ''
        if cn_.startswith('auth.') and cn_.endswith('Connector'):
            return True
        if isinstance(c.func, ast.Name):
            vals_ = list(ard.values(node, c.func.id))
            classes_ = [v for v in vals_ if isinstance(v, ast.AST) and (dotted(v) or '').startswith('auth.') and (dotted(v) or '').endswith('Connector')]
            others_ = [v for v in vals_ if v not in classes_ and not (isinstance(v, ast.Constant) and v.value is None)]
            return bool(classes_) and not others_
        return False

    def mark_plugin(sim, node, env):
        for c in calls_at(node):
            if builds_connector(node, c):
                env['#plugin'] = ('c', True)
    sim = Sim(ag, hook=mark_plugin)
    ret_nodes = [pn for pn, lab in ag.exit.pred]
    n_plugin_sites = sum(1 for n in ag.nodes for c in calls_at(n) if builds_connector(n, c))
    ctx.count('plugin_construction_sites', n_plugin_sites, 1)
    cn_returns_after_plugin = set()
    for stop, lab, env in sim.run([ag.entry], ret_nodes):
        if env.get('#plugin') == ('c', True):
            cn_returns_after_plugin.add(stop.id)
    n_ret = 0
    for pn, lab in ag.exit.pred:
        n_ret += 1
        s = pn.stmt
        rsite = '%s:%s KmipSession.authenticate' % (SESSION, getattr(s, 'lineno', af.lineno))
        if not isinstance(s, ast.Return) or s.value is None:
            ctx.fail('C17.R3', 'KmipSession.authenticate|falls-off-or-bare-return', rsite,
                     'authenticate can finish without raising or returning an established identity')
            continue
        v = s.value
        ok = False
        why = ''
        en = pn          # node at which the returned expression is evaluated
        if isinstance(v, ast.Name):
            from ..dataflow import resolve
            rv_, rn_ = resolve(ard, pn, v)
            if isinstance(rv_, ast.Tuple) or (isinstance(rv_, ast.Call) and call_name(rv_) == 'tuple'):
                v, en = rv_, rn_
        if isinstance(v, ast.Name):
            vals = ard.values(pn, v.id)
            if len(vals) == 1 and isinstance(vals[0], ast.Call) and isinstance(vals[0].func, ast.Attribute) and vals[0].func.attr == 'authenticate':
                c = vals[0]
                recv = c.func.value
                rv = ard.values(ard.g.nodes[[d for d in ard.reaching(pn, v.id)][0][2].id], recv.id) if isinstance(recv, ast.Name) else []
                # a connector kept in a per-session memo table (self.<table>[url] = auth.<X>Connector(url), table created empty by this session) is the connector it was built as
                memo_reads = [x for x in rv if session_connector_memo(sc, af, ard, x)]
                rv = [x for x in rv if x not in memo_reads]
                recv_def_nodes = [d_[2] for d_ in ard.reaching(ard.g.nodes[[d for d in ard.reaching(pn, v.id)][0][2].id], recv.id)] if isinstance(recv, ast.Name) else []
                plug = [x for x in rv if isinstance(x, ast.Call) and ((call_name(x) or '').startswith('auth.')
                                                                      or any(dn_ is not None and builds_connector(dn_, x) for dn_ in recv_def_nodes))]
                first = c.args[0] if c.args else None
                for k in c.keywords:
                    if k.arg == 'connection_certificate':
                        first = k.value
                defnode = ard.reaching(pn, v.id)[0][2]
                in_try_body = bool(defnode.tries)
                ret_in_same_try_body = any(t in pn.tries for t in defnode.tries[-1:])
                if (len(rv) == 1 and len(plug) == 1 and isinstance(first, ast.Name) and first.id == acert
                        and len(ard.reaching(defnode, acert)) == 1 and ard.reaching(defnode, acert)[0][2] is None):
                    # the return must be reached only when the plugin call completed normally
                    ok = ag.dominates(defnode, pn) and not any(l == 'exc' and pn.id in ag.reachable(m, [defnode]) for m, l in defnode.succ)
                    why = 'plugin verdict'
        else:
            # tuple([x, None]) / (x, None)
            elts = None
            if isinstance(v, ast.Tuple):
                elts = v.elts
            elif isinstance(v, ast.Call) and call_name(v) == 'tuple' and len(v.args) == 1 and isinstance(v.args[0], (ast.List, ast.Tuple)):
                elts = v.args[0].elts
            if elts and len(elts) == 2 and isinstance(elts[0], ast.Name) and isinstance(elts[1], ast.Constant) and elts[1].value is None:
                d = single_def_call(ard, en, elts[0].id, 'auth.get_client_identity_from_certificate')
                if d is not None and len(d.args) == 1 and isinstance(d.args[0], ast.Name) and d.args[0].id == acert:
                    defnode = ard.reaching(en, elts[0].id)[0][2]
                    no_exc = not any(l == 'exc' and pn.id in ag.reachable(m, [defnode]) for m, l in defnode.succ)
                    # only when no plugin was consulted: no path from the entry that builds an authentication plugin reaches this return
                    flag_ok = pn.id not in cn_returns_after_plugin
                    ok = no_exc and flag_ok and ag.dominates(defnode, pn)
                    why = 'certificate CN under not-plugin-enabled'
        ctx.check(ok, 'C17.R3', 'KmipSession.authenticate|return %s' % short(v, 50), rsite,
                  'return of %s' % why, 'authenticate returns an identity that is neither a plugin verdict nor the certificate CN with no plugin enabled: %s' % short(s))
    ctx.count('authenticate_returns', n_ret, 2)
    # -- R4 identity extraction
    ut = src.tree(AUTH_UTILS)
    cif = get_function(ut, 'get_client_identity_from_certificate')
    cg = CFG(cif)
    crd = ReachingDefs(cg)
    cparam = params(cif, skip_self=False)[0]
    n_ret = 0
    for pn, lab in cg.exit.pred:
        n_ret += 1
        s = pn.stmt
        rsite = '%s:%s get_client_identity_from_certificate' % (AUTH_UTILS, getattr(s, 'lineno', cif.lineno))
        ok = False
        if isinstance(s, ast.Return) and isinstance(s.value, ast.Subscript) and isinstance(s.value.value, ast.Name) \
                and isinstance(s.value.slice, ast.Constant) and s.value.slice.value == 0:
            lv = s.value.value.id
            d = single_def_call(crd, pn, lv, 'get_common_names_from_certificate')
            if d is not None and len(d.args) == 1 and isinstance(d.args[0], ast.Name) and d.args[0].id == cparam:
                lo = hi = False
                for t, lab2 in dominating_edges(cg, pn):
                    p = cmp_parts(t.stmt)
                    if not p or not (isinstance(p[0], ast.Call) and call_name(p[0]) == 'len' and isinstance(p[0].args[0], ast.Name)
                                     and p[0].args[0].id == lv and isinstance(p[2], ast.Constant)):
                        continue
                    op, k = p[1], p[2].value
                    if (op, k, lab2) in (('Gt', 0, 'T'), ('GtE', 1, 'T'), ('Eq', 0, 'F'), ('NotEq', 0, 'T'), ('Lt', 1, 'F')):
                        lo = True
                    if (op, k, lab2) in (('Gt', 1, 'F'), ('GtE', 2, 'F'), ('LtE', 1, 'T'), ('Lt', 2, 'T')):
                        hi = True
                    if (op, k, lab2) in (('Eq', 1, 'T'), ('NotEq', 1, 'F')):
                        lo = hi = True
                ok = lo and hi
        ctx.check(ok, 'C17.R4', 'get_client_identity_from_certificate|return', rsite,
                  'returns client_ids[0] only under len>0 and not len>1', 'identity is returned without establishing exactly one common name: %s' % short(s))
    ctx.count('identity_returns', n_ret, 1)
    cn = get_function(ut, 'get_common_names_from_certificate')
    oids = [n for n in ast.walk(cn) if isinstance(n, ast.Attribute) and (dotted(n) or '').endswith('NameOID.COMMON_NAME')]
    others = [n for n in ast.walk(cn) if isinstance(n, ast.Attribute) and 'NameOID.' in (dotted(n) or '') and not (dotted(n) or '').endswith('NameOID.COMMON_NAME')]
    ctx.check(bool(oids) and not others, 'C17.R4', 'get_common_names_from_certificate|oid', '%s:%s' % (AUTH_UTILS, cn.lineno),
              'common names come from the subject attributes for NameOID.COMMON_NAME', 'common names are not taken from NameOID.COMMON_NAME')
    # every common name is reported: the list is built from the whole subject, nothing is selected, indexed or cut
    cparam = params(cn, skip_self=False)[0] if cn.args.args else None
    gcalls = [c for c in ast.walk(cn) if isinstance(c, ast.Call) and isinstance(c.func, ast.Attribute) and c.func.attr == 'get_attributes_for_oid']
    whole = [c for c in gcalls if isinstance(c.func.value, ast.Attribute) and c.func.value.attr == 'subject' and isinstance(c.func.value.value, ast.Name) and c.func.value.value.id == cparam]
    def _guards_param_only(x):
        # an `if` that only looks at the certificate parameter itself (e.g. `if certificate is None: return []`) selects nothing
        names = set(y.id for y in ast.walk(x.test) if isinstance(y, ast.Name))
        return names <= {cparam}
    cuts = [x for x in ast.walk(cn) if (isinstance(x, ast.Subscript) and not isinstance(x.ctx, ast.Store)) or (isinstance(x, ast.comprehension) and x.ifs) or isinstance(x, ast.Break)
            or (isinstance(x, (ast.If, ast.IfExp)) and not _guards_param_only(x))
            or (isinstance(x, ast.Call) and call_name(x) in ('next', 'set', 'min', 'max', 'sorted'))]
    ctx.check(len(gcalls) == 1 and len(whole) == 1 and not cuts, 'C17.R4', 'get_common_names_from_certificate|all-common-names', '%s:%s' % (AUTH_UTILS, cn.lineno),
              'the list holds the value of every commonName attribute of the whole subject (one query on certificate.subject, no selection)',
              'the common-name list is not the complete list of commonName attributes of the subject (query on %s; selecting constructs at lines %s): a certificate with several common names - e.g. in one multi-valued RDN - can be reported as having one, and the exactly-one-name test passes' % (
                  [U(c.func.value) for c in gcalls], sorted(set(getattr(x, 'lineno', 0) for x in cuts))))
    # SLUGS
    stree = src.tree(SLUGS)
    slc = get_class(stree, 'SLUGSConnector')
    sa = get_method(slc, 'authenticate')
    sg = CFG(sa)
    srd = ReachingDefs(sg)
    sparam = params(sa)[0]
    for pn, lab in sg.exit.pred:
        s = pn.stmt
        rsite = '%s:%s SLUGSConnector.authenticate' % (SLUGS, getattr(s, 'lineno', sa.lineno))
        ok = False
        if isinstance(s, ast.Return) and isinstance(s.value, ast.Tuple) and len(s.value.elts) == 2 and isinstance(s.value.elts[0], ast.Name):
            d = single_def_call(srd, pn, s.value.elts[0].id, 'utils.get_client_identity_from_certificate')
            if d is not None and isinstance(d.args[0], ast.Name) and d.args[0].id == sparam:
                n404 = 0
                for t, lab2 in dominating_edges(sg, pn):
                    p = cmp_parts(t.stmt)
                    if p and isinstance(p[0], ast.Attribute) and p[0].attr == 'status_code' and isinstance(p[2], ast.Constant) and p[2].value == 404:
                        if (p[1], lab2) in (('Eq', 'F'), ('NotEq', 'T')):
                            n404 += 1
                ok = n404 >= 2
                # each 404 test looks at the response of its own lookup: one reaching definition each, two different requests.get calls (users, groups)
                calls404 = []
                for t, lab2 in dominating_edges(sg, pn):
                    p = cmp_parts(t.stmt)
                    if p and isinstance(p[0], ast.Attribute) and p[0].attr == 'status_code' and isinstance(p[0].value, ast.Name):
                        ds = srd.reaching(t, p[0].value.id)
                        if len(ds) != 1 or not (isinstance(ds[0][1], ast.Call) and (call_name(ds[0][1]) or '').endswith('requests.get')):
                            ok = False
                        else:
                            calls404.append(id(ds[0][1]))
                ok = ok and len(set(calls404)) >= 2
                # the groups come from the response that passed the second test
                gv = s.value.elts[1]
                gsrc, gnode = gv, pn
                from ..dataflow import resolve as _res
                gsrc, gnode = _res(srd, pn, gv)
                roots = [x for x in ast.walk(gsrc) if isinstance(x, ast.Name)]
                for rname in roots:
                    ds = srd.reaching(gnode, rname.id)
                    if len(ds) != 1 or not (isinstance(ds[0][1], ast.Call) and id(ds[0][1]) in calls404):
                        ok = False
        ctx.check(ok, 'C17.R4', 'SLUGSConnector.authenticate|return', rsite,
                  'returns (certificate CN, groups) only after the user and group lookups passed their 404 tests',
                  'SLUGS connector returns an identity without both lookups succeeding / not derived from the certificate: %s' % short(s))

    # no failure of a lookup is swallowed: every except arm of SLUGSConnector.authenticate ends in a raise
    for h in [n for n in sg.nodes if n.kind == 'handler']:
        body_nodes = [n for n in sg.nodes if h.stmt in n.handlers]
        leaves = [n for n in body_nodes + [h] if any(m_ not in body_nodes and m_ is not sg.raise_exit and l_ != 'exc' for m_, l_ in n.succ)]
        ctx.check(not leaves, 'C17.R4', 'SLUGSConnector.authenticate|except %s raises' % ','.join(handler_catches(h.stmt)), '%s:%s SLUGSConnector.authenticate' % (SLUGS, h.stmt.lineno),
                  'the arm ends in a raise', 'an except arm of the SLUGS connector completes normally: a failed lookup (connection dropped, non-JSON body) no longer fails the authentication and the method goes on to return an identity')
    # -- R5 failure arms
    m = EngineModel(src)
    te = transitive_effects(m)
    per_req = m.per_request_fields()
    r, w, reach = te['build_error_response']
    ber = m.methods['build_error_response']
    touched = sorted((r | w) & (per_req | {'_data_store', '_data_store_session_factory', '_operation_policies'}))
    ctx.check(not touched, 'C17.R5', 'KmipEngine.build_error_response|effects', m.site(ber, ber),
              'build_error_response transitively touches only %s' % sorted(r | w), 'build_error_response touches request/store state: %s' % touched)
    n_arms = 0
    for h in [n for n in g.nodes if n.kind == 'handler']:
        # handlers that can be entered before authentication completed: the try containing the certificate checks, and the authenticate try
        trystmt = h.stmt._parent
        body_nodes = [n for n in g.nodes if trystmt in n.tries]
        pre_auth = any(n is an for n in body_nodes) or any(c for n in body_nodes for c in calls_at(n) if call_name(c) == 'auth.get_certificate_from_connection')
        if not pre_auth:
            continue
        catches = handler_catches(h.stmt)
        hs = '%s:%s KmipSession._handle_message_loop except %s' % (SESSION, h.stmt.lineno, ','.join(catches))
        engine_calls = [c for s in h.stmt.body for c in ast.walk(s) if isinstance(c, ast.Call) and (call_name(c) or '').startswith('self._engine.')]
        reasons = [enum_member(c.args[1]) for c in engine_calls if call_name(c) == 'self._engine.build_error_response' and len(c.args) >= 2]
        only_ber = all(call_name(c) == 'self._engine.build_error_response' for c in engine_calls) and len(engine_calls) == 1
        auth_fail_arm = ('exceptions.PermissionDenied' in catches) or any(n is an for n in body_nodes)
        n_arms += 1
        ctx.check(only_ber, 'C17.R5', 'KmipSession._handle_message_loop|except %s|engine-calls' % ','.join(catches), hs,
                  'failure arm only builds an error response', 'failure arm calls the engine beyond build_error_response: %s' % [U(c.func) for c in engine_calls])
        if auth_fail_arm:
            ctx.check(reasons == [('ResultReason', 'AUTHENTICATION_NOT_SUCCESSFUL')], 'C17.R5',
                      'KmipSession._handle_message_loop|except %s|reason' % ','.join(catches), hs,
                      'authentication failure yields AUTHENTICATION_NOT_SUCCESSFUL', 'authentication failure arm answers with %s' % reasons)
    ctx.count('pre_authentication_failure_arms', n_arms, 3)
    # the certificate/EKU failures must be raised as PermissionDenied so that they reach the authentication arm
    for n in g.nodes:
        if n.kind == 'stmt' and isinstance(n.stmt, ast.Raise) and n.tries and any(c for x in g.nodes if n.tries[-1] in x.tries for c in calls_at(x) if call_name(c) == 'auth.get_certificate_from_connection'):
            exc = n.stmt.exc
            nm = call_name(exc) if isinstance(exc, ast.Call) else dotted(exc)
            ctx.check(nm == 'exceptions.PermissionDenied', 'C17.R5', 'KmipSession._handle_message_loop|raise %s' % nm,
                      '%s:%s' % (SESSION, n.stmt.lineno), 'certificate failure raised as PermissionDenied',
                      'certificate failure raised as %s does not reach the authentication-failure arm' % nm)

    # -- R6 configuration plumbing of the two authentication settings
    ctx.rule('C17.R6', 'the enable_tls_client_auth flag and the plugin list reach the session unchanged: config default True / None->True / bool stored as '
                       'given; server passes settings[enable_tls_client_auth] and settings[auth_plugins]; the session stores its constructor parameters')
    init = get_method(sc, '__init__')
    stores = {}
    for n in walk_local(init):
        if isinstance(n, ast.Assign) and len(n.targets) == 1 and is_self_attr(n.targets[0]):
            stores.setdefault(n.targets[0].attr, []).append(n.value)
    all_stores = {}
    for q, fn in ((k, v) for k, v in __import__('pv.astutil', fromlist=['methods']).methods(sc).items()):
        for n in walk_local(fn):
            if is_self_attr(n) and isinstance(n.ctx, ast.Store):
                all_stores.setdefault(n.attr, []).append(q)
    isite = '%s:%s KmipSession.__init__' % (SESSION, init.lineno)
    v = stores.get('_enable_tls_client_auth', [])
    ctx.check(len(v) == 1 and isinstance(v[0], ast.Name) and v[0].id == 'enable_tls_client_auth' and all_stores.get('_enable_tls_client_auth') == ['__init__'],
              'C17.R6', 'KmipSession.__init__|_enable_tls_client_auth', isite, 'flag stored once from the constructor parameter',
              'self._enable_tls_client_auth is not exactly the constructor parameter (stores in %s)' % all_stores.get('_enable_tls_client_auth'))
    v = stores.get('_auth_settings', [])
    okv = False
    if len(v) == 1 and all_stores.get('_auth_settings') == ['__init__']:
        e = v[0]
        if isinstance(e, ast.Name) and e.id == 'auth_settings':
            okv = True
        if isinstance(e, ast.IfExp) and is_none_test(e.test) and isinstance(is_none_test(e.test)[1], ast.Name) and is_none_test(e.test)[1].id == 'auth_settings':
            keep = e.orelse if is_none_test(e.test)[0] == 'is' else e.body
            okv = isinstance(keep, ast.Name) and keep.id == 'auth_settings'
    ctx.check(okv, 'C17.R6', 'KmipSession.__init__|_auth_settings', isite, 'plugin settings stored from the constructor parameter', 'self._auth_settings is not the constructor parameter')
    dflt = dict(zip(reversed([a.arg for a in init.args.args]), reversed(init.args.defaults)))
    d = dflt.get('enable_tls_client_auth')
    ctx.check(isinstance(d, ast.Constant) and d.value is True, 'C17.R6', 'KmipSession.__init__|default-flag', isite,
              'enable_tls_client_auth defaults to True', 'enable_tls_client_auth does not default to True')
    from ..engmodel import SERVER
    sv = src.tree(SERVER)
    cons = [n for n in ast.walk(sv) if isinstance(n, ast.Call) and (call_name(n) or '').endswith('KmipSession')]
    ctx.count('session_constructions', len(cons), 1)
    for c in cons:
        csite = '%s:%s' % (SERVER, c.lineno)
        for kw, key in (('enable_tls_client_auth', 'enable_tls_client_auth'), ('auth_settings', 'auth_plugins')):
            val = None
            for k in c.keywords:
                if k.arg == kw:
                    val = k.value
            okc = (isinstance(val, ast.Call) and call_name(val) == 'self.config.settings.get' and len(val.args) == 1
                   and isinstance(val.args[0], ast.Constant) and val.args[0].value == key) or \
                  (isinstance(val, ast.Subscript) and dotted(val.value) == 'self.config.settings' and isinstance(val.slice, ast.Constant) and val.slice.value == key)
            ctx.check(okc, 'C17.R6', 'KmipServer|KmipSession(%s=)' % kw, csite, '%s = config.settings[%r]' % (kw, key),
                      'the session is constructed with %s=%s instead of the configured %r setting' % (kw, short(val) if val is not None else 'default', key))
    CONFIG = 'kmip/services/server/config.py'
    ct = src.tree(CONFIG)
    cc = get_class(ct, 'KmipServerConfig')
    setter = get_method(cc, '_set_enable_tls_client_auth')
    sg = CFG(setter)
    pv_ = params(setter)[0]
    ok_set = True
    n_st = 0
    for n in sg.nodes:
        if n.kind == 'stmt' and isinstance(n.stmt, ast.Assign) and isinstance(n.stmt.targets[0], ast.Subscript) \
                and isinstance(n.stmt.targets[0].slice, ast.Constant) and n.stmt.targets[0].slice.value == 'enable_tls_client_auth':
            n_st += 1
            val = n.stmt.value
            edges = [(U(t.stmt), l) for t, l in dominating_edges(sg, n)]
            if isinstance(val, ast.Constant):
                if not (val.value is True and any(is_none_test(t.stmt) and ((is_none_test(t.stmt)[0] == 'is') == (l == 'T')) for t, l in dominating_edges(sg, n))):
                    ok_set = False
            elif not (isinstance(val, ast.Name) and val.id == pv_):
                ok_set = False
    ctx.check(ok_set and n_st >= 1, 'C17.R6', 'KmipServerConfig._set_enable_tls_client_auth|stores', '%s:%s' % (CONFIG, setter.lineno),
              'setting stored as given; True when absent', 'the setter stores something other than the given boolean (True when None)')
    cinit = get_method(cc, '__init__')
    dv = [n.value for n in walk_local(cinit) if isinstance(n, ast.Assign) and isinstance(n.targets[0], ast.Subscript)
          and isinstance(n.targets[0].slice, ast.Constant) and n.targets[0].slice.value == 'enable_tls_client_auth']
    ctx.check(len(dv) == 1 and isinstance(dv[0], ast.Constant) and dv[0].value is True, 'C17.R6', 'KmipServerConfig.__init__|default', '%s:%s' % (CONFIG, cinit.lineno),
              'default setting True', 'the default for enable_tls_client_auth is not True')
    # -- R8 the authentication settings are read-only for the sessions
    ctx.rule('C17.R8', 'a session only reads the authentication settings it was handed (one object for every connection of the server): no method of KmipSession stores into, or calls a mutating method on, anything taken out of self._auth_settings - a session that switches a plugin off or rewrites its URL after a fault (an unreachable directory service) changes how every later connection is authenticated: with no enabled plugin left the certificate common name alone is accepted and the group list is lost (lifted from C10.R3)')
    from .c10 import session_writes_to_shared_structures
    w8 = [x for x in session_writes_to_shared_structures(src) if x[2] == '_auth_settings']
    for q8, what8, fld8, ln8 in w8:
        ctx.fail('C17.R8', '%s|%s' % (q8, what8), '%s:%s %s' % (SESSION, ln8, q8), '%s, which comes out of self.%s: the change is seen by every later connection' % (what8, fld8))
    if not w8:
        ctx.ok('C17.R8', '%s KmipSession' % SESSION, 'no method of KmipSession writes to what it takes out of self._auth_settings')
    # who calls the setter, and with what: a configuration file that does not mention the flag must leave the check on
    n_set_calls = 0
    for mname, mfn in sorted(__import__('pv.astutil', fromlist=['methods']).methods(cc).items()):
        mg = None
        for c in [x for x in walk_local(mfn) if isinstance(x, ast.Call) and is_self_attr(x.func) and x.func.attr == '_set_enable_tls_client_auth']:
            n_set_calls += 1
            a0 = c.args[0] if c.args else (c.keywords[0].value if c.keywords else None)
            okc, whyc = False, 'the value %s' % (short(a0) if a0 is not None else '<none>')
            if isinstance(a0, ast.Name) and a0.id in params(mfn):
                okc = True
            elif isinstance(a0, ast.Call) and isinstance(a0.func, ast.Attribute) and a0.func.attr in ('getboolean', 'get'):
                fb = [k.value for k in a0.keywords if k.arg == 'fallback']
                if fb:
                    okc = isinstance(fb[0], ast.Constant) and (fb[0].value is True or fb[0].value is None)
                    whyc = 'a fallback of %s for a file that does not mention the flag' % short(fb[0])
                else:
                    # no fallback: raises when the option is absent unless guarded by has_option - either way the default is not replaced
                    okc = True
            elif isinstance(a0, ast.Constant):
                okc = a0.value is True or a0.value is None
            ctx.check(okc, 'C17.R6', 'KmipServerConfig.%s|_set_enable_tls_client_auth(%s)' % (mname, short(a0)[:40] if a0 is not None else ''), '%s:%s KmipServerConfig.%s' % (CONFIG, c.lineno, mname),
                      'the flag is set from the caller\'s value or from the option in the file; absent means on',
                      '%s stores %s: a configuration that leaves enable_tls_client_auth out runs without the client-authentication extended-key-usage check, although the documented default is on' % (mname, whyc))
    ctx.analysed['enable_tls_client_auth_setter_calls'] = n_set_calls          # 0 when the setters are reached through a name table (getattr): then no call site can pass a fallback
    # every [auth:*] section of the configuration file reaches the session: a plugin block that is dropped on the way (for whatever
    # reason) is a plugin that never vouches - and with none left the session falls back to the certificate's common name alone
    pas = get_method(cc, 'parse_auth_settings', optional=True)
    ctx.need(pas is not None, 'anchor vanished: KmipServerConfig.parse_auth_settings')
    pg = CFG(pas)
    prd = ReachingDefs(pg)
    stores = [n for n in pg.nodes if n.kind == 'stmt' and isinstance(n.stmt, ast.Assign) and isinstance(n.stmt.targets[0], ast.Subscript)
              and isinstance(n.stmt.targets[0].slice, ast.Constant) and n.stmt.targets[0].slice.value == 'auth_plugins']
    okp = len(stores) == 1 and isinstance(stores[0].stmt.value, ast.Name)
    why_p = 'settings[auth_plugins] is not assigned one list built in parse_auth_settings'
    if okp:
        lst = stores[0].stmt.value.id
        apps = [(n, c) for n in pg.nodes for c in calls_at(n) if isinstance(c.func, ast.Attribute) and c.func.attr == 'append' and isinstance(c.func.value, ast.Name) and c.func.value.id == lst]
        okp = bool(apps)
        for n, c in apps:
            # the only condition on the way to the append (in this loop or the loop that selected the sections): <name>.startswith('auth:')
            conds = []
            pending = [n]
            seen_lists = set()
            while pending:
                x = pending.pop()
                for t, lab in dominating_edges(pg, x):
                    conds.append((t, lab))
                # the collection iterated: if it was itself built by appends, their conditions count as well
                for lp in x.loops:
                    if isinstance(lp, ast.For) and isinstance(lp.iter, ast.Name) and lp.iter.id not in seen_lists:
                        seen_lists.add(lp.iter.id)
                        for n2 in pg.nodes:
                            for c2 in calls_at(n2):
                                if isinstance(c2.func, ast.Attribute) and c2.func.attr == 'append' and isinstance(c2.func.value, ast.Name) and c2.func.value.id == lp.iter.id:
                                    pending.append(n2)
            for t, lab in conds:
                ts = U(t.stmt)
                if not (lab == 'T' and ts.endswith(".startswith('auth:')")):
                    okp = False
                    why_p = 'a section is passed on only if %s (%s edge)' % (short(t.stmt, 60), lab)
            a0 = c.args[0] if c.args else None
            if not (isinstance(a0, ast.Tuple) and len(a0.elts) == 2):
                okp = False
                why_p = 'what is collected is not (section name, options)'
        if okp and not any(ts for ts in [1]):
            pass
    ctx.check(okp, 'C17.R6', 'KmipServerConfig.parse_auth_settings|every-auth-section-kept', '%s:%s KmipServerConfig.parse_auth_settings' % (CONFIG, pas.lineno),
              'every section whose name starts with auth: is handed on as (name, options)', 'an authentication plugin section of the configuration can be dropped before it reaches the session: %s' % why_p)
    ctx.not_decided += ['TLS layer behaviour (handshake, certificate validation by ssl)', 'what a SLUGS server answers']
    ctx.assumptions += ['cryptography.x509 accessors return what their names say', 'requests.get raises or returns a response with status_code']
