"""C11 - requests are isolated from each other's transient state (definite re-initialisation)."""
import ast

from ..astutil import (U, dotted, walk_local, is_self_attr, decorator_names, call_name, short)
from ..cfg import CFG, expr_nodes
from ..dataflow import ReachingDefs
from ..engmodel import EngineModel, ENGINE
from ..source import AnalysisError

EXPLANATION = (
    "Inter-procedural definite-assignment analysis over KmipEngine starting at process_request: every engine field that "
    "any method other than __init__ stores to or mutates in place (the transient, per-request state) must be stored on "
    "every path from the entry of process_request before its first reachable read, through _process_batch, the "
    "dispatch table, the version-gate decorator and all handlers. Decides the re-initialisation mechanism for every "
    "path, not equality of responses.")

CONTAINER_MUTATORS = {'__delitem__', '__setitem__', 'add', 'append', 'appendleft', 'clear', 'discard', 'extend', 'extendleft', 'insert', 'pop', 'popitem', 'remove', 'reverse', 'setdefault', 'sort', 'update'}


def transient_fields(m):
    """Fields stored outside __init__, plus fields mutated in place outside __init__ (directly or through a local alias)."""
    fields = {}
    for name, fn in m.methods.items():
        if name == '__init__':
            continue
        g = None
        rd = None
        for n in walk_local(fn):
            if is_self_attr(n) and isinstance(n.ctx, (ast.Store, ast.Del)) and n.attr not in m.methods:
                fields.setdefault(n.attr, []).append((name, n, 'store'))
            # in-place mutation: self.F[...] = v / self.F.x = v / self.F.append(..)
            tgt = None
            if isinstance(n, (ast.Subscript, ast.Attribute)) and isinstance(n.ctx, (ast.Store, ast.Del)):
                tgt = n.value
            elif isinstance(n, ast.Call) and isinstance(n.func, ast.Attribute) and n.func.attr in CONTAINER_MUTATORS:
                tgt = n.func.value
            if tgt is None:
                continue
            if is_self_attr(tgt) and tgt.attr not in m.methods:
                fields.setdefault(tgt.attr, []).append((name, n, 'mutate'))
            elif isinstance(tgt, ast.Name) and tgt.id != 'self':
                if g is None:
                    g = CFG(fn)
                    rd = ReachingDefs(g)
                from ..dataflow import node_of_expr
                node = node_of_expr(g, n)
                if node is None:
                    continue
                for v in rd.values(node, tgt.id):
                    if isinstance(v, ast.AST) and is_self_attr(v) and v.attr not in m.methods:
                        fields.setdefault(v.attr, []).append((name, n, 'mutate-through-alias'))
    return fields


class DefAssign:
    """May-read-before-write / must-write summaries per method, over the transient fields."""

    def __init__(self, m, fields):
        self.m, self.fields = m, set(fields)
        self.memo = {}
        self.stack = []
        self.reads = {}   # (method, field) -> [line]

    def wrapper_of(self, fn):
        """[(wrapper FunctionDef, wrapped-name)] for class-level decorators of fn, outermost first."""
        out = []
        for name, call in decorator_names(fn):
            if name in self.m.methods:
                deco = self.m.methods[name]
                target = deco
                wrapped = deco.args.args[0].arg if deco.args.args else None
                if call is not None:
                    inner = [n for n in deco.body if isinstance(n, ast.FunctionDef)]
                    if len(inner) != 1:
                        raise AnalysisError('unrecognised construct: decorator factory %s' % name)
                    target = inner[0]
                    wrapped = target.args.args[0].arg
                inner = [n for n in target.body if isinstance(n, ast.FunctionDef)]
                if len(inner) != 1:
                    raise AnalysisError('unrecognised construct: decorator %s has no single wrapper' % name)
                out.append((inner[0], wrapped))
            elif name in ('staticmethod', 'classmethod', 'property', 'contextlib.contextmanager', 'contextmanager'):
                continue
            else:
                raise AnalysisError('unrecognised construct: decorator %s on KmipEngine.%s' % (name, fn.name))
        return out

    def summary(self, name):
        """(rbw: fields possibly read before written, mw: fields written on every normal return)."""
        if name in self.memo:
            return self.memo[name]
        if name in self.stack:
            raise AnalysisError('unrecognised construct: recursion through KmipEngine.%s' % name)
        self.stack.append(name)
        fn = self.m.methods[name]
        rbw, mw = self.analyse(fn, name, None)
        for wrapper, wrapped in reversed(self.wrapper_of(fn)):
            rbw, mw = self.analyse(wrapper, name + '@' + wrapper.name, (wrapped, rbw, mw))
        self.stack.pop()
        self.memo[name] = (rbw, mw)
        return rbw, mw

    def analyse(self, fn, label, wrapped):
        g = CFG(fn)
        rbw = set()
        IN = {n.id: None for n in g.nodes}
        IN[g.entry.id] = frozenset()
        work = [g.entry]
        order = 0
        while work:
            n = work.pop()
            st = set(IN[n.id])
            out = self.transfer(n, st, rbw, label, wrapped)
            for s, lab in n.succ:
                src = IN[n.id] if lab == 'exc' else frozenset(out)
                cur = IN[s.id]
                new = src if cur is None else (cur & src)
                if new != cur:
                    IN[s.id] = new
                    work.append(s)
        mw = IN[g.exit.id]
        if mw is None:   # never returns normally
            mw = frozenset(self.fields)
        return rbw, set(mw)

    def transfer(self, node, st, rbw, label, wrapped):
        exprs = expr_nodes(node)
        stores = []
        for e in exprs:
            # evaluation order approximation: loads and calls in source order, then stores
            items = []
            for x in ast.walk(e):
                if isinstance(x, (ast.FunctionDef, ast.Lambda)):
                    continue
                if is_self_attr(x) and x.attr in self.fields:
                    if isinstance(x.ctx, ast.Load):
                        items.append((x.lineno, x.col_offset, 'load', x))
                    else:
                        stores.append(x)
                        p = getattr(x, '_parent', None)
                        if isinstance(p, ast.AugAssign) and p.target is x:
                            items.append((x.lineno, x.col_offset, 'load', x))
                elif isinstance(x, ast.Call):
                    if is_self_attr(x.func) and x.func.attr in self.m.methods:
                        items.append((x.end_lineno, x.end_col_offset, 'call', x))
                    elif wrapped and isinstance(x.func, ast.Name) and x.func.id == wrapped[0]:
                        items.append((x.end_lineno, x.end_col_offset, 'wrapped', x))
            for _, _, kind, x in sorted(items, key=lambda t: (t[0], t[1])):
                if kind == 'load':
                    if x.attr not in st:
                        rbw.add(x.attr)
                        self.reads.setdefault((label, x.attr), []).append(x.lineno)
                elif kind == 'call':
                    r, w = self.summary(x.func.attr)
                    for f in r - st:
                        rbw.add(f)
                    st |= w
                else:
                    for f in wrapped[1] - st:
                        rbw.add(f)
                    st |= wrapped[2]
        for x in stores:
            if isinstance(x.ctx, ast.Store):
                st.add(x.attr)
            else:
                st.discard(x.attr)
        return st


def run(ctx):
    m = EngineModel(ctx.src)
    ctx.rule('C11.R1', 'for every transient engine field F (stored or mutated in place outside __init__): on every CFG path from '
                       'the entry of process_request to a reachable read of F there is a store to F')
    fields = transient_fields(m)
    # a dict that is only a memo of values computed from its own keys carries nothing of one request into the next
    from ..engmodel import pure_memo_fields
    memo_ok, memo_bad = pure_memo_fields(m)
    for f_ in sorted(memo_ok):
        if f_ in fields:
            del fields[f_]
            ctx.ok('C11.R1', '%s KmipEngine field %s' % (ENGINE, f_), 'pure memo table (%s): reading it equals recomputing' % memo_ok[f_])
    ctx.count('transient_fields', len(fields), 6)
    da = DefAssign(m, fields)
    rbw, mw = da.summary('process_request')
    reach = m.reach('process_request')
    ctx.count('methods_reachable_from_process_request', len(reach), 40)
    # reads of each field in reachable methods
    fe = m.field_effects()
    n_reads = 0
    for f in sorted(fields):
        readers = sorted(meth for meth in reach if f in fe[meth][0])
        # decorator wrappers read too
        n_reads += sum(len(fe[meth][0][f]) for meth in readers)
        kinds = sorted(set(k for _, _, k in fields[f]))
        site = '%s KmipEngine.process_request field %s' % (ENGINE, f)
        if f in rbw:
            where = sorted((lab, sorted(set(lines))) for (lab, ff), lines in da.reads.items() if ff == f)
            ctx.fail('C11.R1', 'KmipEngine.process_request|%s' % f, site,
                     'transient field %s (%s outside __init__) can be read before it is re-initialised in this request; '
                     'unguarded reads in: %s' % (f, '/'.join(kinds), ', '.join('%s:%s' % (l, ls) for l, ls in where[:20])),
                     readers=readers)
        else:
            ctx.ok('C11.R1', site, 'definitely stored before all %d reachable reads (readers: %d methods)' % (
                sum(len(fe[meth][0].get(f, [])) for meth in readers), len(readers)))
    ctx.count('reachable_reads_of_transient_fields', n_reads, 50)
    # Entry points other than process_request must not read transient fields at all (they have no prologue).
    for name in sorted(n for n in m.methods if not n.startswith('_') and n != 'process_request'):
        r, w = da.summary(name)
        ctx.check(not r, 'C11.R1', 'KmipEngine.%s|reads-transient' % name, m.site(m.methods[name], m.methods[name]),
                  'public method reads no transient field', 'public method outside the request prologue reads transient fields %s' % sorted(r))
    # ---------------- C11.R3 the session object lives as long as the connection: what one message stores in it must not be read by the next
    ctx.rule('C11.R3', 'KmipSession serves every request of a connection with one object: a session field stored outside __init__ (per-connection state) is stored on every path of _handle_message_loop before that method (or a helper it calls) reads it - the same definite-assignment analysis as R1, started at the per-message entry point. A limit, version or identity remembered from an earlier message of the connection would make the answer depend on more than the request itself')
    from ..astutil import get_class, methods as _methods
    from ..engmodel import SESSION
    from ..inline import flat_methods as _flat

    class _SessionModel:
        pass
    sm = _SessionModel()
    scls = get_class(ctx.src.tree(SESSION), 'KmipSession')
    sm.methods = dict(_flat(scls)[0])
    ctx.need('_handle_message_loop' in sm.methods, 'anchor vanished: KmipSession._handle_message_loop')
    sfields = transient_fields(sm)
    sda = DefAssign(sm, sfields)
    srbw, smw = sda.summary('_handle_message_loop')
    ctx.analysed['session_fields_stored_outside_init'] = sorted(sfields)
    # what is remembered must come from the message for it to carry one request into the next: a counter of the messages handled, or
    # an object built from the session's own configuration and kept for reuse, depends on no request
    init_only = set()
    for mn_, fn_ in sm.methods.items():
        for x_ in walk_local(fn_):
            if is_self_attr(x_):
                init_only.add(x_.attr)
    init_only -= set(sfields)
    graphs_ = {}

    def independent(e, node, rd_, f, fn_, depth=0):
        if depth > 12:
            return False
        if isinstance(e, ast.Constant):
            return True
        if is_self_attr(e):
            return e.attr in init_only or e.attr == f or e.attr in sm.methods
        if isinstance(e, ast.Name):
            if e.id == 'self':
                return False
            params_ = {a.arg for a in fn_.args.posonlyargs + fn_.args.args + fn_.args.kwonlyargs}
            local_ = params_ | {x.id for x in walk_local(fn_) if isinstance(x, ast.Name) and isinstance(x.ctx, (ast.Store, ast.Del))}
            if e.id not in local_:
                return True                      # a module, a class, a builtin
            if e.id in params_:
                return False
            defs = rd_.reaching(node, e.id)
            ok_ = bool(defs)
            for _v, val, dn in defs:
                if isinstance(val, ast.AST) and dn is not None:
                    ok_ = ok_ and independent(val, dn, rd_, f, fn_, depth + 1)
                elif isinstance(val, tuple) and val[0] in ('iter', 'unpack', 'aug') and dn is not None and isinstance(val[1], ast.AST):
                    ok_ = ok_ and independent(val[1] if val[0] != 'aug' else val[1].value, dn, rd_, f, fn_, depth + 1)
                else:
                    ok_ = False
            return ok_
        if isinstance(e, (ast.Attribute, ast.Starred)):
            return independent(e.value, node, rd_, f, fn_, depth + 1)
        if isinstance(e, ast.Call):
            if isinstance(e.func, ast.Attribute) and is_self_attr(e.func) and e.func.attr in sm.methods:
                return False                     # a helper of the session that was not expanded: unknown
            return independent(e.func, node, rd_, f, fn_, depth + 1) and all(independent(a, node, rd_, f, fn_, depth + 1) for a in e.args) and all(independent(k.value, node, rd_, f, fn_, depth + 1) for k in e.keywords)
        if isinstance(e, (ast.BinOp, ast.BoolOp, ast.Compare, ast.UnaryOp, ast.IfExp, ast.Tuple, ast.List, ast.Dict, ast.Set, ast.Subscript, ast.JoinedStr, ast.FormattedValue, ast.Slice)):
            return all(independent(x, node, rd_, f, fn_, depth + 1) for x in ast.iter_child_nodes(e) if isinstance(x, ast.expr))
        return False

    def store_is_independent(f, mn_, n_):
        from ..dataflow import node_of_expr
        fn_ = sm.methods[mn_]
        if mn_ not in graphs_:
            g_ = CFG(fn_)
            graphs_[mn_] = (g_, ReachingDefs(g_))
        g_, rd_ = graphs_[mn_]
        st_ = n_
        while st_ is not None and not isinstance(st_, (ast.Assign, ast.AugAssign, ast.Expr, ast.AnnAssign)):
            st_ = getattr(st_, '_parent', None)
        node = node_of_expr(g_, n_)
        if st_ is None or node is None:
            return False
        exprs = []
        if isinstance(st_, (ast.Assign, ast.AugAssign, ast.AnnAssign)) and st_.value is not None:
            exprs.append(st_.value)
            for tg in (st_.targets if isinstance(st_, ast.Assign) else [st_.target]):
                if isinstance(tg, ast.Subscript):
                    exprs.append(tg.slice)
        elif isinstance(st_, ast.Expr) and isinstance(st_.value, ast.Call):
            exprs += list(st_.value.args) + [k.value for k in st_.value.keywords]
        else:
            return False
        return all(independent(e, node, rd_, f, fn_) for e in exprs)
    for f in sorted(sfields):
        if all(store_is_independent(f, mn_, n_) for mn_, n_, k_ in sfields[f]):
            ctx.ok('C11.R3', '%s KmipSession field %s' % (SESSION, f), 'stored outside __init__, but from nothing a message carries (constants, the field itself, configuration given at construction): a counter / build-once object')
            continue
        site = '%s KmipSession._handle_message_loop field %s' % (SESSION, f)
        where = sorted((lab, sorted(set(lines))) for (lab, ff), lines in sda.reads.items() if ff == f)
        ctx.check(f not in srbw, 'C11.R3', 'KmipSession._handle_message_loop|%s' % f, site, 'stored before every read while handling one message',
                  'session field %s is stored while a message is handled (%s) and can be read before it is stored again when the next message of the connection is handled (reads at %s): the earlier request reaches into the later one' % (
                      f, ', '.join(sorted(set('%s:%s' % (mn, n_.lineno) for mn, n_, k_ in sfields[f]))), ', '.join('%s:%s' % (l, ls) for l, ls in where[:6])))
    if not sfields:
        ctx.ok('C11.R3', '%s KmipSession' % SESSION, 'no session field is stored outside __init__ (%d methods)' % len(sm.methods))
    # ---------------- C11.R2 (lifted from C10)
    ctx.rule('C11.R2', "the per-request prologue and everything that reads the per-request fields run inside one critical section (lifted from C10.R1/R2): otherwise another client's header overwrites identity, version, attribute policy and placeholder between two items of a batch")
    from ..report import Ctx as _LCtx_C11_R2
    from . import c10 as _lsrc_C11_R2
    _sub_C11_R2 = _LCtx_C11_R2('C10', 'quick', ctx.src, 0)
    from ..report import run_lifted as _run_lifted
    _run_lifted(ctx, _lsrc_C11_R2, _sub_C11_R2)
    _lifted_C11_R2 = [f for f in _sub_C11_R2.findings if f.rule in ('C10.R1', 'C10.R2')]
    for f in _lifted_C11_R2:
        ctx.fail('C11.R2', f.key, f.site, f.message)
    if not _lifted_C11_R2:
        ctx.ok('C11.R2', 'lifted from C10', 'process_request, including its prologue, is synchronised')
    ctx.not_decided += ['equality of the probe response with a fresh engine (value-level)',
                        'state kept inside third-party objects (SQLAlchemy identity map is per _process_batch session)']
    ctx.assumptions += ['KmipEngine methods are not rebound at run time; decorators are the two class-level ones',
                        'handlers run only through process_request -> _process_batch -> _process_operation (C10.R1 entry points)']
