"""C10 - concurrent sessions behave as if served one request at a time (lock discipline)."""
import ast

from ..astutil import (U, dotted, get_class, methods, get_method, walk_local, is_self_attr,
                       decorator_names, call_name, all_functions, short)
from ..engmodel import EngineModel, ENGINE, SESSION, SERVER, POLICY, CRYPTO
from ..source import AnalysisError
from ..cfg import CFG
from ..dataflow import ReachingDefs

EXPLANATION = (
    "Static lock-discipline analysis of KmipEngine: transitive field effect sets over the intra-class call graph; "
    "every externally reachable or public method touching a per-request field is wrapped by _synchronize, whose wrapper "
    "holds self._lock around the single call; no other shared mutable state (module globals, class attributes, engine "
    "fields written from the session); the session never reads per-request engine fields. Decides the mechanism the "
    "property rests on, not SQLite's own thread-safety.")

MUTATORS = {'append', 'extend', 'update', 'pop', 'add', 'remove', 'clear', 'setdefault', 'insert',
            'popitem', 'discard', 'sort', 'reverse', '__setitem__', '__delitem__'}
SHARED_MODULES = [ENGINE, SESSION, POLICY, CRYPTO]


def engine_uses_outside(src, rels):
    """Attribute names used on an engine object outside engine.py: self._engine.<name> / engine.<name>."""
    uses = []
    for rel in rels:
        t = src.tree(rel)
        for n in ast.walk(t):
            if isinstance(n, ast.Attribute):
                b = n.value
                if (is_self_attr(b, '_engine')) or (isinstance(b, ast.Name) and b.id in ('engine', '_engine')):
                    # `engine` as a module alias (kmip.services.server.engine) is not an engine object
                    if isinstance(b, ast.Name):
                        continue
                    uses.append((rel, n))
    return uses


def transitive_effects(m):
    fe = m.field_effects()
    cg = m.callgraph()
    out = {}
    for name in m.methods:
        seen, st = set(), [name]
        r, w = set(), set()
        while st:
            x = st.pop()
            if x in seen:
                continue
            seen.add(x)
            r |= set(fe[x][0])
            w |= set(fe[x][1])
            st.extend(cg.get(x, []))
        out[name] = (r, w, seen)
    return out


def check_synchronize(ctx, m):
    """C10.R2: the decorator is a lock around exactly one call of the wrapped function."""
    rule = 'C10.R2'
    fn = m.method('_synchronize')
    site = m.site(fn, fn)
    inner = [n for n in fn.body if isinstance(n, ast.FunctionDef)]
    ctx.need(len(inner) == 1, 'unrecognised construct: _synchronize must define exactly one wrapper')
    w = inner[0]
    wrapped = fn.args.args[0].arg if fn.args.args else None
    ret = [s for s in fn.body if isinstance(s, ast.Return)]
    ctx.check(len(ret) == 1 and isinstance(ret[0].value, ast.Name) and ret[0].value.id == w.name,
              rule, 'KmipEngine._synchronize|returns-wrapper', site,
              'decorator returns its wrapper', 'decorator does not return its wrapper function')
    body = [s for s in w.body if not (isinstance(s, ast.Expr) and isinstance(s.value, ast.Constant))]
    okshape = False
    lockattr = None
    if len(body) == 1 and isinstance(body[0], ast.With) and len(body[0].items) == 1:
        ce = body[0].items[0].context_expr
        if is_self_attr(ce):
            lockattr = ce.attr
            calls = [n for n in ast.walk(body[0]) if isinstance(n, ast.Call) and isinstance(n.func, ast.Name)
                     and n.func.id == wrapped]
            allcalls_in_wrapper = [n for n in ast.walk(w) if isinstance(n, ast.Call) and isinstance(n.func, ast.Name)
                                   and n.func.id == wrapped]
            inner_body = body[0].body
            direct = len(inner_body) == 1 and isinstance(inner_body[0], ast.Return) and bool(calls) and inner_body[0].value is calls[0]
            via_tmp = (len(inner_body) == 2 and isinstance(inner_body[0], ast.Assign) and len(inner_body[0].targets) == 1 and isinstance(inner_body[0].targets[0], ast.Name)
                       and bool(calls) and inner_body[0].value is calls[0] and isinstance(inner_body[1], ast.Return) and isinstance(inner_body[1].value, ast.Name)
                       and inner_body[1].value.id == inner_body[0].targets[0].id)
            okshape = (len(calls) == 1 and len(allcalls_in_wrapper) == 1 and (direct or via_tmp)
                       and calls[0].args and isinstance(calls[0].args[0], ast.Name) and calls[0].args[0].id == 'self')
    ctx.check(okshape, rule, 'KmipEngine._synchronize|with-lock-single-call', site,
              'wrapper = `with self.%s: return function(self, ...)`' % lockattr,
              'wrapper does not hold the lock around exactly one call of the wrapped function: %s' % short(w, 160))
    # the lock field: assigned once, in __init__, from threading.RLock()/Lock()
    fe = m.field_effects()
    stores = [(meth, n) for meth, (r, wr) in fe.items() for n in wr.get(lockattr or '_lock', [])]
    good = False
    if len(stores) == 1 and stores[0][0] == '__init__':
        p = stores[0][1]._parent
        if isinstance(p, ast.Assign) and isinstance(p.value, ast.Call) and call_name(p.value) in (
                'threading.RLock', 'threading.Lock'):
            good = True
    ctx.check(good, rule, 'KmipEngine.%s|single-init-store' % (lockattr or '_lock'), site,
              'self.%s assigned once, in __init__, from threading.(R)Lock()' % lockattr,
              'lock field is not assigned exactly once in __init__ from threading.RLock()/Lock(): stores in %s'
              % [s[0] for s in stores])
    # the lock is held for the whole request: nothing but the `with` of _synchronize touches it (no release() / acquire() that would open the
    # critical section in the middle of a request, no hand-over to other code)
    la = lockattr or '_lock'
    other_uses = []
    for meth, f2 in sorted(m.methods.items()):
        for n in ast.walk(f2):
            if is_self_attr(n, la) and isinstance(n.ctx, ast.Load):
                p_ = getattr(n, '_parent', None)
                in_sync_with = meth == '_synchronize' and isinstance(p_, ast.withitem)
                if not in_sync_with:
                    other_uses.append('%s: %s' % (meth, short(p_ if p_ is not None else n, 60)))
    # methods expanded into their callers are listed with the callers; raw class body too (helpers not reachable from handlers)
    cls_ = m.cls if hasattr(m, 'cls') else None
    if cls_ is not None:
        for f2 in [x for x in cls_.body if isinstance(x, ast.FunctionDef)]:
            for n in ast.walk(f2):
                if is_self_attr(n, la) and isinstance(n.ctx, ast.Load) and not (f2.name == '_synchronize'):
                    p_ = getattr(n, '_parent', None)
                    txt = '%s: %s' % (f2.name, short(p_ if p_ is not None else n, 60))
                    if txt not in other_uses:
                        other_uses.append(txt)
    ctx.check(not other_uses, rule, 'KmipEngine.%s|used-only-by-synchronize' % la, site, 'self.%s is only entered by the `with` of _synchronize' % la,
              'the engine lock is used outside the `with` of _synchronize (%s): releasing or re-acquiring it inside a request opens the critical section while per-request state is live' % other_uses[:3])
    return lockattr



def shared_session_fields(cls):
    """fields of KmipSession that hold what the constructor was handed, except the connection (one per session)"""
    init = next((f for f in cls.body if isinstance(f, ast.FunctionDef) and f.name == '__init__'), None)
    out = set()
    if init is None:
        return out
    ps = {a.arg for a in init.args.args[1:]}
    for n in walk_local(init):
        if isinstance(n, ast.Assign) and len(n.targets) == 1 and is_self_attr(n.targets[0]):
            used = {x.id for x in ast.walk(n.value) if isinstance(x, ast.Name) and x.id in ps}
            if used and not any('connection' in u for u in used) and not any(isinstance(x, ast.Call) for x in ast.walk(n.value)):
                out.add(n.targets[0].attr)
    return out


def derives_from_fields(rd, node, expr, fields, depth=0, seen=None):
    """the session field (among `fields`) the value of expr is taken out of - through attribute access, subscripts, iteration, unpacking, .get() - else None"""
    seen = seen if seen is not None else set()
    if depth > 8:
        return None
    if is_self_attr(expr) and expr.attr in fields:
        return expr.attr
    if isinstance(expr, (ast.Attribute, ast.Subscript, ast.Starred)):
        return derives_from_fields(rd, node, expr.value, fields, depth + 1, seen)
    if isinstance(expr, ast.Call) and isinstance(expr.func, ast.Attribute) and expr.func.attr in ('get', 'items', 'values', 'keys', 'pop', 'setdefault', '__getitem__'):
        return derives_from_fields(rd, node, expr.func.value, fields, depth + 1, seen)
    if isinstance(expr, ast.Call) and call_name(expr) in ('list', 'tuple', 'iter', 'enumerate', 'reversed', 'sorted', 'dict') and expr.args:
        if call_name(expr) in ('list', 'tuple', 'sorted', 'dict'):
            # a copy of the container - its elements are still the shared ones
            pass
        return derives_from_fields(rd, node, expr.args[0], fields, depth + 1, seen)
    if isinstance(expr, (ast.Tuple, ast.List)):
        for e in expr.elts:
            r = derives_from_fields(rd, node, e, fields, depth + 1, seen)
            if r:
                return r
        return None
    if isinstance(expr, ast.Name):
        for var, val, dn in rd.reaching(node, expr.id):
            key = (expr.id, dn.id if dn is not None else None)
            if key in seen:
                continue
            seen.add(key)
            if isinstance(val, ast.AST) and dn is not None:
                r = derives_from_fields(rd, dn, val, fields, depth + 1, seen)
            elif isinstance(val, tuple) and val[0] in ('iter', 'unpack', 'with') and dn is not None and isinstance(val[1], ast.AST):
                r = derives_from_fields(rd, dn, val[1], fields, depth + 1, seen)
            elif isinstance(val, tuple) and val[0] == 'unpack' and dn is not None and isinstance(val[1], tuple) and len(val[1]) > 1 and isinstance(val[1][1], ast.AST):
                r = derives_from_fields(rd, dn, val[1][1], fields, depth + 1, seen)
            else:
                r = None
            if r:
                return r
    return None


def build_once_cache(fn, store, classnames):
    """`Cls.attr = v` is the filling of a build-once cache: it happens only where Cls.attr (or a local copy of it) was found to be None, and v is
    computed from nothing but argument-less helper calls on the class (wrapped in dict() / MappingProxyType() ...) - the same value whoever gets
    there first, so the store publishes a constant rather than per-request state"""
    from ..guards import dominating_edges, is_none_test
    from ..dataflow import node_of_expr
    asg = getattr(store, '_parent', None)
    if not (isinstance(asg, ast.Assign) and len(asg.targets) == 1 and asg.targets[0] is store):
        return False
    g = CFG(fn)
    rd = ReachingDefs(g)
    nd = node_of_expr(g, store)
    if nd is None:
        return False
    target = U(store)
    param_names = {a.arg for a in fn.args.posonlyargs + fn.args.args + fn.args.kwonlyargs}
    local_names = param_names | {x.id for x in walk_local(fn) if isinstance(x, ast.Name) and isinstance(x.ctx, (ast.Store, ast.Del))}
    aliases = {target}
    for x in walk_local(fn):
        if isinstance(x, ast.Assign) and len(x.targets) == 1 and isinstance(x.targets[0], ast.Name) and U(x.value) == target:
            aliases.add(x.targets[0].id)
    tested = False
    for tt, lab in dominating_edges(g, nd):
        nt = is_none_test(tt.stmt)
        if nt and U(nt[1]) in aliases and ((nt[0] == 'is') == (lab == 'T')):
            tested = True
    if not tested:
        return False

    def constant(e, node, depth=0):
        if depth > 14:
            return False
        if isinstance(e, ast.Constant):
            return True
        if isinstance(e, ast.Name):
            if e.id in classnames or e.id not in local_names:
                return True                  # a class or a module-level name (an imported module, a constant): not per-request state
            if e.id in param_names:
                return False
            defs = rd.reaching(node, e.id)
            return bool(defs) and all(isinstance(v, ast.AST) and dn is not None and (constant(v, dn, depth + 1) or U(v) == target) for _, v, dn in defs)
        if isinstance(e, ast.Attribute):
            return constant(e.value, node, depth + 1)
        if isinstance(e, ast.Call):
            return constant(e.func, node, depth + 1) and all(constant(a, node, depth + 1) for a in e.args) and not e.keywords
        if isinstance(e, (ast.Tuple, ast.List, ast.Dict, ast.Set)):
            return all(constant(x, node, depth + 1) for x in ast.iter_child_nodes(e) if isinstance(x, ast.expr))
        return False
    return constant(asg.value, nd)


def session_writes_to_shared_structures(src):
    """[(method, description, source field, line)]: item stores / field stores / mutating calls, in methods of KmipSession other than __init__, on
    anything taken out of a structure the session was handed at construction (shared by all session threads)"""
    from ..dataflow import node_of_expr as _noe
    t = src.tree(SESSION)
    out = []
    for q, fn, cls in all_functions(t):
        if cls is None or cls.name != 'KmipSession' or fn.name == '__init__':
            continue
        shared = shared_session_fields(cls)
        sg_ = None
        for n in walk_local(fn):
            base = None
            if isinstance(n, ast.Subscript) and isinstance(n.ctx, (ast.Store, ast.Del)):
                base, what = n.value, 'item store on'
            elif isinstance(n, ast.Call) and isinstance(n.func, ast.Attribute) and n.func.attr in MUTATORS:
                base, what = n.func.value, 'mutating call %s on' % n.func.attr
            elif isinstance(n, ast.Attribute) and isinstance(n.ctx, (ast.Store, ast.Del)) and isinstance(n.value, ast.Name) and n.value.id != 'self':
                base, what = n.value, 'field store on'
            if base is None:
                continue
            if sg_ is None:
                sg_ = CFG(fn)
                srd_ = ReachingDefs(sg_)
            nd_ = _noe(sg_, n)
            src_field = derives_from_fields(srd_, nd_, base, shared) if nd_ is not None else None
            if src_field:
                out.append((q, '%s %s' % (what, U(base)), src_field, n.lineno))
    return out


def check_session_per_request(ctx, m):
    """C10.R7: nothing a request loaded from the store is still there for the next request."""
    ctx.rule('C10.R7', 'every request reads the store through a database session of its own that ends with the request: the session factory of the engine is a plain sessionmaker (not scoped_session or another registry that hands the same session to a thread again), and _process_batch obtains its session as the context manager of the `with` statement that encloses the batch loop, so it is closed when the request is done - a session that lives on with the connection thread keeps the rows it loaded and answers a later request from them, although another connection changed or destroyed the object in between (Destroy of an object another client activated)')
    init = m.method('__init__')
    facts = [x for x in walk_local(init) if isinstance(x, ast.Assign) and len(x.targets) == 1 and is_self_attr(x.targets[0], '_data_store_session_factory')]
    ctx.need(len(facts) == 1, 'unrecognised construct: %d assignments of self._data_store_session_factory in __init__' % len(facts))
    v = facts[0].value
    cn = call_name(v) if isinstance(v, ast.Call) else None
    ctx.check(cn is not None and cn.split('.')[-1] == 'sessionmaker', 'C10.R7', 'KmipEngine.__init__|session-factory', m.site(facts[0], init),
              'the factory is sessionmaker(...): every call builds a new session',
              'the session factory is %s, not a plain sessionmaker: the same session (with everything it has loaded) can be handed out again for a later request of the same thread' % (cn or U(v)[:50]))
    pb = m.method('_process_batch')
    withs = [w for w in walk_local(pb) if isinstance(w, ast.With) and any('session_factory' in U(it.context_expr) for it in w.items)]
    others = [c for c in walk_local(pb) if isinstance(c, ast.Call) and 'session_factory' in U(c.func)
              and not any(c is it.context_expr for w in withs for it in w.items)]
    loops = [l for l in walk_local(pb) if isinstance(l, ast.For) and any(isinstance(c, ast.Call) and is_self_attr(c.func, '_process_operation') for c in ast.walk(l))]
    ctx.need(loops, 'unrecognised construct: no loop in _process_batch that calls _process_operation')
    inside = bool(withs) and all(any(l is x for w in withs for x in ast.walk(w)) for l in loops)
    ctx.check(bool(withs) and not others and inside, 'C10.R7', 'KmipEngine._process_batch|session-scope', m.site(pb, pb),
              'the session is the context manager of the with statement around the batch loop',
              '_process_batch does not take its session from a `with <factory>() as session:` around the batch loop: the session is not closed with the request, what it loaded stays visible to the next request served by that session')


def check_one_engine_for_all_sessions(ctx):
    """C10.R5: every session is handed the same engine object."""
    ctx.rule('C10.R5', 'the server creates one KmipEngine (a single construction site in kmip/services/server/server.py, stored in one instance field) and every KmipSession it starts is handed that field: the lock that serialises requests lives in the engine object, so sessions with engines of their own would work on the common database without any mutual exclusion')
    t = ctx.src.tree(SERVER)
    ctor_sites = []
    for q, fn, cls in all_functions(t):
        for c in walk_local(fn):
            if isinstance(c, ast.Call) and (call_name(c) or '').split('.')[-1] == 'KmipEngine':
                ctor_sites.append((q, fn, c))
    site0 = '%s KmipServer' % SERVER
    ctx.check(len(ctor_sites) == 1, 'C10.R5', 'KmipServer|one-engine-construction-site', site0, 'one KmipEngine(...) construction in the server module', 'the server module constructs KmipEngine at %d places: %s' % (len(ctor_sites), [q for q, _, _ in ctor_sites]))
    field = None
    if len(ctor_sites) == 1:
        q, fn, c = ctor_sites[0]
        p = getattr(c, '_parent', None)
        if isinstance(p, ast.Assign) and len(p.targets) == 1 and is_self_attr(p.targets[0]):
            field = p.targets[0].attr
            # not inside a loop / not in the per-connection path
            in_loop = False
            x = p
            while getattr(x, '_parent', None) is not None and x._parent is not fn:
                x = x._parent
                if isinstance(x, (ast.For, ast.While)):
                    in_loop = True
            ctx.check(not in_loop and 'connection' not in fn.name, 'C10.R5', 'KmipServer.%s|engine-built-once' % fn.name, '%s:%s %s' % (SERVER, c.lineno, q), 'the engine is built once at start-up and kept in self.%s' % field,
                      'the engine is built inside a loop or in the per-connection path')
        else:
            ctx.fail('C10.R5', 'KmipServer|engine-kept-in-a-field', '%s:%s %s' % (SERVER, c.lineno, q), 'the constructed engine is not stored in an instance field of the server (it is handed on or returned: every caller gets an engine of its own)')
    n = 0
    for q, fn, cls in all_functions(t):
        for c in walk_local(fn):
            if isinstance(c, ast.Call) and (call_name(c) or '').split('.')[-1] == 'KmipSession':
                n += 1
                a0 = c.args[0] if c.args else next((k.value for k in c.keywords if k.arg == 'engine'), None)
                ctx.check(field is not None and is_self_attr(a0, field), 'C10.R5', '%s|session-gets-the-shared-engine' % q, '%s:%s %s' % (SERVER, c.lineno, q), 'KmipSession(self.%s, ...)' % field,
                          'a session is started with %s instead of the one engine the server holds (self.%s)' % (U(a0) if a0 is not None else 'no engine', field))
    ctx.count('session_construction_sites', n, 1)

MUTATORS = ('append', 'extend', 'insert', 'update', 'add', 'pop', 'popitem', 'remove', 'discard', 'clear', 'setdefault', 'sort', 'reverse')


def check_nothing_handed_out_is_updated_in_place(ctx, m):
    """C10.R6: what an entry point returns to the session thread is not an engine-owned object that later requests update in place."""
    ctx.rule('C10.R6', 'the session thread uses what process_request / build_error_response returned after the engine lock is released (encoding the response, choosing the encoding version): no engine field that flows into a returned value or into the response object is updated in place anywhere in the engine (`self.<f>.<attr> = v`, `self.<f>[k] = v`, augmented forms, mutating calls): the next request would change the object under the session that is still encoding. Rebinding the field to a fresh object per request is fine')
    entries = [n for n in ('process_request', 'build_error_response') if n in m.methods]
    ctx.need(bool(entries), 'anchor vanished: KmipEngine.process_request')
    from ..inline import flat_methods
    cls = get_class(ctx.src.tree(ENGINE), 'KmipEngine')
    fm = flat_methods(cls)[0]
    escaping = {}
    n_exprs = 0
    for name in entries:
        fn = fm.get(name, m.methods[name])
        g = CFG(fn)
        rd = ReachingDefs(g)
        out = []
        for n in g.nodes:
            if n.kind == 'stmt' and isinstance(n.stmt, ast.Return) and n.stmt.value is not None:
                out += [(n, e) for e in (n.stmt.value.elts if isinstance(n.stmt.value, ast.Tuple) else [n.stmt.value])]
        seen = set()
        work = list(out)
        while work:
            node, e = work.pop()
            if id(e) in seen:
                continue
            seen.add(id(e))
            n_exprs += 1
            for x in ast.walk(e):
                if is_self_attr(x) and isinstance(x.ctx, ast.Load) and x.attr not in m.methods and x.attr not in fm:
                    escaping.setdefault(x.attr, (name, x))
                elif isinstance(x, ast.Name):
                    for v in rd.values(node, x.id):
                        if isinstance(v, ast.AST):
                            dn = None
                            for _v, d, dnn in rd.reaching(node, x.id):
                                if d is v:
                                    dn = dnn
                            if dn is not None:
                                work.append((dn, v))
    ctx.count('expressions_flowing_into_returned_values', n_exprs, 3)
    # services (logger, crypto engine, factories) are not data of a request; the stores of interest are field-of-field stores
    for f, (name, x) in sorted(escaping.items()):
        sites = []
        for mn, fn in sorted(fm.items()):
            for y in walk_local(fn):
                tgt = None
                if isinstance(y, (ast.Attribute, ast.Subscript)) and isinstance(y.ctx, (ast.Store, ast.Del)) and is_self_attr(y.value, f):
                    tgt = y
                elif isinstance(y, ast.Call) and isinstance(y.func, ast.Attribute) and y.func.attr in MUTATORS and is_self_attr(y.func.value, f):
                    tgt = y
                elif isinstance(y, ast.Call) and call_name(y) in ('setattr', 'delattr') and y.args and is_self_attr(y.args[0], f):
                    tgt = y
                if tgt is not None:
                    sites.append((mn, tgt))
        ctx.check(not sites, 'C10.R6', 'KmipEngine.%s|handed out by %s and updated in place' % (f, name), '%s:%s KmipEngine.%s' % (ENGINE, (sites[0][1].lineno if sites else x.lineno), sites[0][0] if sites else name),
                  'self.%s flows into what %s returns and is only ever rebound' % (f, name),
                  'self.%s flows into what %s returns to the session thread, and %s updates that object in place (%s): a request of another session, served before this session has encoded its response, changes the object under it' % (
                      f, name, sites[0][0] if sites else '', ' '.join(U(sites[0][1]).split())[:60] if sites else ''))
    ctx.analysed['engine_fields_flowing_into_returned_values'] = sorted(escaping)


def run(ctx):
    src = ctx.src
    m = EngineModel(src)
    ctx.rule('C10.R1', 'every KmipEngine method that is an external entry point (used through an engine reference in '
                       'kmip/services/server/*.py) or public, and whose transitive effect set meets a per-request field, '
                       'is decorated with _synchronize')
    ctx.rule('C10.R2', '_synchronize wraps exactly one call of the function in `with self._lock`; the lock is created once in __init__')
    ctx.rule('C10.R3', 'no module-level or class-level mutable state is written from functions of the engine/session/policy/crypto modules or of the authentication helpers (kmip/services/server/auth/*, which run on the session threads outside the engine lock); '
                       'the session stores only to its own instance fields')
    ctx.rule('C10.R4', 'the session never reads a per-request engine field; values used for the response come from the tuple returned under the lock')

    per_req = m.per_request_fields()
    ctx.count('engine_methods', len(m.methods), 45)
    ctx.count('per_request_fields', len(per_req), 3)
    te = transitive_effects(m)

    # ---- R1
    uses = engine_uses_outside(src, [SESSION, SERVER])
    entry = sorted(set(n.attr for rel, n in uses if n.attr in m.methods))
    ctx.count('external_entry_points', len(entry), 2)
    ctx.need('process_request' in entry, 'anchor vanished: session no longer calls engine.process_request')
    public = sorted(n for n in m.methods if not n.startswith('_'))
    for name in sorted(set(entry) | set(public)):
        fn = m.methods[name]
        r, w, reach = te[name]
        touched = sorted((r | w) & per_req)
        decos = [d for d, _ in decorator_names(fn)]
        site = m.site(fn, fn)
        if touched:
            ctx.check('_synchronize' in decos, 'C10.R1', 'KmipEngine.%s|unsynchronized' % name, site,
                      'touches %s transitively; decorated with _synchronize' % touched,
                      'entry point/public method touches per-request fields %s (via %d methods) but is not decorated with _synchronize'
                      % (touched, len(reach)))
            # _synchronize must be the outermost effective wrapper: any other decorator must not escape the lock
            if '_synchronize' in decos:
                ctx.check(decos[0] == '_synchronize', 'C10.R1', 'KmipEngine.%s|sync-not-outermost' % name, site,
                          '_synchronize is the outermost decorator', 'another decorator wraps outside the lock: %s' % decos)
        else:
            ctx.ok('C10.R1', site, 'touches no per-request field (reads %s)' % sorted(r)[:6])
    # Every per-request field must also only be reachable through synchronized roots inside the class:
    # a thread target / callback registered from inside the engine would be a second entry point.
    for name, fn in m.methods.items():
        for n in walk_local(fn):
            if isinstance(n, ast.Call) and call_name(n) in ('threading.Thread', 'threading.Timer', 'multiprocessing.Process'):
                ctx.fail('C10.R1', 'KmipEngine.%s|spawns-thread' % name, m.site(n, fn),
                         'engine spawns a concurrent activity outside the request lock: %s' % short(n))

    # ---- R2
    check_synchronize(ctx, m)

    # ---- R3
    n_funcs = 0
    # the authentication helpers run on the session threads, before the engine lock is taken
    for rel in SHARED_MODULES + [r for r in src.modules('kmip/services/server/auth')]:
        t = src.tree(rel)
        modnames = set()
        for s in t.body:
            if isinstance(s, (ast.Assign, ast.AnnAssign, ast.AugAssign)):
                for tg in (s.targets if isinstance(s, ast.Assign) else [s.target]):
                    if isinstance(tg, ast.Name):
                        modnames.add(tg.id)
            elif isinstance(s, ast.ClassDef):
                modnames.add(s.name)
        classnames = {s.name for s in ast.walk(t) if isinstance(s, ast.ClassDef)}
        for q, fn, cls in all_functions(t):
            n_funcs += 1
            site = '%s:%s %s' % (rel, fn.lineno, q)
            localnames = {a.arg for a in fn.args.args + fn.args.kwonlyargs}
            for n in walk_local(fn):
                if isinstance(n, ast.Name) and isinstance(n.ctx, ast.Store):
                    localnames.add(n.id)
            bad = []
            for n in walk_local(fn):
                if isinstance(n, (ast.Global, ast.Nonlocal)):
                    # nonlocal inside the two decorators would be closure state shared by all calls
                    bad.append('%s %s' % (type(n).__name__.lower(), ','.join(n.names)))
                elif isinstance(n, ast.Attribute) and isinstance(n.ctx, (ast.Store, ast.Del)):
                    b = n.value
                    bn = dotted(b)
                    if isinstance(b, ast.Name) and b.id not in localnames and (b.id in classnames or b.id in modnames):
                        if not build_once_cache(fn, n, classnames | {'cls'}):
                            bad.append('store to %s' % U(n))
                    elif bn in ('self.__class__',) or (isinstance(b, ast.Call) and call_name(b) == 'type'):
                        bad.append('store to class attribute %s' % U(n))
                    elif rel == SESSION and not (isinstance(b, ast.Name) and (b.id == 'self' or b.id in localnames)):
                        bad.append('session stores outside its own fields: %s' % U(n))
                    elif rel == SESSION and is_self_attr(b, '_engine'):
                        bad.append('session stores to an engine field: %s' % U(n))
                elif isinstance(n, ast.Subscript) and isinstance(n.ctx, (ast.Store, ast.Del)):
                    b = n.value
                    if isinstance(b, ast.Name) and b.id not in localnames and b.id in modnames:
                        bad.append('item store on module-level %s' % b.id)
                elif isinstance(n, ast.Call) and isinstance(n.func, ast.Attribute) and n.func.attr in MUTATORS:
                    b = n.func.value
                    if isinstance(b, ast.Name) and b.id not in localnames and b.id in modnames and b.id not in classnames:
                        bad.append('mutating call on module-level %s.%s' % (b.id, n.func.attr))
            if rel == SESSION and cls is not None and cls.name == 'KmipSession' and fn.name != '__init__':
                # structures the session was handed at construction (the engine, the authentication settings) are shared by every session thread:
                # an item store / mutating call on something taken out of them is a write to shared state outside the engine lock
                shared = shared_session_fields(cls)
                sg_ = None
                for n in walk_local(fn):
                    base = None
                    if isinstance(n, ast.Subscript) and isinstance(n.ctx, (ast.Store, ast.Del)):
                        base, what = n.value, 'item store on'
                    elif isinstance(n, ast.Call) and isinstance(n.func, ast.Attribute) and n.func.attr in MUTATORS:
                        base, what = n.func.value, 'mutating call %s on' % n.func.attr
                    elif isinstance(n, ast.Attribute) and isinstance(n.ctx, (ast.Store, ast.Del)) and isinstance(n.value, ast.Name) and n.value.id != 'self':
                        base, what = n.value, 'field store on'
                    if base is None:
                        continue
                    if sg_ is None:
                        sg_ = CFG(fn)
                        srd_ = ReachingDefs(sg_)
                    from ..dataflow import node_of_expr as _noe
                    nd_ = _noe(sg_, n)
                    src_field = derives_from_fields(srd_, nd_, base, shared) if nd_ is not None else None
                    if src_field:
                        bad.append('%s %s, which comes out of self.%s (one object for all sessions)' % (what, U(base), src_field))
            if bad:
                for b in sorted(set(bad)):
                    ctx.fail('C10.R3', '%s|%s' % (q, b), site, 'shared mutable state outside the lock: %s' % b)
            else:
                ctx.ok('C10.R3', site, 'no global/class-level/module-level store')
        # class-level mutable containers on KmipEngine / KmipSession used as instance state
        for cn in classnames:
            c = [x for x in ast.walk(t) if isinstance(x, ast.ClassDef) and x.name == cn][0]
            if cn in ('KmipEngine', 'KmipSession'):
                from ..tables import mutated_names
                raw = ast.parse(src.text(rel))      # as written (constant tables are expanded away in the analysed tree)
                rc = [x for x in ast.walk(raw) if isinstance(x, ast.ClassDef) and x.name == cn][0]
                cands = [s for s in rc.body if isinstance(s, ast.Assign) and isinstance(s.value, (ast.List, ast.Dict, ast.Set, ast.Call))
                         and len(s.targets) == 1 and isinstance(s.targets[0], ast.Name)]
                changed = mutated_names(raw, {s.targets[0].id for s in cands}, {id(s.targets[0]) for s in cands})
                # the same container under a local name: v = self.<name> ... v[k] = x / v.update(...) / del v[k]
                cnames = {s.targets[0].id for s in cands}
                for fn_ in [x for x in rc.body if isinstance(x, ast.FunctionDef)]:
                    al = {}
                    for x in walk_local(fn_):
                        if isinstance(x, ast.Assign) and len(x.targets) == 1 and isinstance(x.targets[0], ast.Name) and isinstance(x.value, ast.Attribute) \
                                and isinstance(x.value.value, ast.Name) and x.value.value.id in ('self', 'cls', cn) and x.value.attr in cnames:
                            al[x.targets[0].id] = x.value.attr
                    for x in walk_local(fn_):
                        b = None
                        if isinstance(x, ast.Subscript) and isinstance(x.ctx, (ast.Store, ast.Del)):
                            b = x.value
                        elif isinstance(x, ast.Call) and isinstance(x.func, ast.Attribute) and x.func.attr in MUTATORS:
                            b = x.func.value
                        if isinstance(b, ast.Name) and b.id in al:
                            changed = set(changed) | {al[b.id]}
                for s in cands:
                    if s.targets[0].id not in changed:
                        ctx.ok('C10.R3', '%s:%s %s' % (rel, s.lineno, cn), 'class-level container %s is never rebound or modified: a constant table' % s.targets[0].id)
                        continue
                    if True:
                        ctx.fail('C10.R3', '%s|class-attr %s' % (cn, U(s.targets[0])), '%s:%s %s' % (rel, s.lineno, cn),
                                 'class-level mutable attribute shared by all instances/threads: %s' % short(s))
    ctx.count('functions_scanned_R3', n_funcs, 85)

    # ---- R4
    st = src.tree(SESSION)
    n_reads = 0
    for rel, n in uses:
        if rel != SESSION:
            continue
        n_reads += 1
        site = '%s:%s' % (rel, n.lineno)
        if n.attr in m.methods:
            ctx.ok('C10.R4', site, 'method use _engine.%s' % n.attr)
        else:
            ctx.check(n.attr not in per_req and isinstance(n.ctx, ast.Load), 'C10.R4', 'KmipSession|_engine.%s' % n.attr, site,
                      'reads engine field %s (written only in __init__)' % n.attr,
                      'session accesses engine field %s which is per-request state written under the lock' % n.attr)
    ctx.count('session_engine_uses', n_reads, 5)
    # the (response, max size, version) triple is unpacked from the process_request result
    sc = get_class(st, 'KmipSession')
    loop = get_method(sc, '_handle_message_loop')
    pr_calls = [n for n in walk_local(loop) if isinstance(n, ast.Call) and dotted(n.func) == 'self._engine.process_request']
    ctx.need(len(pr_calls) == 1, 'unrecognised construct: expected exactly one process_request call in _handle_message_loop, found %d' % len(pr_calls))
    p = pr_calls[0]._parent
    resvar = None
    if isinstance(p, ast.Assign) and len(p.targets) == 1:
        tg = p.targets[0]
        if isinstance(tg, ast.Name):
            resvar = tg.id
            unpack = [s for s in walk_local(loop) if isinstance(s, ast.Assign) and isinstance(s.value, ast.Name)
                      and s.value.id == resvar and isinstance(s.targets[0], ast.Tuple)]
            names = [U(e) for s in unpack for e in s.targets[0].elts]
        elif isinstance(tg, ast.Tuple):
            names = [U(e) for e in tg.elts]
    else:
        names = []
    ctx.check(len(names) == 3, 'C10.R4', 'KmipSession._handle_message_loop|result-triple', '%s:%s' % (SESSION, pr_calls[0].lineno),
              'response, size limit and version are taken from the locked call result: %s' % names,
              'process_request result is not unpacked into (response, max size, version)')
    check_one_engine_for_all_sessions(ctx)
    check_nothing_handed_out_is_updated_in_place(ctx, m)
    check_session_per_request(ctx, m)
    ctx.not_decided += ["SQLite/SQLAlchemy thread-safety with check_same_thread=False (single writer under the lock is assumed)",
                        "fairness/ordering of lock acquisition between sessions"]
    ctx.assumptions += ["threading.RLock is a mutual-exclusion lock", "no monkey-patching of KmipEngine at run time",
                        "the shared policies dict is written only by the policy monitor process (C18)"]
