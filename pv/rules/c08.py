"""C08 - batch results are complete and failed items leave no trace."""
import ast

from ..astutil import U, dotted, walk_local, is_self_attr, call_name, short, enum_member, params, bind_args
from ..cfg import CFG, calls_at
from ..dataflow import ReachingDefs, node_of_expr
from ..guards import call_nodes, dominating_edges, cmp_parts, handler_catches, edge_successors
from ..engmodel import ENGINE, CHOKE
from ..engai import EngineAI
from ..source import AnalysisError

EXPLANATION = (
    "CFG/path analysis of KmipEngine._process_batch (one result per executed item on every non-raising path through the loop body, echo of "
    "operation and batch item ID from the request item, break only under error and STOP, per-item try with KmipError and catch-all arms, no "
    "raise inside the loop outside that try), typestate analysis of all handlers (no explicit raise while a stored object is mutated, added or "
    "deleted but not committed, none after the commit), closed write-set and common fallback shape of the ID placeholder, request-level "
    "rejections before the first item executes. Decides these structural necessary conditions on all paths; equality of store snapshots "
    "around a failed item for implicit (third-party) exceptions is not decided.")


def batch_iteration_paths(g, L, resp, item_try, handling_param):
    """Simulate one iteration of the batch loop on every path.  Tracked per path: '#n' results appended, '#item' the value
    appended last, '#failed' an except arm of the per-item try was entered, '#stop' outcome of the `== STOP` test."""
    from ..pathsim import Sim

    def hook(sim, n, env):
        for c in calls_at(n):
            if isinstance(c.func, ast.Attribute) and c.func.attr in ('append', 'insert', 'extend') and isinstance(c.func.value, ast.Name) and c.func.value.id == resp:
                env['#n'] = env.get('#n', 0) + 1
                env['#item'] = sim.ev(c.args[-1], env) if c.args else ('c', None)
        if n.kind == 'handler' and item_try is not None and n.stmt in item_try.handlers:
            env['#failed'] = True

    def edge_hook(sim, n, lab, m_, env):
        if n.kind == 'test' and lab in ('T', 'F'):
            p = cmp_parts(n.stmt)
            if p and isinstance(p[0], ast.Name) and p[0].id == handling_param and enum_member(p[2]) == ('BatchErrorContinuationOption', 'STOP') and p[1] in ('Eq', 'Is'):
                env['#stop'] = (lab == 'T')
            elif p and isinstance(p[0], ast.Name) and p[0].id == handling_param and enum_member(p[2]) == ('BatchErrorContinuationOption', 'STOP') and p[1] in ('NotEq', 'IsNot'):
                env['#stop'] = (lab == 'F')
        return env

    sim = Sim(g, hook)
    sim.edge_hook = edge_hook
    starts = edge_successors(L, 'T')
    # leaving the loop: everything outside it
    loop = L.stmt
    stops = [L, g.exit, g.raise_exit] + [n for n in g.nodes if loop not in n.loops and n is not L]
    env0 = {}
    sim.transfer(L, env0)       # the loop variable is bound at the head
    res = sim.run(starts, stops, env0)
    return sim, res



def locate_sets_single_result(hg, hrd, node, val, fn):
    """the store is `self._id_placeholder = X[0]` on the true edge of `len(X) == 1`, X being the very list handed to LocateResponsePayload(unique_identifiers=X)"""
    from ..guards import dominating_edges, cmp_parts
    if not (isinstance(val, ast.Subscript) and isinstance(val.value, ast.Name) and isinstance(val.slice, ast.Constant) and val.slice.value == 0):
        return False
    x = val.value.id
    returned = [k.value for c in ast.walk(fn) if isinstance(c, ast.Call) and (call_name(c) or '').endswith('LocateResponsePayload') for k in c.keywords if k.arg == 'unique_identifiers']
    if not (len(returned) == 1 and isinstance(returned[0], ast.Name) and returned[0].id == x):
        return False
    # x is not rebound between the test, the store and the construction of the response
    if len([d for d in hrd.reaching(node, x)]) != 1:
        return False
    for tt, lab in dominating_edges(hg, node):
        p = cmp_parts(tt.stmt)
        if p and p[1] == 'Eq' and lab == 'T' and isinstance(p[0], ast.Call) and call_name(p[0]) == 'len' and p[0].args and U(p[0].args[0]) == x \
                and isinstance(p[2], ast.Constant) and p[2].value == 1:
            return True
    return False

def run(ctx):
    src = ctx.src
    ai = EngineAI.shared(src)
    m = ai.m
    for rid, text in (
        ('C08.R1', '_process_batch iterates the request items in order; every non-raising path through the loop body appends exactly one ResponseBatchItem echoing the request item\'s operation and ID; break only under error_occurred and STOP; the per-item try has KmipError and catch-all arms which set error_occurred'),
        ('C08.R2', 'no raise inside the batch loop outside the per-item try (it would discard the results of items already executed and committed)'),
        ('C08.R3', 'no handler (or inlined helper) explicitly raises while a stored object is mutated/added/deleted and uncommitted, nor after its commit'),
        ('C08.R5', '_id_placeholder is stored only by the request prologue (None) and by the creating handlers, after their commit, from the new object\'s identifier; every handler with an optional identifier passes the payload identifier when present and the placeholder otherwise'),
        ('C08.R6', 'all request-level rejections in process_request precede the call of _process_batch'),
    ):
        ctx.rule(rid, text)
    if ai.bounds_hit:
        raise AnalysisError('analysis bound hit: %s' % ai.bounds_hit[:3])
    pb = m.method('_process_batch')
    g = CFG(pb)
    rd = ReachingDefs(g)
    ps = params(pb)
    site0 = m.site(pb, pb)
    opc = call_nodes(g, 'self._process_operation')
    ctx.need(len(opc) == 1, 'unrecognised construct: expected one _process_operation call in _process_batch')
    loops = [n for n in g.nodes if n.kind == 'loop' and isinstance(n.stmt, ast.For) and n.stmt in opc[0][0].loops]
    ctx.need(len(loops) == 1, 'unrecognised construct: the _process_operation call must sit in exactly one for loop (found %d)' % len(loops))
    L = loops[0]
    loop = L.stmt
    lsite = m.site(loop, pb)
    # `for item in batch` or, with a running position for log records, `for i, item in enumerate(batch[, start])`
    it_, tg_ = loop.iter, loop.target
    if isinstance(it_, ast.Call) and call_name(it_) == 'enumerate' and it_.args and isinstance(tg_, ast.Tuple) and len(tg_.elts) == 2 and isinstance(tg_.elts[1], ast.Name) \
            and all(isinstance(x, ast.Constant) for x in it_.args[1:] + [k.value for k in it_.keywords]):
        it_, tg_ = it_.args[0], tg_.elts[1]
    ctx.check(isinstance(it_, ast.Name) and it_.id == ps[0] and len(rd.reaching(L, ps[0])) == 1 and rd.reaching(L, ps[0])[0][2] is None
              and isinstance(tg_, ast.Name), 'C08.R1', 'KmipEngine._process_batch|iterates-request-in-order', lsite,
              'for <item> in <request batch parameter>', 'the loop does not iterate the request batch itself in order: %s' % U(loop.iter))
    item = tg_.id if isinstance(tg_, ast.Name) else None
    # the response list
    rets = [p for p, l in g.exit.pred if isinstance(p.stmt, ast.Return)]
    ctx.need(len(rets) >= 1 and all(isinstance(r.stmt.value, ast.Name) for r in rets), 'unrecognised construct: _process_batch return')
    resp = rets[0].stmt.value.id
    appends = [(n, c) for n in g.nodes for c in calls_at(n) if isinstance(c.func, ast.Attribute) and c.func.attr in ('append', 'insert', 'extend')
               and isinstance(c.func.value, ast.Name) and c.func.value.id == resp]
    ctx.count('result_append_sites', len(appends), 1)
    anodes = [n for n, c in appends]
    on, oc = opc[0]
    item_try = on.tries[-1] if on.tries and loop in on.loops else None
    breaks = [n for n in g.nodes if n.kind == 'stmt' and isinstance(n.stmt, ast.Break) and loop in n.loops and n.loops[-1] is loop]
    # ---- what holds on every path through one iteration (pv/pathsim.py): from the first statement of the loop body to the
    #      loop head again (next item), to the statement after the loop (break) or out of the function
    sim_ = batch_iteration_paths(g, L, resp, item_try, ps[1])
    sim, paths = sim_
    done = [(n, lab, env) for n, lab, env in paths if n is L or lab == 'break']
    ok_one = bool(done) and all(env.get('#n', 0) == 1 for n, lab, env in done)
    ctx.check(ok_one and all(c.func.attr == 'append' for n, c in appends), 'C08.R1', 'KmipEngine._process_batch|one-result-per-item', lsite,
              'every completed iteration appends exactly one result (%d path classes)' % len(done),
              'an iteration can complete without appending a result, or append two: %s' % sorted(set(env.get('#n', 0) for n, lab, env in done)))
    cons_sites = {}
    echo_bad, stale, not_cons = [], [], []
    for n, lab, env in done:
        v = env.get('#item')
        d = sim.describe(v) if v else None
        if not d or d[0] != 'call' or not (call_name(d[1]) or '').endswith('ResponseBatchItem'):
            not_cons.append(v)
            continue
        call = d[1]
        cons_sites[id(call)] = call
        kws = d[3]
        for fld in ('operation', 'unique_batch_item_id'):
            dv = sim.describe(kws.get(fld)) if kws.get(fld) else None
            base_ = sim.describe(dv[2]) if dv and dv[0] == 'attr' else None
            if base_ and base_[0] == 'unpack' and base_[2] == 1 and isinstance(loop.iter, ast.Call) and call_name(loop.iter) == 'enumerate':
                base_ = sim.describe(base_[1])            # the item of `for i, item in enumerate(batch)`
            good = bool(dv) and dv[0] == 'attr' and dv[1].attr == fld and base_ == ('iter', loop)
            if not good:
                echo_bad.append((call, fld))
        for fld in ('result_status', 'result_reason', 'result_message', 'response_payload'):
            if fld not in kws or sim.is_pre(kws[fld]):
                stale.append((call, fld))
    ctx.need(cons_sites or not_cons, 'unrecognised construct: no result is appended in the batch loop')
    for call in cons_sites.values() or [loop]:
        eb = sorted(set(f for c_, f in echo_bad if c_ is call))
        ctx.check(not eb and not not_cons, 'C08.R1', 'KmipEngine._process_batch|echo-operation-and-id', m.site(call, pb),
                  'on every path the appended result is a ResponseBatchItem echoing the request item\'s operation and unique batch item ID',
                  'the result does not echo the request item\'s own operation / batch item ID: %s' % (eb or 'appended value is not a ResponseBatchItem built in this iteration'))
        sb = sorted(set(f for c_, f in stale if c_ is call))
        ctx.check(not sb, 'C08.R1', 'KmipEngine._process_batch|result-fields-bound', m.site(call, pb),
                  'status, reason, message and payload of the result are (re)assigned in the iteration that builds it, on every path',
                  'result fields are not assigned within the iteration that builds the result (a value can carry over from an earlier item): %s' % sb)
    # the per-item try
    okt = item_try is not None
    if okt:
        catches = [handler_catches(h) for h in item_try.handlers]
        okt = any(c == ['exceptions.KmipError'] for c in catches) and any('*' in c for c in catches)
        for h in item_try.handlers:
            if any(isinstance(x, ast.Raise) for s_ in h.body for x in ast.walk(s_)):
                okt = False
    failed = [(n, lab, env) for n, lab, env in done if env.get('#failed')]
    fine = [(n, lab, env) for n, lab, env in done if not env.get('#failed')]
    # a failed item under STOP ends the loop; nothing else does
    stop_continue = [env for n, lab, env in failed if n is L and env.get('#stop') is not False]
    early_stop = [env for n, lab, env in done if lab == 'break' and not (env.get('#failed') and env.get('#stop') is True)]
    okt = okt and not stop_continue
    ctx.check(okt, 'C08.R1', 'KmipEngine._process_batch|per-item-try', m.site(oc, pb),
              'the operation runs inside try/except KmipError/except Exception; neither arm raises; after a failed item the loop goes on only when the client did not ask to stop',
              'the per-item try does not contain every exception of the operation (KmipError and catch-all arms), or a failed item does not stop the batch under the Stop option')
    for b in breaks or [L]:
        mine = [env for n, lab, env in done if lab == 'break']
        ctx.check(not early_stop and (b is L or all(g.dominates(a_, b) or env.get('#n', 0) == 1 for a_ in anodes for env in mine)), 'C08.R1',
                  'KmipEngine._process_batch|break-only-on-error-and-stop', m.site(b.stmt, pb) if b is not L else lsite,
                  'the loop is left early only when the item failed and the client asked to stop, after its result was appended',
                  'processing can stop although no item failed / the client asked to continue')
    ctx.check(any(lab == 'break' for n, lab, env in failed), 'C08.R1', 'KmipEngine._process_batch|stop-on-error-present', lsite, 'stop-on-error break exists',
              'processing does not stop at the first failed item under the Stop option')
    ctx.check(bool(fine) and bool(failed), 'C08.R1', 'KmipEngine._process_batch|error-flag-discipline', lsite,
              'successful and failed items are told apart on every path (%d / %d path classes)' % (len(fine), len(failed)),
              'the batch loop has no path for a successful item or none for a failed one')
    # success status only on the fall-through of the try; reason/message only in the arms (C02.R4 shares this)
    # ---------------- R2
    raises = [n for n in g.nodes if n.kind == 'stmt' and isinstance(n.stmt, ast.Raise) and loop in n.loops and not n.tries]
    if raises:
        for r in raises:
            ctx.fail('C08.R2', 'KmipEngine._process_batch|raise-in-loop %s' % (call_name(r.stmt.exc) if isinstance(r.stmt.exc, ast.Call) else U(r.stmt.exc)),
                     m.site(r.stmt, pb), 'a raise inside the batch loop, outside the per-item try: when a later item trips it, the results of items already executed (and committed) are never reported')
    else:
        ctx.ok('C08.R2', lsite, 'no raise inside the loop outside the per-item try')
    # raises elsewhere in _process_batch must happen before the first item is executed
    for r in [n for n in g.nodes if n.kind == 'stmt' and isinstance(n.stmt, ast.Raise) and loop not in n.loops]:
        ctx.check(r.id not in g.reachable(L), 'C08.R2', 'KmipEngine._process_batch|raise-after-items', m.site(r.stmt, pb),
                  'batch-level rejection happens before any item is executed', 'a raise in _process_batch is reachable after items were executed')
    # calls in the loop outside the try that may raise KMIP errors by design (none expected): every self-call in the loop is inside the try
    for n in g.nodes:
        if loop in n.loops and not n.tries:
            for c in calls_at(n):
                if is_self_attr(c.func) and c.func.attr in m.methods:
                    ctx.fail('C08.R2', 'KmipEngine._process_batch|engine-call-outside-try %s' % c.func.attr, m.site(c, pb),
                             'an engine method is called in the batch loop outside the per-item try; its exceptions abort the whole batch')

    # ---------------- R3 mutate-then-raise
    n_r = 0
    bad = {}
    for e in ai.events:
        if e['kind'] != 'raise':
            continue
        n_r += 1
        dirty = set(e['state']['dirty']) & {'loaded', 'added', 'deleted', 'mixed', 'unknown'}
        if (dirty or e['state']['commits']) and not e['in_handler']:
            k = (e['ctx'][0], e['fn'], e['line'], e['exc'])
            bad.setdefault(k, e)
    ctx.count('explicit_raise_events', n_r, 150)
    for (root, fn, line, exc), e in sorted(bad.items(), key=str):
        ctx.fail('C08.R3', 'KmipEngine.%s|raise %s after effect|via %s' % (fn, exc, root), '%s:%s KmipEngine.%s' % (ENGINE, line, fn),
                 'explicit raise of %s while the session holds uncommitted changes %s (commits so far: %d): the item reports failure but its partial effect is flushed by the next commit; call chain %s'
                 % (exc, sorted(e['state']['dirty']), e['state']['commits'], ' > '.join(e['ctx'])))
    if not bad:
        ctx.ok('C08.R3', ENGINE, 'no explicit raise with uncommitted or already committed effects in %d raise events' % n_r)
    # rollback presence (informational R4)
    rb = [c for fn in m.methods.values() for c in walk_local(fn) if isinstance(c, ast.Call) and isinstance(c.func, ast.Attribute) and c.func.attr in ('rollback', 'expunge', 'expunge_all')]
    ctx.note('C08.R4 informational: %d rollback/expunge calls in engine.py; R3 is the only barrier against partial effects' % len(rb))

    # ---------------- R5 placeholder
    fe = m.field_effects()
    n_st = 0
    creating = set()
    for meth, (r, w) in sorted(fe.items()):
        for n in w.get('_id_placeholder', []):
            n_st += 1
            fn = m.methods[meth]
            site = m.site(n, fn)
            val = n._parent.value if isinstance(n._parent, ast.Assign) else None
            if meth in ('__init__', 'process_request'):
                ctx.check(isinstance(val, ast.Constant) and val.value is None, 'C08.R5', 'KmipEngine.%s|placeholder-reset' % meth, site, 'reset to None', 'placeholder set to %s in %s' % (U(val), meth))
                continue
            hg = CFG(fn)
            hrd = ReachingDefs(hg)
            node = node_of_expr(hg, n._parent)
            if meth == '_process_locate' and locate_sets_single_result(hg, hrd, node, val, fn):
                # KMIP: a Locate that returns exactly one identifier places it in the ID placeholder (nothing is created, nothing to commit)
                ctx.ok('C08.R5', site, 'Locate copies its single returned identifier into the ID placeholder')
                continue
            creating.add(meth)
            commits_ = m.commit_nodes(hg)
            okp = meth in m.handlers and bool(commits_) and all(hg.dominates(cn, node) for cn in commits_)
            okv = False
            # the stored value may be hoisted into a local: follow single reaching definitions of plain names
            vnode, hops = node, 0
            while isinstance(val, ast.Name) and hops < 4:
                ds = [d for d in hrd.reaching(vnode, val.id)]
                if len(ds) != 1 or not isinstance(ds[0][1], ast.AST) or ds[0][2] is None:
                    break
                val, vnode, hops = ds[0][1], ds[0][2], hops + 1
            if isinstance(val, ast.Call) and call_name(val) == 'str' and len(val.args) == 1 and isinstance(val.args[0], ast.Attribute) and val.args[0].attr == 'unique_identifier' \
                    and isinstance(val.args[0].value, ast.Name):
                ov = val.args[0].value.id
                vals = hrd.values(vnode, ov)
                fresh = bool(vals) and all(isinstance(v, ast.Call) and ((call_name(v) or '').startswith('objects.') or (isinstance(v.func, ast.Attribute) and v.func.attr == 'convert')) for v in vals)
                okv = fresh and bool(m.add_nodes(hg, ov))
            ctx.check(okp and okv, 'C08.R5', 'KmipEngine.%s|placeholder-store' % meth, site, 'placeholder = str(<new object>.unique_identifier) after the commit',
                      'the ID placeholder is stored before the commit, outside a creating handler, or not from the newly added object')
    ctx.count('placeholder_stores', n_st, 1)
    adders = sorted(set(e['ctx'][0] for e in ai.events if e['kind'] == 'add'))
    ctx.count('creating_handlers', len(adders), 4)
    for h in adders:
        fn = m.method(h)
        hg = CFG(fn)
        st_nodes = [n for n in hg.nodes if n.kind == 'stmt' and isinstance(n.stmt, ast.Assign) and is_self_attr(n.stmt.targets[0], '_id_placeholder')]
        ctx.check(bool(st_nodes) and hg.all_paths_pass(hg.entry, hg.exit, st_nodes), 'C08.R5', 'KmipEngine.%s|creating-handler-sets-placeholder' % h, m.site(fn, fn),
                  'every successful return of the creating handler has set the ID placeholder', 'a creating handler can return without setting the ID placeholder (later items of the batch cannot address the new object)')
    n_fb = 0
    shapes = {}
    for h in m.handlers:
        fn = m.method(h)
        loads = m.load_sites(fn)
        if not loads:
            continue
        hg = CFG(fn)
        hrd = ReachingDefs(hg)
        def in_log_call(n):
            # a read that only feeds a log record (self._logger.debug("... {0}".format(self._id_placeholder))) selects nothing
            x = getattr(n, '_parent', None)
            while x is not None and not isinstance(x, ast.stmt):
                if isinstance(x, ast.Call) and isinstance(x.func, ast.Attribute) and is_self_attr(x.func.value, '_logger'):
                    return True
                x = getattr(x, '_parent', None)
            return False
        reads_ph = [n for n in walk_local(fn) if is_self_attr(n, '_id_placeholder') and isinstance(n.ctx, ast.Load) and not in_log_call(n)]
        if not reads_ph:
            continue
        n_fb += 1
        site = m.site(fn, fn)
        # the primary load: the one whose identifier can be the placeholder
        found = False
        for c in loads:
            a = c.args[0] if c.args else None
            if not isinstance(a, ast.Name):
                continue
            node = node_of_expr(hg, c)
            defs = hrd.reaching(node, a.id)
            kinds = {}
            for var, val, dn in defs:
                if isinstance(val, ast.AST) and is_self_attr(val, '_id_placeholder'):
                    kinds['placeholder'] = dn
                elif isinstance(val, ast.AST) and U(val) in ('payload.unique_identifier', 'payload.unique_identifier.value'):
                    kinds['payload'] = dn
                else:
                    kinds['other:' + (short(val) if isinstance(val, ast.AST) else str(val))] = dn
            if 'placeholder' not in kinds:
                continue
            found = True
            okf = set(kinds) == {'placeholder', 'payload'}
            if okf:
                guard = False
                for t_, lab in dominating_edges(hg, kinds['payload']):
                    if U(t_.stmt) == 'payload.unique_identifier' and lab == 'T':
                        guard = True
                # placeholder must not win when the payload carries an identifier: placeholder def either precedes the test or sits on its F edge
                pdn = kinds['placeholder']
                onF = any(U(t_.stmt) == 'payload.unique_identifier' and lab == 'F' for t_, lab in dominating_edges(hg, pdn))
                before = hg.dominates(pdn, kinds['payload'])
                okf = guard and (onF or before)
            ctx.check(okf, 'C08.R5', 'KmipEngine.%s|identifier-fallback' % h, m.site(c, fn),
                      'identifier = payload.unique_identifier when present, else the ID placeholder',
                      'the identifier passed to the access check deviates from the common fallback shape (payload identifier when present, placeholder otherwise): %s' % sorted(kinds))
        ctx.check(found, 'C08.R5', 'KmipEngine.%s|placeholder-read-unused' % h, site, 'placeholder feeds the access-controlled load', 'the placeholder is read but does not feed the load through the common fallback')
    ctx.count('fallback_handlers', n_fb, 8)

    # ---------------- R6
    pr = m.method('process_request')
    pg = CFG(pr)
    bc = call_nodes(pg, 'self._process_batch')
    ctx.need(len(bc) == 1, 'unrecognised construct: expected one _process_batch call in process_request')
    bn, bcall = bc[0]
    later = [n for n in pg.nodes if n.kind == 'stmt' and isinstance(n.stmt, ast.Raise) and any(n.id in pg.reachable(mm) for mm, l in bn.succ if l != 'exc')]
    ctx.check(not later, 'C08.R6', 'KmipEngine.process_request|rejections-before-batch', m.site(bcall, pr), 'no request-level rejection after the batch has been processed',
              'process_request can reject the request after items were executed: lines %s' % [n.line for n in later])
    b = bind_args(pb, bcall)
    okb = U(b.get(ps[0])) .endswith('.batch_items') and isinstance(b.get(ps[1]), ast.Name)
    ctx.check(okb, 'C08.R6', 'KmipEngine.process_request|batch-arguments', m.site(bcall, pr), 'the request\'s own batch items and error option are processed', 'the batch call does not receive request.batch_items / the error continuation option')
    # ---------------- R7 results of executed items are withheld only for the size limit of that very request
    ctx.rule('C08.R7', 'the session replaces the engine\'s batch response by a response-too-large error only when the encoding exceeds the maximum size of this request (the value the request header carried, else the session default, which is stored once in __init__): otherwise items that were executed and committed are never reported (lifted from C12.R5)')
    from ..report import Ctx as _Ctx
    from . import c12 as _c12
    sub = _Ctx('C12', 'quick', ctx.src, 0)
    from ..report import run_lifted as _run_lifted
    _run_lifted(ctx, _c12, sub)
    lifted = [f for f in sub.findings if f.rule == 'C12.R5']
    for f in lifted:
        ctx.fail('C08.R7', f.key, f.site, f.message + ' - a batch that was executed is then answered with an anonymous too-large error')
    if not lifted:
        ctx.ok('C08.R7', 'kmip/services/server/session.py KmipSession._handle_message_loop', 'size test after encode, replacement only under the per-request maximum')
    # ---------------- C08.R8 (lifted from C05)
    ctx.rule('C08.R8', 'the column converters of the object store (kmip/pie/sqltypes.py) never raise: they run during flush and load, i.e. after the row was inserted and committed, so an exception there makes a creating item report failure although its object is stored (lifted from C05.R3)')
    from ..report import Ctx as _LCtx_C08_R8
    from . import c05 as _lsrc_C08_R8
    _sub_C08_R8 = _LCtx_C08_R8('C05', 'quick', ctx.src, 0)
    from ..report import run_lifted as _run_lifted
    _run_lifted(ctx, _lsrc_C08_R8, _sub_C08_R8)
    _lifted_C08_R8 = [f for f in _sub_C08_R8.findings if f.rule == 'C05.R3' and '|total' in f.key]
    for f in _lifted_C08_R8:
        ctx.fail('C08.R8', f.key, f.site, f.message)
    if not _lifted_C08_R8:
        ctx.ok('C08.R8', 'lifted from C05', 'column converters are total')
    ctx.not_decided += ['equality of store snapshots before/after a failed item for implicit exceptions raised by third-party code after a mutation',
                        'batch order option semantics']
    ctx.assumptions += ['a fresh object that was never add()ed to the session leaves no trace', 'the SQLAlchemy session flushes pending changes at the next commit (no rollback in _process_batch)']
