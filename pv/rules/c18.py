"""C18 - policies in force follow the policy files; built-in policies are untouchable (structural part)."""
import ast
from ..polmodel import enum_table

from ..astutil import (U, dotted, get_class, get_method, get_function, methods, walk_local, is_self_attr, call_name, short, params)
from ..cfg import CFG, calls_at, expr_nodes
from ..dataflow import ReachingDefs, node_of_expr
from ..guards import call_nodes, dominating_edges, cmp_parts, edge_successors, handler_catches
from ..source import AnalysisError

MONITOR = 'kmip/services/server/monitor.py'
POLICY = 'kmip/core/policy.py'
EXPLANATION = (
    "Structural analysis of PolicyDirectoryMonitor and the policy parser: (R1) every store/pop on the shared policy store is keyed by a name "
    "that was tested against the reserved list on that path or drawn from policy_map/policy_cache, whose own stores are all behind that test "
    "(inductive invariant: reserved names never enter map or cache); (R2) JSON shape taint: every operation that assumes a mapping on a value "
    "reached from json.loads is dominated by an isinstance(dict) test or enclosed in a try converting to ValueError, so a malformed document is "
    "rejected by ValueError (the only exception the monitor catches); (R3) no policy structure is touched for a file before "
    "read_policy_from_file returned normally; (R4) store and map are updated/popped together; (R5) a replaced definition owned by another file "
    "is pushed on the shadow stack before the overwrite, restore pops the last entry, tuple positions agree. The shadow/restore semantics over "
    "arbitrary file-event histories is a property of a runtime state machine and is NOT decided here.")

STRUCTS = ('policy_store', 'policy_map', 'policy_cache')
MAP_ASSUMING = {'items', 'keys', 'values', 'get', 'iteritems', 'iterkeys', 'itervalues'}


def struct_of(expr):
    if is_self_attr(expr) and expr.attr in STRUCTS:
        return expr.attr
    return None


MUTATORS = {'pop', 'append', 'extend', 'insert', 'remove', 'clear', 'update', 'setdefault', 'sort', 'reverse', 'add', 'discard', 'popitem', '__setitem__', '__delitem__'}
ALIASING = {'get', 'setdefault', 'values', 'items'}


def _root_name(expr):
    """Receiver root of a call/attribute/subscript chain: local Name, or self.<field>."""
    x = expr
    while True:
        if isinstance(x, ast.Call):
            x = x.func
        elif isinstance(x, ast.Attribute):
            if struct_of(x):
                return x
            x = x.value
        elif isinstance(x, ast.Subscript):
            x = x.value
        else:
            return x


def _is_alias_expr(expr):
    """self.F, self.F[k], self.F.get(k, ...), self.F.setdefault(...), self.F.values()/items(): the result shares storage with F."""
    if struct_of(expr):
        return struct_of(expr)
    if isinstance(expr, ast.Subscript) and struct_of(expr.value):
        return struct_of(expr.value)
    if isinstance(expr, ast.Call) and isinstance(expr.func, ast.Attribute) and expr.func.attr in ALIASING and struct_of(expr.func.value):
        return struct_of(expr.func.value)
    return None


def struct_name(expr):
    """self.<field> -> field (any field of the monitor, not only the three policy structures)"""
    return expr.attr if is_self_attr(expr) else None


def _val_exprs(val):
    if isinstance(val, ast.AST):
        yield val
    elif isinstance(val, tuple):
        for v in val:
            for e in _val_exprs(v):
                yield e


def _comp_bound(x):
    """Names bound by comprehensions enclosing x."""
    out = set()
    p = getattr(x, '_parent', None)
    while p is not None and not isinstance(p, (ast.FunctionDef, ast.Lambda)):
        if isinstance(p, (ast.ListComp, ast.SetComp, ast.DictComp, ast.GeneratorExp)):
            for g in p.generators:
                for y in ast.walk(g.target):
                    if isinstance(y, ast.Name):
                        out.add(y.id)
        p = getattr(p, '_parent', None)
    return out


class Snap:
    """Flow-sensitive (reaching-definition based) derivation of local values from reads of the policy structures."""

    def __init__(self, fn, ms):
        self.fn = fn
        self.g = CFG(fn)
        self.rd = ReachingDefs(self.g)
        rd = self.rd
        self.taint = {}      # def id -> set of self.F read nodes
        self.alias = {}      # def id -> F   (the local shares storage with F)
        self.field_of = {}
        # mutation statements: X.<...>(args) on a local root: args flow into the defs of X reaching that node
        muts = []
        for n in self.g.nodes:
            if n.kind == 'stmt' and isinstance(n.stmt, ast.Expr) and isinstance(n.stmt.value, ast.Call):
                r = _root_name(n.stmt.value)
                if isinstance(r, ast.Name) and r.id != 'self':
                    args = [a for c in ast.walk(n.stmt.value) if isinstance(c, ast.Call) for a in list(c.args) + [k.value for k in c.keywords]]
                    muts.append((n, r.id, args))
        changed = True
        rounds = 0
        while changed and rounds < 30:
            changed = False
            rounds += 1
            for i, (var, val, dn) in enumerate(rd.defs):
                if dn is None:
                    continue
                o = set()
                for e in _val_exprs(val):
                    o |= self.origins(dn, e)
                if i in self.alias:
                    o = set()
                if not o <= self.taint.get(i, set()):
                    self.taint.setdefault(i, set()).update(o)
                    changed = True
                a = None
                if isinstance(val, ast.AST):
                    a = _is_alias_expr(val)
                elif isinstance(val, tuple) and val and val[0] == 'iter' and isinstance(val[1], ast.Call) and isinstance(val[1].func, ast.Attribute) and val[1].func.attr == 'values':
                    a = _is_alias_expr(val[1])
                elif isinstance(val, tuple) and val and val[0] == 'unpack' and isinstance(val[1], tuple) and val[1][0] == 'iter' and val[2] == 1 \
                        and isinstance(val[1][1], ast.Call) and isinstance(val[1][1].func, ast.Attribute) and val[1][1].func.attr == 'items':
                    a = _is_alias_expr(val[1][1])
                if a and self.alias.get(i) != a:
                    self.alias[i] = a
                    changed = True
            for n, x, args in muts:
                o = set()
                for e in args:
                    o |= self.origins(n, e)
                if not o:
                    continue
                for d in (rd.IN.get(n.id) or {}).get(x, ()):
                    if not o <= self.taint.get(d, set()):
                        self.taint.setdefault(d, set()).update(o)
                        changed = True
        # writes
        self.writes, self.calls = [], []
        for n in self.g.nodes:
            for e in expr_nodes(n):
                for x in ast.walk(e):
                    if isinstance(x, ast.Subscript) and isinstance(x.ctx, (ast.Store, ast.Del)):
                        f = struct_of(x.value) or (isinstance(x.value, ast.Name) and self.alias_of(n, x.value.id))
                        if f:
                            self.writes.append((f, x, x.slice))
                    if isinstance(x, ast.Call) and isinstance(x.func, ast.Attribute) and x.func.attr in MUTATORS:
                        recv = x.func.value
                        f = struct_of(recv) or (isinstance(recv, ast.Name) and self.alias_of(n, recv.id)) or _is_alias_expr(recv)
                        if f:
                            self.writes.append((f, x, x.args[0] if x.args and struct_of(recv) else None))
                    if isinstance(x, ast.Call) and is_self_attr(x.func) and x.func.attr in ms:
                        self.calls.append(x)
                    if isinstance(x, ast.Assign) and any(struct_of(t) for t in x.targets):
                        self.writes.append(([struct_of(t) for t in x.targets if struct_of(t)][0], x, None))

    def alias_of(self, node, var):
        fs = set(self.alias.get(d) for d in (self.rd.IN.get(node.id) or {}).get(var, ()))
        fs.discard(None)
        return sorted(fs)[0] if fs else None

    def origins(self, node, expr):
        out = set()
        for x in ast.walk(expr):
            if isinstance(x, ast.Attribute) and isinstance(x.ctx, ast.Load) and struct_of(x):
                out.add(x)
            elif isinstance(x, ast.Name) and isinstance(x.ctx, ast.Load) and x.id != 'self' and x.id not in _comp_bound(x):
                for d in (self.rd.IN.get(node.id) or {}).get(x.id, ()):
                    if d in self.alias:
                        # a live view of the structure, not a copy: reading it here is a read of the structure here
                        self.field_of[id(x)] = self.alias[d]
                        out.add(x)
                    else:
                        out |= self.taint.get(d, set())
        return out

    def field(self, r):
        return struct_of(r) or self.field_of.get(id(r))


def snapshot_analysis(ms):
    info = {}
    for name, fn in ms.items():
        sn = Snap(fn, ms)
        info[name] = dict(snap=sn, writes=sn.writes, calls=sn.calls)
    # transitive write summaries: method -> {F: set(param index or None)}  (None = key not a parameter)
    summ = {name: {} for name in ms}
    changed = True
    while changed:
        changed = False
        for name, fn in ms.items():
            ps = params(fn)
            cur = summ[name]

            def note(f, key):
                nonlocal changed
                idx = ps.index(key.id) if isinstance(key, ast.Name) and key.id in ps else None
                if idx not in cur.setdefault(f, set()):
                    cur[f].add(idx)
                    changed = True
            for f, n, key in info[name]['writes']:
                note(f, key)
            for c in info[name]['calls']:
                for f, idxs in list(summ[c.func.attr].items()):
                    for i in idxs:
                        arg = c.args[i] if i is not None and i < len(c.args) else None
                        note(f, arg)
    return info, summ


def check_snapshots(ctx, ms):
    ctx.rule('C18.R6', 'no value derived from policy_store/policy_map/policy_cache outside a loop is used inside that loop when the loop body updates the same structure (a snapshot carried across iterations is stale: ownership moves between files as files are processed); exempt: a query keyed by the loop variable when every update in the loop is keyed by that variable')
    info, summ = snapshot_analysis(ms)
    n_loops = n_uses = 0
    for name, fn in sorted(ms.items()):
        inf = info[name]
        for lp in walk_local(fn):
            if not isinstance(lp, (ast.For, ast.While)):
                continue
            body_nodes = set()
            for st in lp.body + lp.orelse:
                for x in ast.walk(st):
                    body_nodes.add(id(x))
            inside = set(body_nodes)
            for x in ast.walk(lp.iter if isinstance(lp, ast.For) else lp.test):
                inside.add(id(x))
            # structures written in the body: field -> list of key expressions (None = not keyed / unknown)
            written = {}
            for f, n, key in inf['writes']:
                if id(n) in body_nodes:
                    written.setdefault(f, []).append(key)
            for c in inf['calls']:
                if id(c) in body_nodes:
                    for f, idxs in summ[c.func.attr].items():
                        for i in idxs:
                            written.setdefault(f, []).append(c.args[i] if i is not None and i < len(c.args) else None)
            if not written:
                continue
            n_loops += 1
            lv = lp.target.id if isinstance(lp, ast.For) and isinstance(lp.target, ast.Name) else None
            distinct = isinstance(lp, ast.For) and ((isinstance(lp.iter, ast.Call) and ((isinstance(lp.iter.func, ast.Attribute) and lp.iter.func.attr == 'keys') or call_name(lp.iter) in ('set', 'sorted') ))
                                                   or isinstance(lp.iter, (ast.Set, ast.BinOp)))
            stale = {}
            sn = inf['snap']
            # `for x in [<comprehension over the structure>]` written with a temporary: the list is built right before the loop, in the same
            # block, and used for nothing but this loop - the same single evaluation the comprehension in the iterator position is
            own_snapshot = False
            if lv and isinstance(lp, ast.For) and isinstance(lp.iter, ast.Name):
                tname = lp.iter.id
                uses_ = [x for x in walk_local(fn) if isinstance(x, ast.Name) and x.id == tname]
                blk = None
                par_ = getattr(lp, '_parent', None)
                for fld_ in ('body', 'orelse', 'finalbody'):
                    if par_ is not None and lp in (getattr(par_, fld_, None) or []):
                        blk = getattr(par_, fld_)
                if blk is None and par_ is not None and isinstance(par_, ast.ExceptHandler) and lp in par_.body:
                    blk = par_.body
                if blk is not None:
                    before = blk[:blk.index(lp)]
                    ok_all = True
                    for x in uses_:
                        if x is lp.iter:
                            continue
                        p_ = getattr(x, '_parent', None)
                        top = x
                        while getattr(top, '_parent', None) is not None and top not in blk:
                            top = top._parent
                        if top not in before:
                            ok_all = False
                        elif isinstance(x.ctx, ast.Store):
                            ok_all = ok_all and isinstance(p_, ast.Assign) and ((isinstance(p_.value, ast.List) and not p_.value.elts) or isinstance(p_.value, (ast.ListComp, ast.SetComp)))
                        else:
                            ok_all = ok_all and isinstance(p_, ast.Attribute) and p_.attr in ('append', 'add')
                    own_snapshot = ok_all and len(uses_) >= 2
            for st in lp.body + lp.orelse:
                for x in ast.walk(st):
                    if not (isinstance(x, ast.Name) and isinstance(x.ctx, ast.Load) and x.id != 'self') or x.id in _comp_bound(x):
                        continue
                    un = node_of_expr(sn.g, x)
                    if un is None:
                        continue
                    for r in sn.origins(un, x):
                        f = sn.field(r)
                        if id(r) in inside or f not in written:
                            continue
                        if lv and distinct and x.id == lv and all(isinstance(k, ast.Name) and k.id == lv for k in written[f]):
                            continue    # the loop's own variable over distinct elements, every update keyed by it: earlier iterations touched other keys
                        if own_snapshot and x.id == lv:
                            continue
                        n_uses += 1
                        # per-key independence exemption
                        par = getattr(x, '_parent', None)
                        keyed_use = False
                        if lv and distinct and all(isinstance(k, ast.Name) and k.id == lv for k in written[f]):
                            if isinstance(par, ast.Compare) and len(par.ops) == 1 and isinstance(par.ops[0], (ast.In, ast.NotIn)) and par.comparators[0] is x and isinstance(par.left, ast.Name) and par.left.id == lv:
                                keyed_use = True
                            if isinstance(par, ast.Subscript) and par.value is x and isinstance(par.slice, ast.Name) and par.slice.id == lv:
                                keyed_use = True
                            if isinstance(par, ast.Attribute) and par.attr == 'get' and isinstance(getattr(par, '_parent', None), ast.Call) and par._parent.args and isinstance(par._parent.args[0], ast.Name) and par._parent.args[0].id == lv:
                                keyed_use = True
                        if keyed_use:
                            continue
                        stale.setdefault((x.id, f), (r.lineno, x.lineno))
            site = '%s:%s PolicyDirectoryMonitor.%s' % (MONITOR, lp.lineno, name)
            for (var, f), (rl, ul) in sorted(stale.items()):
                ctx.fail('C18.R6', 'PolicyDirectoryMonitor.%s|stale %s of %s in loop' % (name, var, f), site,
                         '%s is derived from self.%s at line %d, outside the loop at line %d whose body updates self.%s; it is used at line %d inside the loop: what earlier iterations changed (ownership moving to another file, a restored definition) is not seen' % (var, f, rl, lp.lineno, f, ul))
            if not stale:
                ctx.ok('C18.R6', site, 'loop updates %s; every value derived from them that is used in the body is computed inside the loop' % sorted(written))
    ctx.count('loops_updating_policy_structures', n_loops, 4)
    ctx.analysed['write_summaries'] = {k: {f: sorted('key=param%s' % i if i is not None else 'other' for i in v) for f, v in d.items()} for k, d in summ.items() if d}


def check_parser_by_folding(ctx, pt):
    """C18.R11: read_policy_from_file, with parse_policy folded through, is evaluated on a finite family of policy documents
    (pv/fold.py; json.loads is modelled as returning the document): it must return normally exactly for the valid ones and raise
    ValueError - nothing else - for every invalid one, because the monitor catches ValueError only."""
    from ..fold import Folder, Opaque, Unfoldable, Raised
    ctx.rule('C18.R11', 'the policy file reader, folded over a family of documents (valid and invalid sections, object types, operations, permissions; unknown sections next to valid ones; section names mixed with object types; non-object shapes at every level; several policies in one file), returns normally exactly for the valid documents and raises ValueError - no other exception - for every invalid one: the directory monitor catches ValueError only, so any other exception aborts the scan instead of rejecting the file')
    rpf = get_function(pt, 'read_policy_from_file')
    site = '%s:%s read_policy_from_file' % (POLICY, rpf.lineno)
    fns = {f.name: f for f in pt.body if isinstance(f, ast.FunctionDef)}
    enum_members = {k: list(enum_table(ctx.src, k)) for k in ('ObjectType', 'Operation', 'Policy')}
    OT = 'SYMMETRIC_KEY'
    good = {OT: {'GET': 'ALLOW_ALL', 'DESTROY': 'ALLOW_OWNER'}}
    sections = [('valid', True, good),
                ('unknown object type', False, {'NOPE': {'GET': 'ALLOW_ALL'}}),
                ('unknown operation', False, {OT: {'NOPE': 'ALLOW_ALL'}}),
                ('unknown permission', False, {OT: {'GET': 'NOPE'}}),
                ('permission is a list', False, {OT: {'GET': ['ALLOW_ALL']}}),
                ('operations not an object', False, {OT: 'x'}),
                ('section is a string', False, 'x'),
                ('section is a list', False, ['x']),
                # falsy non-objects: a truthiness short-cut in front of the type test must not let them through
                ('section is null', False, None), ('section is an empty list', False, []), ('section is an empty string', False, ''),
                ('operations is null', False, {OT: None}), ('operations is an empty list', False, {OT: []}),
                ('permission is null', False, {OT: {'GET': None}})]
    policies = [('empty policy', True, {})]
    for sn, sv, sec in sections:
        policies.append(('preset: %s' % sn, sv, {'preset': sec}))
        policies.append(('group section: %s' % sn, sv, {'groups': {'g1': sec}}))
        policies.append(('legacy form: %s' % sn, sv if isinstance(sec, dict) else False, sec if isinstance(sec, dict) else {'preset': sec}))
        policies.append(('valid preset + group section: %s' % sn, sv, {'preset': good, 'groups': {'g1': sec}}))
    policies += [('groups is a string', False, {'groups': 'x'}),
                 ('unknown section only', False, {'bogus': good}),
                 ('unknown section next to a valid preset', False, {'preset': good, 'bogus': good}),
                 ('unknown section next to valid groups', False, {'groups': {'g1': good}, 'bogus': good}),
                 ('section name mixed with an object type', False, {'preset': good, 'CERTIFICATE': {'GET': 'ALLOW_ALL'}}),
                 ('policy is a string', False, 'x'), ('policy is a list', False, [good]),
                 ('policy is null', False, None), ('policy is an empty list', False, []), ('policy is an empty string', False, ''), ('policy is zero', False, 0),
                 ('policy is false', False, False), ('groups is null', False, {'groups': None}), ('groups is an empty list', False, {'groups': []})]
    docs = [('document is a list', False, [1]), ('document is a string', False, 'x'), ('empty document', True, {}), ('document is null', False, None), ('document is an empty list', False, [])]
    for pn, pv_, pol in policies:
        docs.append((pn, pv_, {'p': pol}))
        docs.append(('a valid policy followed by: %s' % pn, pv_, {'a': {'preset': good}, 'p': pol}))
    import copy as _copy
    bad = []
    n = 0
    try:
        for dn, valid, doc in docs:
            f = Folder(models={'json.loads': lambda *a, **k: _copy.deepcopy(doc), 'json.load': lambda *a, **k: _copy.deepcopy(doc),
                               'six.iteritems': lambda d: list(d.items()) if isinstance(d, dict) else (_ for _ in ()).throw(Raised('AttributeError', None)),
                               'six.iterkeys': lambda d: list(d.keys()) if isinstance(d, dict) else (_ for _ in ()).throw(Raised('AttributeError', None)),
                               'six.itervalues': lambda d: list(d.values()) if isinstance(d, dict) else (_ for _ in ()).throw(Raised('AttributeError', None))},
                       opaque_calls={'open', 'io.open'}, steps=50000)
            f.enum_tables = enum_members
            f.module = pt          # module-level constants (name sets, section tables) resolve to their folded definitions
            for fname, fn_ in fns.items():
                if fname == 'read_policy_from_file':
                    continue

                def mk(fn__):
                    def run_(*args, **kw):
                        ps_ = [a_.arg for a_ in fn__.args.args]
                        env_ = dict(f.__dict__.get('_globals', {}))
                        # defaults of the parameters the call leaves out
                        for a_, d_ in zip(fn__.args.args[len(fn__.args.args) - len(fn__.args.defaults):], fn__.args.defaults):
                            env_[a_.arg] = f.ev(d_, {})
                        env_.update(zip(ps_, args))
                        env_.update(kw)
                        r_ = f.run(fn__.body, env_)
                        return r_[1] if r_[0] == 'return' else None
                    return run_
                f.models[fname] = mk(fn_)
            env = {}
            # module-level constants (e.g. the set of section names hoisted out of the function)
            for st_ in pt.body:
                if isinstance(st_, ast.Assign) and len(st_.targets) == 1 and isinstance(st_.targets[0], ast.Name) and st_.targets[0].id != 'policies':
                    try:
                        env[st_.targets[0].id] = f.ev(st_.value, env)
                    except (Unfoldable, Raised):
                        pass
            f.__dict__['_globals'] = dict(env)
            env[params(rpf, skip_self=False)[0]] = 'policy.json'
            try:
                f.run(rpf.body, env)
                outcome = 'accepted'
            except Raised as ex:
                outcome = (ex.name or '').split('.')[-1]
            n += 1
            want = 'accepted' if valid else 'ValueError'
            if outcome != want:
                bad.append((dn, outcome, want))
    except Unfoldable as ex:
        raise AnalysisError('unrecognised construct: the policy file reader cannot be folded (%s)' % ex)
    ctx.count('policy_documents_folded', n, 60)
    classes = {}
    for dn, outcome, want in bad:
        key = 'accepts an invalid document' if outcome == 'accepted' else ('rejects a valid document' if want == 'accepted' else 'raises %s instead of ValueError' % outcome)
        classes.setdefault(key, []).append(dn)
    if not bad:
        ctx.ok('C18.R11', site, 'all %d model documents: valid ones accepted, invalid ones rejected with ValueError' % n)
    for key, dns in sorted(classes.items()):
        ctx.fail('C18.R11', 'read_policy_from_file|%s' % key, site, 'the policy file reader %s for %d of %d model documents, e.g.: %s' % (key, len(dns), n, '; '.join(dns[:3])))



def shadow_helpers_by_shape(rfn, dfn, graphs, pos_map, pos_store):
    """the spelling the helpers have on the pinned tree (fallback when they cannot be folded)"""
    rg, rrd = graphs['restore_or_delete_policy']
    pol = params(rfn)[0]
    pops = [c for c in walk_local(rfn) if isinstance(c, ast.Call) and isinstance(c.func, ast.Attribute) and c.func.attr == 'pop' and isinstance(c.func.value, ast.Name)]
    okr = False
    if len(pops) == 1 and not pops[0].args and isinstance(pops[0]._parent, ast.Assign) and isinstance(pops[0]._parent.targets[0], ast.Name):
        ev = pops[0]._parent.targets[0].id
        cvar = pops[0].func.value.id
        cvals = rrd.values(node_of_expr(rg, pops[0]), cvar)
        from_cache = len(cvals) == 1 and U(cvals[0]).startswith('self.policy_cache.get(%s' % pol)
        assigns = {struct_of(s.targets[0].value): s.value for s in walk_local(rfn) if isinstance(s, ast.Assign) and isinstance(s.targets[0], ast.Subscript) and struct_of(s.targets[0].value)}
        okr = from_cache and U(assigns.get('policy_store')) == '%s[%s]' % (ev, pos_store) and U(assigns.get('policy_map')) == '%s[%s]' % (ev, pos_map)
    dps = params(dfn)
    filt = [c for c in ast.walk(dfn) if isinstance(c, ast.Compare)]
    okd = any(cmp_parts(c) and cmp_parts(c)[1] == 'Eq' and isinstance(cmp_parts(c)[0], ast.Subscript) and isinstance(cmp_parts(c)[0].slice, ast.Constant)
              and cmp_parts(c)[0].slice.value == pos_map and isinstance(cmp_parts(c)[2], ast.Name) and cmp_parts(c)[2].id == dps[1] for c in filt)
    return {'restore': (okr, 'matched by shape'), 'disassociate': (okd, 'matched by shape')}


def fold_shadow_helpers(ctx, ms, rfn, dfn, pos_map, pos_store, width):
    """Both helpers are pure functions of (policy_cache, policy_store, policy_map): fold them over every shadow stack of up to 4 entries
    owned by files {A, B, C} (and over a name without a stack).  Returns None when the code leaves what can be folded."""
    import itertools
    from ..fold import Folder, Unfoldable, Raised, Opaque
    if width is None or pos_map is None or pos_store is None or pos_map == pos_store or max(pos_map, pos_store) >= width:
        return None

    def entry(i, f):
        e = ['t%d' % i] * width
        e[pos_map] = f
        e[pos_store] = 'def%d%s' % (i, f)
        return tuple(e)

    def world(stack):
        cache = {'q': [entry(9, 'Z')]}
        if stack is not None:
            cache['p'] = [entry(i, f) for i, f in enumerate(stack)]
        return {'__attrs__': ('policy_cache', 'policy_store', 'policy_map', 'logger'), 'logger': Opaque('logger'),
                'policy_cache': cache, 'policy_store': {'p': 'cur', 'q': 'qdef'}, 'policy_map': {'p': 'F', 'q': 'Y'}}

    stacks = [None] + [list(t) for n in range(0, 5) for t in itertools.product('ABC', repeat=n)]
    methods = dict(ms)
    out = {}
    n_cases = 0
    try:
        # disassociate(policy, file)
        bad = None
        for st in stacks:
            for f in ('A', 'B'):
                w = world(st)
                fo = Folder(methods=methods, steps=40000)
                try:
                    fo.call_method(dfn, w, ['p', f], {})
                except Raised as ex:
                    bad = bad or 'raises %s for the stack %s and file %s' % (ex.name, st, f)
                    continue
                n_cases += 1
                want = [entry(i, g) for i, g in enumerate(st or []) if g != f]
                got = w['policy_cache'].get('p', [])
                if list(got) != want or w['policy_cache'].get('q') != [entry(9, 'Z')] or w['policy_store'] != {'p': 'cur', 'q': 'qdef'} or w['policy_map'] != {'p': 'F', 'q': 'Y'}:
                    bad = bad or 'with the shadow stack owned by %s, dropping file %s leaves entries of %s' % (st, f, [e[pos_map] for e in got])
        out['disassociate'] = (bad is None, bad or 'folded over %d stacks x 2 files' % len(stacks))
        # restore_or_delete(policy)
        bad = None
        for st in stacks:
            w = world(st)
            fo = Folder(methods=methods, steps=40000)
            try:
                fo.call_method(rfn, w, ['p'], {})
            except Raised as ex:
                bad = bad or 'raises %s for the stack %s' % (ex.name, st)
                continue
            n_cases += 1
            rest_ok = w['policy_cache'].get('q') == [entry(9, 'Z')] and w['policy_store'].get('q') == 'qdef' and w['policy_map'].get('q') == 'Y'
            if not st:
                ok = 'p' not in w['policy_store'] and 'p' not in w['policy_map'] and not w['policy_cache'].get('p')
                msg = 'with nothing shadowed the name stays in %s' % [k for k in ('policy_store', 'policy_map') if 'p' in w[k]]
            else:
                last = entry(len(st) - 1, st[-1])
                ok = w['policy_store'].get('p') == last[pos_store] and w['policy_map'].get('p') == last[pos_map] and list(w['policy_cache'].get('p', [])) == [entry(i, g) for i, g in enumerate(st[:-1])]
                msg = 'with the shadow stack owned by %s the restored definition is %r owned by %r, stack left %s' % (st, w['policy_store'].get('p'), w['policy_map'].get('p'), [e[pos_map] for e in w['policy_cache'].get('p', [])])
            if not (ok and rest_ok):
                bad = bad or (msg if not ok else 'another policy is disturbed')
        out['restore'] = (bad is None, bad or 'folded over %d stacks' % len(stacks))
    except Unfoldable as ex:
        ctx.count("shadow_helpers_unfoldable", 1); ctx.note("shadow helpers not foldable: %s" % ex); import os; os.environ.get("PV_DEBUG") and print("UNFOLDABLE", ex)
        return None
    ctx.count('shadow_helper_cases_folded', n_cases)
    return out

def run(ctx):
    src = ctx.src
    for rid, text in (
        ('C18.R1', 'stores/pops on policy_store use keys that are guarded against reserved_policies on the path or come from policy_map/policy_cache keys; stores into map/cache are themselves guarded'),
        ('C18.R2', 'every mapping-assuming operation on a value reached from json.loads is dominated by isinstance(x, dict) or enclosed by a try that converts to ValueError; every table/enum lookup keyed by document data is enclosed by a try that converts KeyError (and TypeError when the key is an arbitrary JSON value) to ValueError'),
        ('C18.R3', 'in scan_policies no policy structure is updated for a file before read_policy_from_file(f) returned normally; the ValueError arm skips the file'),
        ('C18.R4', 'policy_store[k] and policy_map[k] are assigned together, and popped together with policy_cache[k]'),
        ('C18.R5', 'an overwritten definition owned by another file is appended to policy_cache[k] (previous owner file and definition) before the overwrite; restore pops the last entry and uses the same tuple positions; disassociate filters on the file position'),
    ):
        ctx.rule(rid, text)
    t = src.tree(MONITOR)
    cls = get_class(t, 'PolicyDirectoryMonitor')
    from ..inline import flat_methods
    ms, absorbed_helpers = flat_methods(cls)        # helpers extracted from scan_policies & co. are read in place
    ms = dict(ms)

    # ---------------- R1 + R4: update sites per method
    update_sites = []   # (method, node, struct, kind, key_expr)
    graphs = {}
    for name, fn in ms.items():
        g = CFG(fn)
        rd = ReachingDefs(g)
        graphs[name] = (g, rd)
        for n in g.nodes:
            for e in expr_nodes(n):
                for x in ast.walk(e):
                    if isinstance(x, ast.Subscript) and struct_of(x.value) and isinstance(x.ctx, (ast.Store, ast.Del)):
                        update_sites.append((name, n, struct_of(x.value), 'store', x.slice, x))
                    if isinstance(x, ast.Call) and isinstance(x.func, ast.Attribute) and struct_of(x.func.value) and x.func.attr in ('pop', 'update', 'setdefault', 'clear', 'popitem', '__setitem__', '__delitem__'):
                        update_sites.append((name, n, struct_of(x.func.value), x.func.attr, x.args[0] if x.args else None, x))
                    if isinstance(x, ast.Assign) and any(struct_of(tg) for tg in x.targets) and name != '__init__' and name != 'initialize_tracking_structures':
                        update_sites.append((name, n, [struct_of(tg) for tg in x.targets if struct_of(tg)][0], 'rebind', None, x))
    ctx.count('policy_structure_update_sites', len(update_sites), 5)

    def key_class(method, node, key, depth=0):
        """'guarded' | 'map-derived' | 'param:<name>' | 'unknown:<why>'"""
        g, rd = graphs[method]
        if not isinstance(key, ast.Name):
            return 'unknown:key %s' % U(key)
        # guarded on the path?
        for tt, lab in dominating_edges(g, node):
            p = cmp_parts(tt.stmt)
            if p and isinstance(p[0], ast.Name) and p[0].id == key.id and (is_self_attr(p[2], 'reserved_policies') or (
                    isinstance(p[2], ast.Name) and rd.values(tt, p[2].id) and all(isinstance(v, ast.AST) and is_self_attr(v, 'reserved_policies') for v in rd.values(tt, p[2].id)))):
                if (p[1] == 'In' and lab == 'F') or (p[1] == 'NotIn' and lab == 'T'):
                    if set(id(d[2]) for d in rd.reaching(tt, key.id)) == set(id(d[2]) for d in rd.reaching(node, key.id)):
                        return 'guarded'
        defs = rd.reaching(node, key.id)
        kinds = set()
        for var, val, dn in defs:
            if dn is None:
                kinds.add('param:' + key.id)
            elif isinstance(val, tuple) and val[0] == 'iter':
                kinds.add(iter_class(method, dn, val[1]))
            else:
                kinds.add('unknown:def %s' % (short(val) if isinstance(val, ast.AST) else val))
        return next(iter(kinds)) if len(kinds) == 1 else 'unknown:%s' % sorted(kinds)

    def iter_class(method, node, it, depth=0):
        g, rd = graphs[method]
        if depth > 4:
            return 'unknown:depth'
        # self.policy_map / self.policy_cache keys
        if isinstance(it, ast.Call) and isinstance(it.func, ast.Attribute) and it.func.attr == 'keys' and struct_of(it.func.value) in ('policy_map', 'policy_cache'):
            return 'map-derived'
        if isinstance(it, (ast.ListComp, ast.SetComp, ast.GeneratorExp)) and len(it.generators) == 1:
            gen = it.generators[0]
            if isinstance(gen.iter, ast.Call) and isinstance(gen.iter.func, ast.Attribute) and gen.iter.func.attr == 'items' and struct_of(gen.iter.func.value) in ('policy_map', 'policy_cache') \
                    and isinstance(gen.target, ast.Tuple) and isinstance(it.elt, ast.Name) and isinstance(gen.target.elts[0], ast.Name) and it.elt.id == gen.target.elts[0].id:
                return 'map-derived'
        # names read from a policy file, or all names currently in the shared store: these can be reserved names and need the guard
        if isinstance(it, ast.Call) and isinstance(it.func, ast.Attribute) and it.func.attr == 'keys':
            base = it.func.value
            if struct_of(base) == 'policy_store':
                return 'external:policy_store.keys()'
            if isinstance(base, ast.Name):
                bv = rd.values(node, base.id)
                if bv and all(isinstance(v, ast.Call) and (call_name(v) or '').endswith('read_policy_from_file') for v in bv):
                    return 'external:names defined by the policy file'
        if isinstance(it, ast.Name):
            vals = rd.values(node, it.id)
            if vals and all((isinstance(v, ast.List) and not v.elts) or (isinstance(v, ast.Call) and call_name(v) in ('list', 'set') and not v.args) for v in vals):
                # a collection filled by a loop (a comprehension written out): classified by what is added to it
                ks = set()
                for n2 in g.nodes:
                    for c2 in calls_at(n2):
                        if isinstance(c2.func, ast.Attribute) and c2.func.attr in ('append', 'add') and isinstance(c2.func.value, ast.Name) and c2.func.value.id == it.id and len(c2.args) == 1:
                            a2 = c2.args[0]
                            if isinstance(a2, ast.Name):
                                cls_ = set()
                                for var, val, dn in rd.reaching(n2, a2.id):
                                    if isinstance(val, tuple) and val[0] == 'iter':
                                        cls_.add(iter_class(method, dn, val[1], depth + 1))
                                    elif isinstance(val, tuple) and val[0] == 'unpack' and val[2] == 0 and isinstance(val[1], tuple) and val[1][0] == 'iter':
                                        itx = val[1][1]
                                        if isinstance(itx, ast.Call) and isinstance(itx.func, ast.Attribute) and itx.func.attr == 'items' and struct_of(itx.func.value) in ('policy_map', 'policy_cache'):
                                            cls_.add('map-derived')
                                        else:
                                            cls_.add('unknown:iter %s' % short(itx))
                                    else:
                                        cls_.add('unknown:def')
                                ks |= cls_ or {'unknown:def'}
                            else:
                                ks.add('unknown:adds %s' % short(a2))
                        elif isinstance(c2.func, ast.Attribute) and c2.func.attr in ('extend', 'update', 'insert') and isinstance(c2.func.value, ast.Name) and c2.func.value.id == it.id:
                            ks.add('unknown:%s' % c2.func.attr)
                if ks:
                    return next(iter(ks)) if len(ks) == 1 else 'unknown:%s' % sorted(ks)
            ks = set(iter_class(method, [d for d in rd.reaching(node, it.id)][i][2] or node, v, depth + 1) if isinstance(v, ast.AST) else 'unknown:%s' % (v,) for i, v in enumerate(vals))
            return next(iter(ks)) if len(ks) == 1 else 'unknown:%s' % sorted(ks)
        if isinstance(it, ast.BinOp) and isinstance(it.op, ast.Sub):
            return iter_class(method, node, it.left, depth + 1)     # a set difference is a subset of its left operand
        if isinstance(it, ast.Call) and call_name(it) in ("set", "sorted", "list", "tuple", "frozenset") and len(it.args) == 1:
            return iter_class(method, node, it.args[0], depth + 1)
        return 'unknown:iter %s' % short(it)

    def callers_ok(method, pname, seen=()):
        """every call of self.<method> passes a guarded/map-derived key for parameter pname"""
        fn = ms[method]
        ps = params(fn)
        idx = ps.index(pname)
        res = []
        for cname, cfn in ms.items():
            g, rd = graphs[cname]
            for n in g.nodes:
                for c in calls_at(n):
                    if is_self_attr(c.func, method):
                        a = c.args[idx] if len(c.args) > idx else None
                        kc = key_class(cname, n, a)
                        if kc.startswith('param:') and (cname, kc) not in seen:
                            kc = 'map-derived' if callers_ok(cname, kc[6:], seen + ((cname, kc),)) else 'unknown:caller of %s' % cname
                        res.append((cname, n.line, kc))
        return bool(res) and all(k in ('guarded', 'map-derived') for _, _, k in res), res

    deferred = []
    for method, node, struct, kind, key, x in update_sites:
        site = '%s:%s PolicyDirectoryMonitor.%s' % (MONITOR, node.line, method)
        k = 'PolicyDirectoryMonitor.%s|%s %s' % (method, kind, struct)
        if kind in ('rebind', 'clear', 'update', 'popitem'):
            ctx.fail('C18.R1', k, site, 'policy structure %s is %s: reserved entries could be dropped or replaced wholesale' % (struct, kind))
            continue
        kc = key_class(method, node, key)
        why = kc
        if kc.startswith('unknown:'):
            # the analysis cannot tell where this key comes from: that is not a verdict (exactness policy)
            deferred.append('unrecognised construct: provenance of the key used at %s:%s (%s %s) cannot be classified: %s' % (MONITOR, node.line, kind, struct, kc))
            continue
        if kc.startswith('param:'):
            okc, res = callers_ok(method, kc[6:])
            why = 'parameter %s; callers: %s' % (kc[6:], res)
            if not okc and any(str(k).startswith('unknown') for _, _, k in res):
                deferred.append('unrecognised construct: provenance of the key passed to %s cannot be classified: %s' % (method, res))
                continue
            kc = 'map-derived' if okc else 'unguarded'
        if struct == 'policy_store':
            ctx.check(kc in ('guarded', 'map-derived'), 'C18.R1', k, site, 'key is %s' % why,
                      'the shared policy store is modified under a key that is neither checked against the reserved names nor drawn from the map/cache: %s' % why)
        else:
            # stores INTO map/cache must be guarded (base of the invariant); pops are harmless for the invariant
            if kind == 'store':
                if method == 'restore_or_delete_policy':
                    ctx.check(kc in ('guarded', 'map-derived'), 'C18.R1', k, site, 'restore re-inserts a key that came from the map/cache (%s)' % why, 'restore inserts an unchecked key into %s' % struct)
                else:
                    ctx.check(kc == 'guarded', 'C18.R1', k, site, 'insert into %s behind the reserved-name test' % struct,
                              'a name can enter %s without the reserved-name test (%s); later map-driven updates would then touch a reserved policy' % (struct, why))
            else:
                ctx.ok('C18.R1', site, '%s on %s' % (kind, struct))
    # initialize_tracking_structures may rebind map/cache/files only to empty containers
    its = ms.get('initialize_tracking_structures')
    ctx.need(its is not None, 'anchor vanished: initialize_tracking_structures')
    for s in walk_local(its):
        if isinstance(s, ast.Assign) and struct_of(s.targets[0]):
            ctx.check(struct_of(s.targets[0]) != 'policy_store' and isinstance(s.value, (ast.Dict, ast.List)) and not getattr(s.value, 'keys', getattr(s.value, 'elts', None)),
                      'C18.R1', 'PolicyDirectoryMonitor.initialize_tracking_structures|reset %s' % struct_of(s.targets[0]), '%s:%s' % (MONITOR, s.lineno),
                      'tracking structure reset to empty', 'the shared store is rebound or a tracking structure is initialised non-empty')
    # reserved list itself
    init = ms['__init__']
    rs = [s for s in walk_local(init) if isinstance(s, ast.Assign) and is_self_attr(s.targets[0], 'reserved_policies')]
    okr = len(rs) == 1 and isinstance(rs[0].value, (ast.List, ast.Tuple)) and sorted(e.value for e in rs[0].value.elts if isinstance(e, ast.Constant)) == ['default', 'public']
    stores_r = [mname for mname, fn in ms.items() for n in walk_local(fn) if is_self_attr(n, 'reserved_policies') and isinstance(n.ctx, ast.Store)]
    ctx.check(okr and stores_r == ['__init__'], 'C18.R1', 'PolicyDirectoryMonitor.__init__|reserved-list', '%s:%s' % (MONITOR, init.lineno), "reserved_policies = ['default', 'public'], assigned once",
              "the reserved list is not exactly ['default', 'public'] / is reassigned")

    check_snapshots(ctx, ms)

    # ---------------- R8 a definition is restored only after the leaving file's own shadow entries were dropped
    ctx.rule('C18.R8', 'in scan_policies every restore_or_delete_policy(p) is preceded on all paths by disassociate_policy_and_file for the file being processed - for p itself, or for every key of the shadow cache: otherwise the definition restored can be the very one the file just stopped providing')
    sg, srd = graphs['scan_policies']
    rcalls = [(n, c) for n, c in call_nodes(sg, 'self.restore_or_delete_policy')]
    dcalls = [(n, c) for n, c in call_nodes(sg, 'self.disassociate_policy_and_file')]
    ctx.count('restore_calls_in_scan', len(rcalls), 2)
    for rn_, rc_ in rcalls:
        okord = False
        for dn_, dc_ in dcalls:
            same_p = rc_.args and dc_.args and U(rc_.args[0]) == U(dc_.args[0]) and [d[2] for d in srd.reaching(rn_, U(rc_.args[0]))] == [d[2] for d in srd.reaching(dn_, U(dc_.args[0]))] if isinstance(rc_.args[0], ast.Name) else False
            if same_p and sg.dominates(dn_, rn_):
                okord = True
            # or: an earlier loop over all cache keys that disassociates the file, completed before this call
            for lp in dn_.loops[-1:]:
                head = [x for x in sg.nodes if x.kind == 'loop' and x.stmt is lp]
                if head and sg.dominates(head[0], rn_) and lp not in rn_.loops and isinstance(lp.iter, ast.Call) and isinstance(lp.iter.func, ast.Attribute) and lp.iter.func.attr == 'keys' \
                        and struct_of(lp.iter.func.value) == 'policy_cache':
                    okord = True
        ctx.check(okord, 'C18.R8', 'PolicyDirectoryMonitor.scan_policies|restore-after-disassociate@%s' % short(rc_, 40), '%s:%s PolicyDirectoryMonitor.scan_policies' % (MONITOR, rc_.lineno),
                  'the file is disassociated from the name before the name is restored', 'restore_or_delete_policy runs before (or without) the disassociation of the file that stopped defining the name: the entry popped from the shadow stack can be that file\'s own stale definition')
    # ---------------- R9 a reloaded file gives up the shadowed definitions it no longer provides
    ctx.rule('C18.R9', 'where scan_policies reloads a modified file, the file is disassociated from every name of the shadow cache that its new content does not define (not only from the names it currently owns): a file shadowed for a name keeps an entry on that name\'s stack, and if it stops defining the name that entry must go, or removing the shadowing file later restores the name from a file that no longer defines it')
    rcs = [(n, c) for n, c in call_nodes(sg, 'operation_policy.read_policy_from_file')] or [(n, c) for n, c in call_nodes(sg, '.read_policy_from_file')]
    okr9 = False
    if len(rcs) == 1:
        rn9, rc9 = rcs[0]
        newv = rn9.stmt.targets[0].id if isinstance(rn9.stmt, ast.Assign) and isinstance(rn9.stmt.targets[0], ast.Name) else None
        fvar = U(rc9.args[0]) if rc9.args else None
        for dn_, dc_ in dcalls:
            if not (sg.dominates(rn9, dn_) and dn_.loops and len(dc_.args) == 2 and U(dc_.args[1]) == fvar):
                continue
            lp = dn_.loops[-1]
            if not (isinstance(lp, ast.For) and isinstance(lp.target, ast.Name) and U(dc_.args[0]) == lp.target.id):
                continue
            it = lp.iter
            txt = U(it)
            all_cache_minus_new = isinstance(it, ast.BinOp) and isinstance(it.op, ast.Sub) and 'policy_cache' in U(it.left) and newv is not None and newv in U(it.right)
            guarded_all = 'policy_cache' in txt and any(isinstance(t_.stmt, ast.Compare) and isinstance(t_.stmt.ops[0], ast.NotIn) and U(t_.stmt.left) == lp.target.id and newv and newv in U(t_.stmt.comparators[0]) and lab_ == 'T'
                                                       for t_, lab_ in dominating_edges(sg, dn_))
            if all_cache_minus_new or guarded_all:
                okr9 = True
    ctx.check(okr9, 'C18.R9', 'PolicyDirectoryMonitor.scan_policies|reload-drops-stale-shadow-entries', '%s PolicyDirectoryMonitor.scan_policies' % MONITOR,
              'after a reload the file is disassociated from every cached name absent from its new content',
              'a reloaded file is only disassociated from the names it currently owns: a shadowed file that stops defining a name keeps its stale entry on the shadow stack')
    # ---------------- R10 the engine consults the shared store for every decision
    ctx.rule('C18.R10', 'the engine looks the policy name up in the shared policy store on every access decision: every return of KmipEngine.get_relevant_policy_section is preceded by self._operation_policies.get(<policy name parameter>), and that mapping is assigned once, in __init__, from the constructor argument - no memo of earlier lookups stands between the files and the decision')
    from ..engmodel import EngineModel, ENGINE
    em = EngineModel(src)
    grp = em.method('get_relevant_policy_section')
    gg10 = CFG(grp)
    pname10 = params(grp)[0]
    lk = [n for n in gg10.nodes for c in calls_at(n) if isinstance(c.func, ast.Attribute) and c.func.attr in ('get', '__getitem__') and is_self_attr(c.func.value, '_operation_policies')
          and c.args and isinstance(c.args[0], ast.Name) and c.args[0].id == pname10]
    lk += [n for n in gg10.nodes for e_ in expr_nodes(n) for x in ast.walk(e_) if isinstance(x, ast.Subscript) and is_self_attr(x.value, '_operation_policies') and isinstance(x.slice, ast.Name) and x.slice.id == pname10]
    ok10 = bool(lk) and gg10.all_paths_pass(gg10.entry, gg10.exit, lk)
    stores10 = [meth for meth, (r_, w_) in em.field_effects().items() if '_operation_policies' in w_]
    ctx.check(ok10 and stores10 == ['__init__'], 'C18.R10', 'KmipEngine.get_relevant_policy_section|store-consulted-on-every-path', '%s:%s KmipEngine.get_relevant_policy_section' % (ENGINE, grp.lineno),
              'every return follows a lookup of the policy name in the shared store; the store reference is set once in __init__',
              'a path through get_relevant_policy_section returns without looking the name up in the shared policy store (or the store reference is reassigned in %s): a policy added, restored or repaired by the monitor is then not in force for that name' % stores10)
    # ---------------- R7 no structure is modified while it is being iterated
    ctx.rule('C18.R7', 'no list or dict of the monitor is structurally modified (remove/pop/insert/append/del) inside a for loop that iterates over that very object: elements are skipped (or the iteration fails), so stale shadow entries survive. Iterating a copy (list(x), x[:], a comprehension) or <DictProxy>.keys() (a list, by the recorded assumption) is fine')
    n_it = 0
    SMUT = {'remove', 'pop', 'insert', 'append', 'extend', 'clear', 'popitem', 'update', 'add', 'discard', 'setdefault'}
    for name, fn in sorted(ms.items()):
        for lp in [x for x in walk_local(fn) if isinstance(x, ast.For)]:
            it = lp.iter
            base = None
            if isinstance(it, (ast.Name, ast.Attribute)):
                base = U(it)
            elif isinstance(it, ast.Call) and isinstance(it.func, ast.Attribute) and it.func.attr in ('values', 'items'):
                base = U(it.func.value)
            elif isinstance(it, ast.Call) and isinstance(it.func, ast.Attribute) and it.func.attr == 'keys' and struct_of(it.func.value) != 'policy_store':
                base = U(it.func.value)
            if base is None:
                continue
            n_it += 1
            hits = []
            for st in lp.body:
                for x in ast.walk(st):
                    if isinstance(x, ast.Call) and isinstance(x.func, ast.Attribute) and x.func.attr in SMUT and U(x.func.value) == base:
                        hits.append((x.lineno, U(x)[:50]))
                    if isinstance(x, ast.Delete) and any(isinstance(tg, ast.Subscript) and U(tg.value) == base for tg in x.targets):
                        hits.append((x.lineno, 'del %s[...]' % base))
                    if isinstance(x, ast.Subscript) and isinstance(x.ctx, ast.Store) and U(x.value) == base and isinstance(it, ast.Call) and it.func.attr in ('keys', 'items', 'values'):
                        hits.append((x.lineno, 'item store on %s' % base))
            site = '%s:%s PolicyDirectoryMonitor.%s' % (MONITOR, lp.lineno, name)
            ctx.check(not hits, 'C18.R7', 'PolicyDirectoryMonitor.%s|modifies %s while iterating it' % (name, base), site, 'the iterated object %s is not modified in the loop body' % base,
                      'the loop iterates over %s and its body modifies the same object (%s): the element after each removed one is skipped, so entries that should go stay behind' % (base, hits[:3]))
    ctx.count('direct_iterations_in_monitor', n_it)
    # ---------------- R4 pairing
    scan = ms['scan_policies']
    for name, fn in ms.items():
        blocks = {}
        for method, node, struct, kind, key, x in update_sites:
            if method != name or kind not in ('store', 'pop'):
                continue
            stmt = node.stmt
            blocks.setdefault((id(stmt._parent), getattr(stmt._parent, 'lineno', 0)), []).append((struct, kind, U(key), node.line))
        for (bid, line), ups in sorted(blocks.items(), key=lambda kv: kv[0][1]):
            site = '%s:%s PolicyDirectoryMonitor.%s' % (MONITOR, line, name)
            for kind in ('store', 'pop'):
                ss = set(s for s, k, _, _ in ups if k == kind and s in ('policy_store', 'policy_map'))
                keys = set(ke for s, k, ke, _ in ups if k == kind and s in ('policy_store', 'policy_map'))
                if ss:
                    if name == 'initialize_tracking_structures':
                        continue
                    ctx.check(ss == {'policy_store', 'policy_map'} and len(keys) == 1, 'C18.R4', 'PolicyDirectoryMonitor.%s|paired-%s@%s' % (name, kind, sorted(keys)), site,
                              'store and map %s together under key %s' % (kind, sorted(keys)), 'policy_store and policy_map are not %s together under one key in this block: %s' % ('assigned' if kind == 'store' else 'popped', ups))
                    if kind == 'pop':
                        cs = [u for u in ups if u[0] == 'policy_cache' and u[1] == 'pop' and u[2] in keys]
                        ctx.check(bool(cs), 'C18.R4', 'PolicyDirectoryMonitor.%s|cache-popped-with-store' % name, site, 'cache entry dropped with the policy', 'a removed policy keeps its shadow stack')

    # ---------------- R3 all-or-nothing per file
    g, rd = graphs['scan_policies']
    reads = call_nodes(g, 'operation_policy.read_policy_from_file')
    ctx.need(len(reads) == 1, 'unrecognised construct: expected one read_policy_from_file call in scan_policies')
    rn, rc = reads[0]
    loopstmt = rn.loops[-1] if rn.loops else None
    ctx.need(loopstmt is not None, 'unrecognised construct: read_policy_from_file is not inside the per-file loop')
    in_loop = [(method, node, struct, kind) for method, node, struct, kind, key, x in update_sites if method == 'scan_policies' and loopstmt in node.loops]
    calls_in_loop = [(n, c) for n in g.nodes if loopstmt in n.loops for c in calls_at(n) if is_self_attr(c.func) and c.func.attr in ('restore_or_delete_policy', 'disassociate_policy_and_file')]
    bad = [node.line for _, node, _, _ in in_loop if not g.dominates(rn, node)] + [n.line for n, c in calls_in_loop if not g.dominates(rn, n)]
    exc_reach = set()
    for mm, l in rn.succ:
        if l == 'exc':
            exc_reach |= g.reachable(mm, [g.nodes[[x.id for x in g.nodes if x.kind == 'loop' and x.stmt is loopstmt][0]]])
    bad2 = [node.line for _, node, _, _ in in_loop if node.id in exc_reach] + [n.line for n, c in calls_in_loop if n.id in exc_reach]
    ctx.check(not bad and not bad2 and bool(in_loop), 'C18.R3', 'PolicyDirectoryMonitor.scan_policies|parse-before-update', '%s:%s PolicyDirectoryMonitor.scan_policies' % (MONITOR, rc.lineno),
              'all %d per-file updates are dominated by the normal completion of read_policy_from_file' % (len(in_loop) + len(calls_in_loop)),
              'policy structures can be updated for a file whose parse did not complete normally (lines %s)' % sorted(set(bad + bad2)))
    # the ValueError arm swallows the error (no re-raise); that nothing of the file is applied afterwards is bad2 above
    okt = bool(rn.tries) and any(handler_catches(h) == ['ValueError'] and not any(isinstance(x_, ast.Raise) for s in h.body for x_ in ast.walk(s)) for h in rn.tries[-1].handlers)
    ctx.check(okt, 'C18.R3', 'PolicyDirectoryMonitor.scan_policies|invalid-file-skipped', '%s:%s PolicyDirectoryMonitor.scan_policies' % (MONITOR, rc.lineno),
              'ValueError from the parser skips the file', 'a parser ValueError is not caught-and-skipped per file')

    # ---------------- R5 shadow push
    st_nodes = [node for method, node, struct, kind, key, x in update_sites if method == 'scan_policies' and struct == 'policy_store' and kind == 'store']
    ctx.need(len(st_nodes) == 1, 'unrecognised construct: expected one policy_store assignment in scan_policies')
    sn = st_nodes[0]
    keyv = [key for method, node, struct, kind, key, x in update_sites if node is sn and struct == 'policy_store'][0]
    kname = keyv.id if isinstance(keyv, ast.Name) else None
    fvar = loopstmt.target.id if isinstance(loopstmt.target, ast.Name) else None
    pushes = [(n, c) for n in g.nodes for c in calls_at(n) if isinstance(c.func, ast.Attribute) and c.func.attr == 'append' and 'policy_cache' in U(c.func.value)]
    site = '%s:%s PolicyDirectoryMonitor.scan_policies' % (MONITOR, sn.line)
    ok5 = len(pushes) == 1 and kname is not None
    pos_map = pos_store = None
    if ok5:
        pn, pc = pushes[0]
        tup = pc.args[0] if pc.args else None
        ok5 = isinstance(tup, ast.Tuple) and U(pc.func.value) in ('self.policy_cache.get(%s)' % kname, 'self.policy_cache[%s]' % kname)
        from ..dataflow import resolve as _resolve
        if ok5:
            for i, e in enumerate(tup.elts):
                e, _en = _resolve(rd, pn, e)          # `owner = self.policy_map.get(p)` hoisted into a local is the same value
                if U(e) in ('self.policy_map.get(%s)' % kname, 'self.policy_map[%s]' % kname):
                    pos_map = i
                if U(e) in ('self.policy_store.get(%s)' % kname, 'self.policy_store[%s]' % kname):
                    pos_store = i
            ok5 = pos_map is not None and pos_store is not None
        if ok5:
            # the push happens exactly when the name exists and is owned by another file, and always before the overwrite
            differs = exists = False
            for tt, lab in dominating_edges(g, pn):
                p = cmp_parts(tt.stmt)
                if p:
                    p = (_resolve(rd, tt, p[0])[0], p[1], _resolve(rd, tt, p[2])[0])
                if p and p[1] == 'NotEq' and lab == 'T' and {U(p[0]), U(p[2])} in ({fvar, 'self.policy_map.get(%s)' % kname}, {fvar, 'self.policy_map[%s]' % kname}):
                    differs = True
                    dt = tt
                if p and p[1] == 'In' and lab == 'T' and isinstance(p[0], ast.Name) and p[0].id == kname and 'policy_store' in U(p[2]):
                    exists = True
                    et = tt
            ok5 = differs and exists
            if ok5:
                # every path from the (differs, T) edge to the overwrite passes the push
                for s_ in edge_successors(dt, 'T'):
                    if not g.all_paths_pass(s_, sn, [pn]):
                        ok5 = False
                # when the name does not exist yet its shadow stack is initialised empty
                inits = [n for n in g.nodes if n.kind == 'stmt' and isinstance(n.stmt, ast.Assign) and isinstance(n.stmt.targets[0], ast.Subscript) and struct_of(n.stmt.targets[0].value) == 'policy_cache'
                         and isinstance(n.stmt.value, ast.List) and not n.stmt.value.elts]
                ok5 = ok5 and len(inits) == 1 and any(g.all_paths_pass(s_, sn, inits) for s_ in edge_successors(et, 'F'))
    ctx.check(ok5, 'C18.R5', 'PolicyDirectoryMonitor.scan_policies|shadow-push-before-overwrite', site,
              'a definition owned by another file is pushed (owner at tuple[%s], definition at tuple[%s]) before the overwrite; new names get an empty stack' % (pos_map, pos_store),
              'an existing definition owned by another file can be overwritten without being pushed on the shadow stack first')
    rfn = ms['restore_or_delete_policy']
    dfn = ms['disassociate_policy_and_file']
    verdicts = fold_shadow_helpers(ctx, ms, rfn, dfn, pos_map, pos_store, len(pushes[0][1].args[0].elts) if ok5 else None) if ok5 else None
    if verdicts is None:
        verdicts = shadow_helpers_by_shape(rfn, dfn, graphs, pos_map, pos_store)
        ctx.need(ok5 is False or all(v[0] for v in verdicts.values()), 'unrecognised construct: the shadow-stack helpers of PolicyDirectoryMonitor can neither be folded nor matched')
    okr, why_r = verdicts['restore']
    ctx.check(okr, 'C18.R5', 'PolicyDirectoryMonitor.restore_or_delete_policy|restore-last-entry', '%s:%s' % (MONITOR, rfn.lineno),
              'restore pops the last shadow entry and re-installs definition/owner from the positions it was pushed with; with nothing shadowed the name leaves store, map and cache (%s)' % why_r,
              'restore does not pop the most recent shadow entry or reads the wrong tuple positions: %s' % why_r)
    okd, why_d = verdicts['disassociate']
    ctx.check(okd, 'C18.R5', 'PolicyDirectoryMonitor.disassociate_policy_and_file|filters-on-owner-position', '%s:%s' % (MONITOR, dfn.lineno),
              'exactly the shadow entries of the given file are dropped, the others keep their order (%s)' % why_d, 'disassociate does not drop exactly the shadow entries owned by the file: %s' % why_d)

    # ---------------- R12 a removed file is forgotten entirely
    ctx.rule('C18.R12', 'when a file leaves the policy directory, scan_policies forgets its modification time together with its policies: in the loop over the files that disappeared, self.file_timestamps loses the entry of that file on every path - otherwise a file that comes back with the same (or an older) modification time, e.g. restored from a backup or moved out and in again, is never loaded again and the names it defines stay missing or shadowed')
    sfn = ms['scan_policies']
    sg12, srd12 = graphs['scan_policies']
    removed_loops = []
    for lp in [x for x in walk_local(sfn) if isinstance(x, ast.For) and isinstance(x.target, ast.Name)]:
        fv = lp.target.id
        calls_ = [c for st_ in lp.body for c in ast.walk(st_) if isinstance(c, ast.Call) and is_self_attr(c.func) and c.func.attr in ('restore_or_delete_policy', 'disassociate_policy_and_file')]
        drops = [c for c in calls_ if c.func.attr == 'disassociate_policy_and_file' and len(c.args) == 2 and isinstance(c.args[1], ast.Name) and c.args[1].id == fv]
        loads_ = any(isinstance(c, ast.Call) and (call_name(c) or '').endswith('read_policy_from_file') for st_ in lp.body for c in ast.walk(st_))
        if drops and not loads_:
            removed_loops.append((lp, fv))
    ctx.need(removed_loops, 'unrecognised construct: no loop in scan_policies that withdraws the policies of files that disappeared')
    for lp, fv in removed_loops:
        ln = [n for n in sg12.nodes if n.kind == 'loop' and n.stmt is lp][0]
        forget = []
        for n in sg12.nodes:
            if lp not in n.loops:
                continue
            for c in calls_at(n):
                if isinstance(c.func, ast.Attribute) and c.func.attr == 'pop' and struct_name(c.func.value) == 'file_timestamps' and c.args and isinstance(c.args[0], ast.Name) and c.args[0].id == fv:
                    forget.append(n)
            if n.kind == 'stmt' and isinstance(n.stmt, ast.Delete):
                for t_ in n.stmt.targets:
                    if isinstance(t_, ast.Subscript) and struct_name(t_.value) == 'file_timestamps' and isinstance(t_.slice, ast.Name) and t_.slice.id == fv:
                        forget.append(n)
        okf = bool(forget)
        for st_ in edge_successors(ln, 'T'):
            seen = sg12.reachable(st_, forget + [ln]) if st_ not in forget else set()
            for n in sg12.nodes:
                if n.id in seen and any(m is ln and l in ('loop', 'continue') for m, l in n.succ):
                    okf = False
        ctx.check(okf, 'C18.R12', 'PolicyDirectoryMonitor.scan_policies|removed-file-timestamp-forgotten', '%s:%s PolicyDirectoryMonitor.scan_policies' % (MONITOR, lp.lineno),
                  'the modification time of a file that disappeared is dropped with its policies', 'a file that disappears keeps its entry in self.file_timestamps: if it reappears unchanged it is never loaded again')

    # ---------------- R13 the directory listing shows every .json file
    ctx.rule('C18.R13', 'the listing the scan works from names every *.json entry of the policy directory, whatever the file holds: get_json_files folded over a directory with an empty file, a one-byte file, a large file, an unreadable-looking name and two non-JSON names (os.listdir / os.path.* modelled on that directory) returns exactly the paths of the entries ending in .json - a file left out of the listing is treated as REMOVED (its policies are withdrawn or an older definition is restored) instead of being read and rejected as invalid, which would have left the loaded policies untouched')
    from ..fold import Folder as _Folder, Unfoldable as _Unf, Raised as _Rai
    mt = src.tree(MONITOR)
    gjf = [f_ for f_ in mt.body if isinstance(f_, ast.FunctionDef) and f_.name == 'get_json_files']
    ctx.need(len(gjf) == 1, 'unrecognised construct: get_json_files not found in %s' % MONITOR)
    DIR = {'empty.json': 0, 'one.json': 1, 'big.json': 5000000, '.hidden.json': 20, 'b.json~': 20, 'notes.txt': 20, 'json': 3}
    import posixpath as _pp

    def _base(p_):
        return _pp.basename(p_) if isinstance(p_, str) else p_
    models13 = {
        'os.listdir': lambda p_='.': list(DIR), 'os.path.join': lambda *a: _pp.join(*a), 'os.path.getsize': lambda p_: DIR[_base(p_)],
        'os.path.isfile': lambda p_: _base(p_) in DIR, 'os.path.isdir': lambda p_: False, 'os.path.exists': lambda p_: _base(p_) in DIR,
        'os.path.islink': lambda p_: False, 'os.path.getmtime': lambda p_: 1000.0, 'os.path.basename': _pp.basename,
        'os.path.splitext': _pp.splitext, 'os.path.abspath': lambda p_: p_, 'os.path.normpath': _pp.normpath, 'os.access': lambda *a: True,
        'glob.glob': lambda pat: sorted(_pp.join(_pp.dirname(pat), x) for x in DIR if __import__('fnmatch').fnmatch(x, _pp.basename(pat))),
        'fnmatch.fnmatch': lambda n_, pat: __import__('fnmatch').fnmatch(n_, pat), 'sorted': sorted,
    }
    want13 = sorted(_pp.join('/policies', x) for x in DIR if x.endswith('.json'))
    fo13 = _Folder(models=models13, steps=20000)
    fo13.module = mt
    try:
        got13 = fo13.call_function(gjf[0], ['/policies'], {})
        got13 = list(got13) if isinstance(got13, (list, tuple)) else got13
    except (_Unf, _Rai) as ex13:
        raise AnalysisError('unrecognised construct: get_json_files cannot be folded over the model directory (%s)' % ex13)
    ok13 = isinstance(got13, list) and sorted(got13) == want13
    missing13 = [x for x in want13 if not isinstance(got13, list) or x not in got13]
    ctx.check(ok13, 'C18.R13', 'get_json_files|lists-every-json-file', '%s:%s get_json_files' % (MONITOR, gjf[0].lineno),
              'every *.json entry of the model directory is listed (%d of %d entries), nothing else' % (len(want13), len(DIR)),
              'get_json_files does not list exactly the *.json entries of the directory: missing %s, extra %s - a policy file that is left out is handled as removed, not rejected'
              % ([_pp.basename(x) for x in missing13], [x for x in (got13 if isinstance(got13, list) else []) if x not in want13][:3]))
    ctx.analysed['directory_entries_in_listing_model'] = len(DIR)

    # ---------------- R2 shape taint in the parser
    pt = src.tree(POLICY)
    n_ops = 0
    n_lookups = 0
    for fname in ('read_policy_from_file', 'parse_policy'):
        fn = get_function(pt, fname)
        g2 = CFG(fn)
        rd2 = ReachingDefs(g2)
        tainted = set()
        keyvars = set()
        if fname == 'parse_policy':
            tainted.add(params(fn, skip_self=False)[0])
        changed = True
        while changed:
            changed = False
            for n in g2.nodes:
                for var, val, tgt in __import__('pv.dataflow', fromlist=['assigned_names']).assigned_names(n):
                    if var in tainted:
                        continue
                    srcs = []
                    if isinstance(val, ast.AST):
                        srcs = [val]
                    elif isinstance(val, tuple) and val[0] in ('iter', 'unpack') and isinstance(val[1], ast.AST):
                        srcs = [val[1]]
                        if val[0] == 'unpack' and isinstance(val[1], tuple):
                            srcs = []
                    t_ = False
                    for s_ in srcs:
                        if isinstance(s_, ast.Call) and call_name(s_) in ('json.loads', 'json.load'):
                            t_ = True
                        for x in ast.walk(s_):
                            if isinstance(x, ast.Name) and x.id in tainted:
                                # values of a tainted mapping are unshaped; keys of a JSON object are strings
                                t_ = True
                    # the key variable of `for k, v in X.items()` is a string
                    if isinstance(val, tuple) and val[0] == 'unpack' and val[2] == 0:
                        t_ = False
                    if isinstance(val, tuple) and val[0] == 'unpack':
                        inner = val[1]
                        if isinstance(inner, tuple) and inner[0] == 'iter':
                            t_ = any(isinstance(x, ast.Name) and x.id in tainted for x in ast.walk(inner[1])) or (isinstance(inner[1], ast.Call) and call_name(inner[1]) in ('json.loads', 'json.load'))
                            if val[2] == 0:
                                if t_ and var not in keyvars:
                                    keyvars.add(var)
                                    changed = True
                                t_ = False
                    if t_:
                        tainted.add(var)
                        changed = True
        for n in g2.nodes:
            for e in expr_nodes(n):
                for x in ast.walk(e):
                    var = None
                    op = None
                    if isinstance(x, ast.Call) and isinstance(x.func, ast.Attribute) and x.func.attr in MAP_ASSUMING and isinstance(x.func.value, ast.Name) and x.func.value.id in tainted:
                        var, op = x.func.value.id, '.%s()' % x.func.attr
                    elif isinstance(x, ast.Call) and (call_name(x) or '').startswith('six.iter') and x.args and isinstance(x.args[0], ast.Name) and x.args[0].id in tainted:
                        var, op = x.args[0].id, call_name(x)
                    # table lookups keyed by document data: enums.X[k] / table[k]
                    if isinstance(x, ast.Subscript) and isinstance(x.ctx, ast.Load) and isinstance(x.slice, ast.Name) and (x.slice.id in tainted or x.slice.id in keyvars) \
                            and not (isinstance(x.value, ast.Name) and x.value.id in tainted):
                        n_lookups += 1
                        k = x.slice.id
                        need = {'KeyError'} if k in keyvars and k not in tainted else {'KeyError', 'TypeError'}
                        okl = False
                        for tr in n.tries:
                            for h in tr.handlers:
                                cc = handler_catches(h)
                                covers = '*' in cc or need <= set(cc) or ('LookupError' in cc and need - {'KeyError'} <= set(cc))
                                if covers and any(isinstance(s_, ast.Raise) and isinstance(s_.exc, ast.Call) and call_name(s_.exc) == 'ValueError' for s_ in ast.walk(h)):
                                    okl = True
                        ctx.check(okl, 'C18.R2', '%s|%s[%s]' % (fname, U(x.value), k), '%s:%s %s' % (POLICY, x.lineno, fname),
                                  'lookup keyed by document data is inside a try that turns %s into ValueError' % '/'.join(sorted(need)),
                                  '%s[%s] is keyed by %s; %s can escape (the handler around it does not catch it or does not raise ValueError), and the monitor catches ValueError only: the scan aborts instead of rejecting the file'
                                  % (U(x.value), k, 'a JSON object key (a string)' if need == {'KeyError'} else 'an arbitrary JSON value (possibly a list or object, which is unhashable)', '/'.join(sorted(need))))
                    if var is None:
                        continue
                    n_ops += 1
                    site = '%s:%s %s' % (POLICY, x.lineno, fname)
                    shaped = False
                    for tt, lab in dominating_edges(g2, n):
                        c = tt.stmt
                        if isinstance(c, ast.Call) and call_name(c) == 'isinstance' and len(c.args) == 2 and isinstance(c.args[0], ast.Name) and c.args[0].id == var \
                                and U(c.args[1]) in ('dict', 'collections.abc.Mapping', 'Mapping') and lab == 'T':
                            shaped = True
                    for tr in n.tries:
                        for h in tr.handlers:
                            cc = handler_catches(h)
                            if ('*' in cc or 'AttributeError' in cc) and any(isinstance(s_, ast.Raise) and isinstance(s_.exc, ast.Call) and call_name(s_.exc) == 'ValueError' for s_ in ast.walk(h)):
                                shaped = True
                    ctx.check(shaped, 'C18.R2', '%s|%s%s' % (fname, var, op), site, '%s%s on a dict-checked value' % (var, op),
                              '%s%s assumes a JSON object, but %s comes from json.loads unchecked: a list/number/string there raises AttributeError, which the monitor does not catch (it catches ValueError only)' % (var, op, var))
    ctx.count('mapping_assuming_operations', n_ops, 5)
    check_parser_by_folding(ctx, pt)
    ctx.count('document_keyed_lookups', n_lookups, 3)
    ctx.not_decided += ['the shadow/restore semantics over arbitrary sequences of file events (a runtime state machine; model checking would be the fitting technique)',
                        'mtime granularity / files changing during a scan']
    ctx.assumptions += ['json.loads returns arbitrary JSON shapes; JSON object keys are strings', 'multiprocessing DictProxy behaves like a dict for get/pop/keys/item assignment']
    if deferred:
        if ctx.findings:
            # definite violations stand on their own; the unclassifiable construct is reported with them
            for d in deferred:
                ctx.note('analysis incomplete: ' + d)
        else:
            raise AnalysisError(deferred[0])
