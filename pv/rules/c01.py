"""C01 - TTLV codec round trip (structural part: reader/writer schema agreement)."""
import ast
import struct

from ..astutil import (U, dotted, get_class, get_method, get_function, methods, walk_local, is_self_attr, call_name, short, enum_member, params, classes, all_functions)
from ..cfg import CFG, calls_at
from ..dataflow import ReachingDefs
from ..factmodel import FactoryModel, AVF
from ..index import Index
from ..polmodel import enum_table, attribute_name_tag_table
from ..ttlv import Schema, VERSIONS, tag_of
from ..source import AnalysisError

PRIM = 'kmip/core/primitives.py'
OBJECTS = 'kmip/core/objects.py'
PAYFAC = 'kmip/core/factories/payloads'
EXPLANATION = (
    "PARTIAL (structural) decision of the round-trip property by a TTLV schema extractor: for each of the 105 structure classes with their own "
    "read()/write() the ordered element sequence (identity, tag, required/optional/repeated, version guards) accepted by the reader is compared "
    "with the one emitted by the writer under each of the six KMIP versions (R1 sequence, R2 presence); the primitive classes' accepted value "
    "ranges are compared with the struct formats they pack with, LENGTH constants with struct.calcsize, reader and writer formats with each other, "
    "and the padding arithmetic is evaluated over all 8 residues (R3); the by-name and by-tag attribute value registries must build the same class "
    "with the same tag or both refuse, and both payload factories must resolve the same operations (R4); the Template<->Attributes converters use "
    "the same tag table in both directions (R5). A field written but not read makes the class reject its own output; a guard mismatch breaks the "
    "round trip for the versions in the difference. Value-level identity of bytes and values (non-ASCII text, sign boundaries) is NOT decided.")

FMT_RANGE = {'b': (-2**7, 2**7 - 1), 'B': (0, 2**8 - 1), 'h': (-2**15, 2**15 - 1), 'H': (0, 2**16 - 1), 'i': (-2**31, 2**31 - 1), 'I': (0, 2**32 - 1),
             'l': (-2**31, 2**31 - 1), 'L': (0, 2**32 - 1), 'q': (-2**63, 2**63 - 1), 'Q': (0, 2**64 - 1)}


def compare_schemas(R, W, v):
    """-> list of (kind, description, key) mismatches between reader R and writer W under version v."""
    out = []
    rr, ww = R.flat(v), W.flat(v)

    def same(a, b):
        if a['tag'] and b['tag']:
            return a['tag'] == b['tag'] or a['tag'] in b['tag'].split('|') or b['tag'] in a['tag'].split('|')
        return a['ident'] == b['ident']

    def name(e):
        return e['tag'] or ('field ' + e['ident'])
    # longest common subsequence alignment
    n, m_ = len(rr), len(ww)
    L = [[0] * (m_ + 1) for _ in range(n + 1)]
    for i in range(n - 1, -1, -1):
        for j in range(m_ - 1, -1, -1):
            L[i][j] = L[i + 1][j + 1] + 1 if same(rr[i], ww[j]) else max(L[i + 1][j], L[i][j + 1])
    i = j = 0
    pairs = []
    while i < n and j < m_:
        if same(rr[i], ww[j]):
            pairs.append((rr[i], ww[j]))
            i += 1
            j += 1
        elif L[i + 1][j] >= L[i][j + 1]:
            out.append(('read-not-written', '%s is read (line %d) but never written' % (name(rr[i]), rr[i]['line']), name(rr[i])))
            i += 1
        else:
            out.append(('written-not-read', '%s is written (line %d) but the reader does not accept it there' % (name(ww[j]), ww[j]['line']), name(ww[j])))
            j += 1
    for e in rr[i:]:
        out.append(('read-not-written', '%s is read (line %d) but never written' % (name(e), e['line']), name(e)))
    for e in ww[j:]:
        out.append(('written-not-read', '%s is written (line %d) but the reader does not accept it there' % (name(e), e['line']), name(e)))
    for a, b in pairs:
        if a['kind'] == 'req' and b['kind'] == 'opt':
            out.append(('presence', '%s is required by the reader (line %d) but optional for the writer (line %d): a value without it encodes but does not decode' % (name(a), a['line'], b['line']), name(a)))
        elif (a['kind'] == 'rep') != (b['kind'] == 'rep'):
            out.append(('repetition', '%s: reader %s vs writer %s' % (name(a), a['kind'], b['kind']), name(a)))
    return out


def fold_int(node, consts):
    try:
        return ast.literal_eval(node)
    except Exception:
        pass
    if isinstance(node, ast.BinOp):
        l, r = fold_int(node.left, consts), fold_int(node.right, consts)
        if l is None or r is None:
            return None
        if isinstance(node.op, ast.Pow):
            return l ** r
        if isinstance(node.op, ast.Sub):
            return l - r
        if isinstance(node.op, ast.Add):
            return l + r
        if isinstance(node.op, ast.Mult):
            return l * r
        if isinstance(node.op, ast.LShift):
            return l << r
    if isinstance(node, ast.UnaryOp) and isinstance(node.op, ast.USub):
        v = fold_int(node.operand, consts)
        return -v if v is not None else None
    if isinstance(node, ast.Name) and node.id in consts:
        return consts[node.id]
    return None


def check_biginteger_sign_room(ctx, pt, rule='C01.R3'):
    """BigInteger.write emits a two's-complement number in whole 8-byte words *with room for the sign bit*, for every bit length and
    both signs.  Decided by folding write() over a length abstraction (pv/fold.py): the value is known only by the bit length of its
    magnitude and its sign, strings and byte strings only by their length.  What is compared is the length field write() stores
    (self.length) and the number of value bytes it hands to the stream, for bit lengths 0..200 - whatever the spelling (bit-string
    manipulation, int.to_bytes, masks and hex formatting)."""
    from ..fold import Folder, SymInt, AbsStr, AbsBytes, AbsNum, Opaque, Unfoldable, Raised, length_models
    from ..astutil import module_functions
    c = get_class(pt, 'BigInteger')
    w = get_method(c, 'write')
    site = '%s:%s BigInteger.write' % (PRIM, w.lineno)
    body = [x for x in w.body if not (isinstance(x, ast.Expr) and isinstance(x.value, ast.Constant))]
    ps = params(w)
    ctx.need(len(ps) >= 1, 'unrecognised construct: BigInteger.write signature')
    utils_t = ctx.src.tree('kmip/core/utils.py')
    utils_fns = module_functions(utils_t)
    consts = {}
    for st_ in c.body:
        if isinstance(st_, ast.Assign) and isinstance(st_.targets[0], ast.Name):
            v_ = fold_int(st_.value, {})
            if v_ is not None:
                consts[st_.targets[0].id] = v_
    bad = []
    outcomes = {}
    try:
        for L in range(0, 201):
            for neg in ((False, True) if L else (False,)):
                res = []
                for pick in ('lo', 'hi'):
                    written = []

                    class Stream:
                        pass
                    models = dict(length_models())
                    # helper functions of kmip.core.utils are folded through (bit_length, count_bytes)
                    f = Folder(models=models, steps=200000)
                    f.pick = pick

                    def util(name):
                        fn_ = utils_fns[name]

                        def run_(*args):
                            env_ = dict(zip([a_.arg for a_ in fn_.args.args], args))
                            for n_, ufn in utils_fns.items():
                                env_.setdefault(n_, ufn)
                            r_ = f.run(fn_.body, env_)
                            return r_[1] if r_[0] == 'return' else None
                        return run_
                    for n_ in utils_fns:
                        f.models['utils.' + n_] = util(n_)
                        f.models[n_] = f.models.get(n_) or util(n_)
                    selfv = {'__attrs__': ('value', 'length', 'padding_length') + tuple(consts), 'value': SymInt(L, neg), 'length': None, 'padding_length': 0}
                    selfv.update(consts)
                    stream = {'__attrs__': ()}
                    env = {'self': selfv, ps[0]: stream, 'BigInteger': dict(consts, __attrs__=tuple(consts))}
                    for p_ in ps[1:]:
                        env[p_] = Opaque('argument')
                    f.opaque_calls |= {'super'}

                    # writes to the output stream: record the lengths
                    def m_write(x):
                        written.append(len(x) if isinstance(x, (AbsStr, bytes, bytearray, str)) else None)
                    f.models['%s.write' % ps[0]] = m_write
                    f.models['%s.extend' % ps[0]] = m_write
                    f.run(body, env)
                    res.append((selfv.get('length'), tuple(written)))
                if res[0] != res[1]:
                    raise Unfoldable('the size of the encoding depends on the position of a digit (%r vs %r)' % (res[0], res[1]))
                outcomes[(L, neg)] = res[0]
    except (Unfoldable, Raised) as ex:
        raise AnalysisError('unrecognised construct: the size of the BigInteger encoding cannot be folded from write(): %s' % ex)
    for (L, neg), (length, written) in sorted(outcomes.items()):
        vals = [x for x in written if x is not None]
        if not isinstance(length, int) or None in written:
            raise AnalysisError('unrecognised construct: BigInteger.write stores length %r / writes %r' % (length, written))
        total = 8 * length
        if total % 64 != 0 or total <= L or sum(vals) != length:
            bad.append((('-' if neg else '+') + str(L), total, sum(vals)))
    ctx.analysed['biginteger_bit_lengths_folded'] = len(outcomes)
    ctx.check(not bad, rule, 'BigInteger.write|sign-room', site, 'for every magnitude bit length 0..200 and both signs the encoding is a whole number of 64-bit words with at least one bit left for the sign, and exactly self.length value bytes are written',
              'the encoding leaves no room for the sign bit, is not a multiple of 64 bits, or its length field disagrees with the bytes written, for (sign+bit length, encoded bits, bytes written) = %s: such values decode with the wrong sign' % bad[:4])


def check_shared_defaults(ctx):
    """C01.R6: no codec object shares a mutable container with other instances through a constructor default."""
    ctx.rule('C01.R6', 'no constructor of a codec class stores a mutable default argument (a list/dict/set evaluated once at definition time) into an instance field that the class fills in place (append/extend/insert/item store, as the decoders do): otherwise every instance built with the default shares one container and what one message decodes shows up in the next')
    MUT = ('append', 'extend', 'insert', 'update', 'add', 'setdefault', 'remove', 'pop', 'clear', 'read', 'read_value')     # read: a codec object decodes in place
    IMMUTABLE_BUILDERS = ('tuple', 'frozenset', 'str', 'int', 'float', 'bool', 'bytes', 'complex', 'object')
    n_cls = 0
    n_def = 0
    for rel in ctx.src.modules('kmip/core'):
        t = ctx.src.tree(rel)
        for cls in [n for n in ast.walk(t) if isinstance(n, ast.ClassDef)]:
            init = next((f for f in cls.body if isinstance(f, ast.FunctionDef) and f.name == '__init__'), None)
            if init is None:
                continue
            n_cls += 1
            a = init.args
            pos = a.posonlyargs + a.args
            defaults = dict(zip([x.arg for x in pos[len(pos) - len(a.defaults):]], a.defaults))
            defaults.update({k.arg: d for k, d in zip(a.kwonlyargs, a.kw_defaults) if d is not None})
            for pname, d in sorted(defaults.items()):
                # a container display, or any object built by a call (HashingAlgorithm(), DigestValue(): codec objects are mutable - read() fills them in place)
                mutable = isinstance(d, (ast.List, ast.Dict, ast.Set, ast.ListComp, ast.DictComp, ast.SetComp)) or (isinstance(d, ast.Call) and call_name(d) not in IMMUTABLE_BUILDERS)
                if not mutable:
                    continue
                n_def += 1
                # fields (or property names) the parameter is stored into as is
                fields = set()
                for s_ in walk_local(init):
                    if isinstance(s_, ast.Assign) and isinstance(s_.value, ast.Name) and s_.value.id == pname:
                        for tg in s_.targets:
                            if isinstance(tg, ast.Attribute) and isinstance(tg.value, ast.Name) and tg.value.id == 'self':
                                fields.add(tg.attr)
                # property setters storing their value into a private field
                for f in cls.body:
                    if isinstance(f, ast.FunctionDef) and f.name in fields and any(isinstance(dd, ast.Attribute) and dd.attr == 'setter' for dd in f.decorator_list) and len(f.args.args) == 2:
                        vn = f.args.args[1].arg
                        for s_ in walk_local(f):
                            if isinstance(s_, ast.Assign) and isinstance(s_.value, ast.Name) and s_.value.id == vn:
                                for tg in s_.targets:
                                    if isinstance(tg, ast.Attribute) and isinstance(tg.value, ast.Name) and tg.value.id == 'self':
                                        fields.add(tg.attr)
                site = '%s:%s %s.__init__' % (rel, init.lineno, cls.name)
                hits = []
                for f in cls.body:
                    if not isinstance(f, ast.FunctionDef):
                        continue
                    for x in walk_local(f):
                        if isinstance(x, ast.Call) and isinstance(x.func, ast.Attribute) and x.func.attr in MUT and isinstance(x.func.value, ast.Attribute) and isinstance(x.func.value.value, ast.Name) \
                                and x.func.value.value.id == 'self' and x.func.value.attr in fields:
                            hits.append('%s.%s() in %s (line %d)' % (x.func.value.attr, x.func.attr, f.name, x.lineno))
                        if isinstance(x, ast.Subscript) and isinstance(x.ctx, (ast.Store, ast.Del)) and isinstance(x.value, ast.Attribute) and isinstance(x.value.value, ast.Name) and x.value.value.id == 'self' \
                                and x.value.attr in fields:
                            hits.append('item store on %s in %s (line %d)' % (x.value.attr, f.name, x.lineno))
                        if isinstance(x, ast.Attribute) and isinstance(x.ctx, (ast.Store, ast.Del)) and isinstance(x.value, ast.Attribute) and isinstance(x.value.value, ast.Name) and x.value.value.id == 'self' \
                                and x.value.attr in fields:
                            hits.append('field store %s.%s in %s (line %d)' % (x.value.attr, x.attr, f.name, x.lineno))
                ctx.check(not (fields and hits), 'C01.R6', '%s.__init__|mutable-default %s' % (cls.name, pname), site,
                          'mutable default %s is %s' % (pname, 'not stored into a field' if not fields else 'stored but never filled in place'),
                          'the default of %s (%s, one object for all calls) is stored into %s and the class fills it in place: %s; every instance created with the default shares the container, so decoding one value changes the others' % (pname, U(d), sorted(fields), hits[:3]))
    ctx.count('codec_constructors_scanned', n_cls, 150)
    ctx.analysed['mutable_default_parameters'] = n_def
    if n_def == 0:
        ctx.ok('C01.R6', 'kmip/core/**', 'no constructor among %d has a mutable default argument' % n_cls)


def check_truthiness(ctx, ix):
    """C01.R7: codec presence tests are truthiness tests, so every encodable class must be truthy for every value."""
    from ..astutil import classes as classes_of
    ctx.rule('C01.R7', 'the codec decides "field present" by truthiness (`if self._field:`); therefore no encodable class (subclass of primitives.Base) defines __len__, __bool__ or __nonzero__: an empty/zero value would otherwise count as absent, be dropped by writers and refused by readers')
    n_tests = 0
    for rel in ctx.src.modules('kmip/core'):
        t = ctx.src.tree(rel)
        for n in ast.walk(t):
            if isinstance(n, ast.If):
                tt = n.test
                if isinstance(tt, ast.BoolOp):
                    cands = tt.values
                else:
                    cands = [tt]
                for c in cands:
                    if is_self_attr(c):
                        n_tests += 1
    ctx.count('truthiness_presence_tests', n_tests, 200)
    n_cls = 0
    for rel in ctx.src.modules('kmip/core'):
        t = ctx.src.tree(rel)
        for q, c in classes_of(t).items():
            ref = (rel, q)
            try:
                chain = ix.mro(ref)
            except Exception:
                continue
            if not any(r[0].endswith('primitives.py') and r[1] == 'Base' for r in chain):
                continue
            n_cls += 1
            bad = [f.name for f in c.body if isinstance(f, ast.FunctionDef) and f.name in ('__len__', '__bool__', '__nonzero__')]
            if bad:
                ctx.fail('C01.R7', '%s|%s' % (q, ','.join(bad)), '%s:%s %s' % (rel, c.lineno, q),
                         '%s defines %s: instances can be falsy, and the %d truthiness presence tests of the codec then treat such a value (empty, zero) as an absent field' % (q, ', '.join(bad), n_tests))
    ctx.count('encodable_classes', n_cls, 150)
    ctx.ok('C01.R7', 'kmip/core/**', '%d encodable classes scanned for truthiness overrides; %d truthiness presence tests rely on them' % (n_cls, n_tests))


def check_lossless_decoders(ctx, pt):
    """C01.R8: primitive decoders store what they read."""
    ctx.rule('C01.R8', 'the primitive decoders keep the value they read: no read method post-processes the value field with a normalising operation (strip/rstrip/lstrip/replace/lower/upper/casefold/translate/normalize, slicing of the value): a value the encoder emits must come back unchanged')
    NORM = {'strip', 'rstrip', 'lstrip', 'replace', 'lower', 'upper', 'casefold', 'title', 'translate', 'normalize', 'expandtabs', 'zfill', 'removeprefix', 'removesuffix'}
    n = 0
    for c in [x for x in pt.body if isinstance(x, ast.ClassDef)]:
        for fn in [f for f in c.body if isinstance(f, ast.FunctionDef) and (f.name == 'read' or f.name.startswith('read_'))]:
            for a in walk_local(fn):
                if not (isinstance(a, (ast.Assign, ast.AugAssign)) and any(is_self_attr(t, 'value') for t in (a.targets if isinstance(a, ast.Assign) else [a.target]))):
                    continue
                n += 1
                bad = [x for x in ast.walk(a.value) if (isinstance(x, ast.Call) and isinstance(x.func, ast.Attribute) and x.func.attr in NORM)
                       or (isinstance(x, ast.Subscript) and isinstance(x.slice, ast.Slice) and is_self_attr(x.value, 'value'))]
                ctx.check(not bad, 'C01.R8', '%s.%s|value-normalised' % (c.name, fn.name), '%s:%s %s.%s' % (PRIM, a.lineno, c.name, fn.name), 'value stored as read',
                          'the decoder rewrites the value it read (%s): a value that encodes fine comes back different, and re-encoding the decoded value gives other bytes' % U(a.value)[:80])
    ctx.count('primitive_value_stores_in_readers', n, 8)



def check_encoders_have_no_side_effects(ctx):
    """C01.R9: encoding a value does not change it."""
    ctx.rule('C01.R9', 'encoding has no side effect on the value: the write / write_value methods of kmip/core assign no field other than self.length (the computed length of the structure), and the module-level conversion functions the writers call (kmip/core/objects.py convert_*) assign no field of an object they were handed or took out of their argument - they build new objects or change copies; otherwise encoding a value under one KMIP version changes what the same value encodes to under another')
    n_w = n_f = 0
    for rel in ctx.src.modules('kmip/core'):
        if rel.endswith('utils.py'):
            continue
        t = ctx.src.tree(rel)
        for q, fn, cls in all_functions(t):
            if cls is not None and fn.name in ('write', 'write_value'):
                n_w += 1
                for n in walk_local(fn):
                    if isinstance(n, ast.Attribute) and isinstance(n.ctx, (ast.Store, ast.Del)) and U(n) != 'self.length':
                        ctx.fail('C01.R9', '%s|stores %s' % (q, U(n)), '%s:%s %s' % (rel, n.lineno, q), 'the encoder assigns %s: encoding changes the value it encodes' % U(n))
            elif cls is None and fn.name.startswith('convert_') and rel.endswith('objects.py'):
                n_f += 1
                ps = set(params(fn, skip_self=False))
                g = CFG(fn)
                rd = ReachingDefs(g)
                from ..dataflow import node_of_expr

                def fresh(e, node, depth=0):
                    """the object denoted by e was built (or copied) inside this function"""
                    if depth > 6:
                        return False
                    if isinstance(e, ast.Call):
                        cn_ = call_name(e) or ''
                        return cn_ in ('copy.deepcopy', 'copy.copy', 'deepcopy') or cn_[:1].isupper() or cn_.split('.')[-1][:1].isupper()
                    if isinstance(e, ast.Name):
                        if e.id in ps:
                            return False
                        defs = rd.reaching(node, e.id)
                        return bool(defs) and all(isinstance(v, ast.AST) and dn is not None and fresh(v, dn, depth + 1) for _, v, dn in defs)
                    return False
                for n in walk_local(fn):
                    if isinstance(n, ast.Attribute) and isinstance(n.ctx, (ast.Store, ast.Del)):
                        nd = node_of_expr(g, n)
                        ok = nd is not None and fresh(n.value, nd)
                        ctx.check(ok, 'C01.R9', '%s|stores %s' % (q, U(n)), '%s:%s %s' % (rel, n.lineno, q), '%s is assigned on an object built or copied in the function' % U(n),
                                  '%s assigns %s on an object that belongs to its argument: the writers of the template-attribute payloads call it while encoding under KMIP 2.0, so encoding changes the value (and what it encodes to under another version)' % (q, U(n)))
    ctx.count('encoder_methods_scanned', n_w, 100)
    ctx.count('conversion_functions_scanned', n_f, 2)
    if not any(f.rule == 'C01.R9' for f in ctx.findings):
        ctx.ok('C01.R9', 'kmip/core/**', '%d encoders and %d conversion functions assign nothing but self.length / fields of objects they built' % (n_w, n_f))


def check_text_decoder_units(ctx, rule='C01.R10', tail=''):
    """TextString.read_value folded over a length abstraction: the text it stores has exactly one character per value byte."""
    from ..fold import Folder, AbsStr, AbsBytes, AbsNum, Opaque, Unfoldable, Raised, length_models
    ctx.rule(rule, 'the text decoder yields exactly one character per value byte: TextString.read_value, folded for every length 0..24 over a length abstraction (the stream hands out as many bytes as are asked for; decode() of n bytes is n characters only for n <= 1 or a single-byte codec), stores a text of exactly `length` characters. The encoder packs one byte per character and the length field counts characters (C02.R6), so a decoder that lets several bytes become one character accepts texts the encoder cannot emit - struct.error when the value is echoed or reported' + tail)
    pt = ctx.src.tree(PRIM)
    c = get_class(pt, 'TextString')
    from ..inline import flat_methods
    rv = flat_methods(c)[0].get('read_value') or get_method(c, 'read_value')
    site = '%s:%s TextString.read_value' % (PRIM, rv.lineno)
    ps = params(rv)
    consts = {}
    for st_ in c.body:
        if isinstance(st_, ast.Assign) and isinstance(st_.targets[0], ast.Name) and isinstance(st_.value, ast.Constant):
            consts[st_.targets[0].id] = st_.value.value
    bad = None
    n_ok = 0
    try:
        for L in range(0, 25):
            f = Folder(models=dict(length_models()), steps=100000)
            selfv = {'__attrs__': ('value', 'length', 'padding_length') + tuple(consts), 'value': None, 'length': L, 'padding_length': None}
            selfv.update(consts)

            pos = [0]

            def m_read(k=None, L_=L, pos_=pos):
                # the first `length` bytes of the stream are the value (abstract), zero padding bytes follow (concrete)
                if not isinstance(k, int):
                    raise Unfoldable('read of an unknown size')
                lo = pos_[0]
                pos_[0] += k
                if lo + k <= L_:
                    return AbsBytes(k)
                if lo >= L_:
                    return bytes(k)
                return AbsBytes(k)          # value and (part of) the padding in one read: abstract as a whole
            f.models['%s.read' % ps[0]] = m_read
            f.models['%s.peek' % ps[0]] = m_read
            env = {'self': selfv, ps[0]: {'__attrs__': ()}, 'sys': {'__attrs__': ('version', 'version_info'), 'version': '3.12', 'version_info': (3, 12)}, 'TextString': dict(consts, __attrs__=tuple(consts))}
            for p_ in ps[1:]:
                env[p_] = Opaque('argument')
            body = [x for x in rv.body if not (isinstance(x, ast.Expr) and isinstance(x.value, ast.Constant))]
            try:
                f.run(body, env)
            except Raised:
                pass
            except Unfoldable as ex:
                # what follows the store of the value (padding checks on bytes that were read together with the value ...) need not be foldable
                if not isinstance(selfv.get('value'), (str, AbsStr)):
                    raise
                ctx.note('%s: TextString.read_value folded up to the store of the value only (%s)' % (rule, ex))
            v = selfv.get('value')
            if isinstance(v, str):
                okl, exact = len(v) == L, True
            elif isinstance(v, AbsStr) and v.kind == 'str':
                okl, exact = len(v) == L, v.exact
            else:
                raise Unfoldable('value stored is %r' % (v,))
            if not exact:
                bad = bad or 'for length %d the stored text comes from one decode() of %d bytes under a multi-byte codec: it has at most, not exactly, %d characters' % (L, L, L)
            elif not okl:
                bad = bad or 'for length %d the stored text has %d characters' % (L, len(v))
            else:
                n_ok += 1
    except Unfoldable as ex:
        raise AnalysisError('unrecognised construct: TextString.read_value cannot be folded over the length abstraction (%s)' % ex)
    ctx.analysed['text_decoder_lengths_folded'] = n_ok
    ctx.check(bad is None, rule, 'TextString.read_value|one-character-per-byte', site, 'a decoded text has exactly one character per value byte (lengths 0..24)',
              'the text decoder does not yield one character per value byte: %s; such a text cannot be encoded again (the encoder packs one byte per character), so a request whose text is echoed or reported later cannot be answered' % bad)

def run(ctx):
    src = ctx.src
    sch = Schema(src)
    for rid, text in (
        ('C01.R1', 'for every structure class and KMIP version the writer emits exactly the element sequence (tag / identity, repetition) the reader accepts; both are defined for the same versions'),
        ('C01.R2', 'an element the reader requires is required by the writer too'),
        ('C01.R3', 'primitive value bounds lie within the struct format used; LENGTH = calcsize(format); reader and writer use the same format; text/byte-string padding makes length+pad a multiple of 8 with 0 <= pad < 8 in constructor, reader and writer alike'),
        ('C01.R4', 'the by-name and by-tag attribute value factories build the same class with the same tag for every attribute, or both refuse; request and response payload factories resolve the same set of operations to existing payload classes'),
        ('C01.R5', 'convert_template_attribute_to_attributes and convert_attributes_to_template_attribute are mutually inverse on structure level'),
    ):
        ctx.rule(rid, text)
    cc = sch.codec_classes()
    ctx.count('codec_classes', len(cc), 100)
    n_cmp = 0
    notes = []
    for ref, rf, wf in cc:
        R = sch.extract(ref, rf, 'read')
        W = sch.extract(ref, wf, 'write')
        cname = ref[1]
        site = '%s:%s %s' % (ref[0], rf.lineno, cname)
        for note in R.notes + W.notes:
            notes.append('%s: %s' % (cname, note))
        if not R.has_oversized:
            ctx.note('%s.read has no is_oversized trailer check (trailing bytes ignored; informational)' % cname)
        agg = {}
        for v in VERSIONS:
            n_cmp += 1
            dr, dw = R.defined_under(v), W.defined_under(v)
            if dr != dw:
                agg.setdefault(('version-support', 'the %s is defined under this version, the %s raises VersionNotSupported' % (('reader', 'writer') if dr else ('writer', 'reader')), 'class'), []).append(v)
                continue
            if not dr:
                continue
            for kind, desc, nm in compare_schemas(R, W, v):
                agg.setdefault((kind, desc, nm), []).append(v)
        # presence of one element must not hinge on the presence of another on one side only (nesting of presence / next-tag conditions)
        rdepth = {e['tag'] or e['ident']: len(e.get('conds') or []) for e in R.events}
        for e in W.events:
            k_ = e['tag'] or e['ident']
            outer = (e.get('conds') or [])[:-1]
            if outer and rdepth.get(k_, 0) <= 1:
                agg.setdefault(('presence', 'the writer emits %s only when %s is present too, while the reader accepts it independently: a value that carries %s without %s loses it on encoding' % (
                    k_, '/'.join(c[1] for c in outer), k_, '/'.join(c[1] for c in outer)), 'nested under ' + '/'.join(c[1] for c in outer) + ':' + str(k_)), []).append(VERSIONS[-1])
        # a presence test guards the write of the field it tests: `if self._a: self._b.write(...)` drops b when a is absent and fails when only a is set
        for e in W.events:
            cs_ = [c_ for c_ in (e.get('conds') or []) if c_[0] == 'pres']
            if cs_ and str(e.get('recv') or '').startswith('self.') and cs_[-1][1] != e['ident']:
                agg.setdefault(('presence', 'the writer emits field %s under a presence test of the other field %s: a value that carries %s without %s loses it on encoding, and one that carries %s without %s cannot be encoded' % (
                    e['ident'], cs_[-1][1], e['ident'], cs_[-1][1], cs_[-1][1], e['ident']), 'written under the presence of another field:%s<-%s' % (e['ident'], cs_[-1][1])), []).append(VERSIONS[-1])
        wdepth = {e['tag'] or e['ident']: len(e.get('conds') or []) for e in W.events}
        for e in R.events:
            k_ = e['tag'] or e['ident']
            outer = (e.get('conds') or [])[:-1]
            if outer and wdepth.get(k_, 0) <= 1:
                agg.setdefault(('presence', 'the reader accepts %s only after %s, while the writer emits it independently' % (k_, '/'.join(c[1] for c in outer)), 'nested under ' + '/'.join(c[1] for c in outer) + ':' + str(k_)), []).append(VERSIONS[-1])
        # presence is decided by presence alone: a writer that also looks at the VALUE of the field it is about to write
        # (`if self._x is not None and self._x.value:`) drops a field that is present with a falsy value (index 0, False, empty) - the reader
        # accepts such a field, so encode-decode turns it into None
        for ifn in [x for x in ast.walk(wf) if isinstance(x, ast.If)]:
            vreads = set()
            for x in ast.walk(ifn.test):
                if isinstance(x, ast.Attribute) and x.attr == 'value' and isinstance(x.value, ast.Attribute) and isinstance(x.value.value, ast.Name) and x.value.value.id == 'self':
                    vreads.add(x.value.attr.lstrip('_'))
            for x in [y for st_ in ifn.body for y in ast.walk(st_)]:
                if isinstance(x, ast.Call) and isinstance(x.func, ast.Attribute) and x.func.attr == 'write' and isinstance(x.func.value, ast.Attribute) \
                        and isinstance(x.func.value.value, ast.Name) and x.func.value.value.id == 'self' and x.func.value.attr.lstrip('_') in vreads:
                    fld_ = x.func.value.attr.lstrip('_')
                    agg.setdefault(('presence', 'the writer emits field %s depending on its VALUE (%s): a %s that is present with a falsy value (0, False, empty) is dropped on encoding although the reader accepts it - it decodes as None' % (
                        fld_, ' '.join(U(ifn.test).split())[:70], fld_), 'written depending on its value:%s' % fld_), []).append(VERSIONS[-1])
        if not agg:
            ctx.ok('C01.R1', site, 'reader and writer agree on %d element(s) under all versions they define' % len(R.flat(VERSIONS[-1]) or R.flat(VERSIONS[0])))
            ctx.ok('C01.R2', site, 'presence requirements agree')
        for (kind, desc, nm), vs in sorted(agg.items()):
            rule = 'C01.R2' if kind == 'presence' else 'C01.R1'
            ctx.fail(rule, '%s|%s %s' % (cname, kind, nm), site, '%s [versions %s]' % (desc, ','.join(x[5:].replace('_', '.') for x in vs)), versions=vs)
    ctx.count('class_version_comparisons', n_cmp, 600)
    if notes:
        raise AnalysisError('unrecognised construct in codec methods: %s' % notes[:5])

    # ---------------- R3 primitives
    pt = src.tree(PRIM)
    prims = [c for c in pt.body if isinstance(c, ast.ClassDef) and c.name not in ('Base', 'Struct')]
    ctx.count('primitive_classes', len(prims), 9)
    for c in prims:
        consts = {}
        for s in c.body:
            if isinstance(s, ast.Assign) and isinstance(s.targets[0], ast.Name):
                v = fold_int(s.value, consts)
                if v is not None:
                    consts[s.targets[0].id] = v
        ms = methods(c)
        site = '%s:%s %s' % (PRIM, c.lineno, c.name)

        def fmts_in(fn, which):
            out = []
            for n in walk_local(fn):
                if isinstance(n, ast.Call) and (call_name(n) or '').split('.')[-1] == which and n.args:
                    f = n.args[0]
                    if isinstance(f, ast.Constant) and isinstance(f.value, str):
                        out.append((f.value, n))
                    elif is_self_attr(f):
                        # format stored on the instance: collect its literal assignments
                        for mm in ms.values():
                            for a in walk_local(mm):
                                if isinstance(a, ast.Assign) and is_self_attr(a.targets[0], f.attr) and isinstance(a.value, ast.Constant):
                                    out.append((a.value.value, n))
            return out
        rfm = [f for name in ('read', 'read_value') if name in ms for f in fmts_in(ms[name], 'unpack')]
        wfm = [f for name in ('write', 'write_value') if name in ms for f in fmts_in(ms[name], 'pack')]
        if not rfm and not wfm:
            continue
        # value formats = those applied to the value (first pack in the writer / first unpack in the reader)
        rset, wset = sorted(set(f for f, n in rfm)), sorted(set(f for f, n in wfm))
        ctx.check(all(f[:1] in '!>' for f in rset + wset), 'C01.R3', '%s|big-endian' % c.name, site, 'all formats big-endian %s' % sorted(set(rset + wset)), 'a non big-endian struct format is used: %s' % sorted(set(rset + wset)))
        val_r = set(f for f, n in rfm if not (len(n.args) > 1 and isinstance(n.args[1], ast.Constant)))
        val_w = set(f for f, n in wfm if len(n.args) > 1 and not (isinstance(n.args[1], ast.Constant)))
        if 'MIN' in consts or 'MAX' in consts or 'LENGTH' in consts:
            # formats used for the value itself
            ctx.check(val_r and val_w and set(x for x in val_r if x in val_w or True) >= val_w and val_w >= set(x for x in val_r if x[-1] in FMT_RANGE and x != '!B'),
                      'C01.R3', '%s|same-format-both-directions' % c.name, site, 'reader %s / writer %s' % (sorted(val_r), sorted(val_w)), 'reader and writer use different value formats: %s vs %s' % (sorted(val_r), sorted(val_w)))
        if 'MIN' in consts and 'MAX' in consts:
            for f in sorted(val_w):
                code = f[-1]
                if code not in FMT_RANGE:
                    continue
                lo, hi = FMT_RANGE[code]
                ctx.check(consts['MIN'] >= lo and consts['MAX'] <= hi, 'C01.R3', '%s|bounds-vs-format %s' % (c.name, f), site,
                          '[%d, %d] fits struct format %s' % (consts['MIN'], consts['MAX'], f),
                          'validate() accepts [%d, %d] but the value is packed with %r whose range is [%d, %d]: a constructible value cannot be encoded' % (consts['MIN'], consts['MAX'], f, lo, hi))
        if 'LENGTH' in consts:
            sizes = sorted(set(struct.calcsize(f) for f in val_w if f[-1] in FMT_RANGE))
            ctx.check(sizes == [consts['LENGTH']] or (c.name == 'Boolean' and sizes == [8]), 'C01.R3', '%s|LENGTH-vs-calcsize' % c.name, site, 'LENGTH %d = calcsize of the value format' % consts['LENGTH'],
                      'LENGTH is %d but the value format occupies %s bytes' % (consts['LENGTH'], sizes))
        # padding arithmetic of variable-length primitives
        if 'PADDING_SIZE' in consts:
            ps = consts['PADDING_SIZE']
            pad_exprs = []
            for mname, fn in ms.items():
                stmts = sorted([s for s in walk_local(fn) if isinstance(s, (ast.Assign, ast.If))], key=lambda s: s.lineno)
                for s in stmts:
                    if isinstance(s, ast.Assign) and is_self_attr(s.targets[0], 'padding_length') and isinstance(s.value, ast.BinOp):
                        # find the immediately following correction `if self.padding_length == PADDING_SIZE: self.padding_length = 0` in the same block
                        blk = s._parent.body if hasattr(s._parent, 'body') and s in getattr(s._parent, 'body', []) else (s._parent.orelse if s in getattr(s._parent, 'orelse', []) else [])
                        idx = blk.index(s) if s in blk else -1
                        corrected = False
                        guarded_lt = False
                        if idx >= 0:
                            for nxt in blk[idx + 1: idx + 3]:
                                if isinstance(nxt, ast.If):
                                    tt = U(nxt.test).replace(' ', '')
                                    if tt in ('self.padding_length==self.PADDING_SIZE', 'self.padding_length==%s.PADDING_SIZE' % c.name) and any(
                                            isinstance(x, ast.Assign) and is_self_attr(x.targets[0], 'padding_length') and isinstance(x.value, ast.Constant) and x.value.value == 0 for x in nxt.body):
                                        corrected = True
                                    if tt in ('self.padding_length<self.PADDING_SIZE', 'self.padding_length<%s.PADDING_SIZE' % c.name):
                                        guarded_lt = True
                        pad_exprs.append((mname, s, corrected, guarded_lt))
            ctx.check(len(pad_exprs) >= 2, 'C01.R3', '%s|padding-sites' % c.name, site, '%d padding computations' % len(pad_exprs), 'padding is not computed in both the constructor/validate path and the reader')
            for mname, s, corrected, guarded_lt in pad_exprs:
                bad = []
                for res in range(ps):
                    length = 16 + res
                    env = {'PADDING_SIZE': ps, 'length': length}

                    def ev(e):
                        if isinstance(e, ast.BinOp):
                            a, b = ev(e.left), ev(e.right)
                            return {ast.Sub: a - b, ast.Add: a + b, ast.Mod: a % b if b else 0, ast.Mult: a * b, ast.FloorDiv: a // b if b else 0}[type(e.op)]
                        if isinstance(e, ast.Attribute) and e.attr in ('PADDING_SIZE',):
                            return ps
                        if isinstance(e, ast.Attribute) and e.attr == 'length':
                            return length
                        if isinstance(e, ast.Constant):
                            return e.value
                        raise AnalysisError('unrecognised construct in padding arithmetic: %s' % U(e))
                    pad = ev(s.value)
                    if corrected and pad == ps:
                        pad = 0
                    # (a reader that merely skips consuming when pad >= PADDING_SIZE still leaves that value in self.padding_length,
                    #  which write_value trusts when the decoded object is encoded again: no exemption for such a guard)
                    if not (0 <= pad < ps and (length + pad) % ps == 0):
                        bad.append((res, pad))
                ctx.check(not bad, 'C01.R3', '%s.%s|padding-arithmetic' % (c.name, mname), '%s:%s %s.%s' % (PRIM, s.lineno, c.name, mname), 'length + pad is a multiple of %d with 0 <= pad < %d for all residues' % (ps, ps),
                          'padding formula gives (length mod %d, pad) = %s: the encoding is not padded to a multiple of %d' % (ps, bad[:4], ps))

    check_biginteger_sign_room(ctx, pt)
    check_shared_defaults(ctx)
    check_truthiness(ctx, sch.ix)
    check_lossless_decoders(ctx, pt)
    check_encoders_have_no_side_effects(ctx)
    check_text_decoder_units(ctx)

    # ---------------- R4 factories
    fm = FactoryModel(src, sch.ix)
    at = fm.attr_types
    name2tag = fm.name_to_tag
    n_attr = 0
    for member in sorted(fm.by_name):
        disp = at.get(member)
        tag = name2tag.get(disp)
        bn = fm.by_name.get(member)
        bt = fm.by_tag.get(tag) if tag else None
        site = '%s AttributeValueFactory %s' % (AVF, member)
        n_attr += 1
        if tag is None:
            ctx.check(bn is None, 'C01.R4', 'AttributeValueFactory|%s|no-tag' % member, site, 'attribute without a tag entry is not constructible by name either', 'attribute %s is constructible by name but has no tag in attribute_name_tag_table' % member)
            continue
        tag_has_arm = tag in fm.by_tag
        if bn is None and not bt:
            ctx.ok('C01.R4', site, '%s: refused by both registries' % member)
            continue
        if bn and bt:
            cn = sorted((c[1] if c else '?', t) for c, t in bn)
            ct = sorted((c[1] if c else '?', t) for c, t in bt)
            # a class with a fixed tag reports tag None in both
            ctx.check(cn == ct, 'C01.R4', 'AttributeValueFactory|%s|same-class-and-tag' % member, site, '%s -> %s in both registries' % (member, cn),
                      'by name %s builds %s but by tag %s builds %s' % (member, cn, tag, ct))
        else:
            ctx.fail('C01.R4', 'AttributeValueFactory|%s|one-sided' % member, site,
                     'attribute %s is %s by name but %s by tag (%s): a value carried in a KMIP 1.x TemplateAttribute cannot be decoded from a KMIP 2.0 Attributes structure, or vice versa'
                     % (member, 'built' if bn else 'refused', 'built' if bt else ('refused' if tag_has_arm else 'unknown'), tag))
    ctx.count('attribute_registry_entries', n_attr, 40)
    # payload factories
    reqf = src.tree(PAYFAC + '/request.py')
    respf = src.tree(PAYFAC + '/response.py')
    basef = src.tree(PAYFAC + '/__init__.py')

    def implemented(tree, rel):
        c = [x for x in tree.body if isinstance(x, ast.ClassDef)][0]
        out = {}
        for name, fn in methods(c).items():
            if not name.startswith('_create_'):
                continue
            rets = [r for r in walk_local(fn) if isinstance(r, ast.Return) and isinstance(r.value, ast.Call)]
            if rets:
                ref = sch.ix.resolve_class(rel, rets[0].value.func)
                out[name[8:].replace('_payload', '')] = ref
        return out
    rq, rs = implemented(reqf, PAYFAC + '/request.py'), implemented(respf, PAYFAC + '/response.py')
    ctx.count('payload_factory_operations', len(rq), 20)
    for op in sorted(set(rq) | set(rs)):
        site = '%s %s' % (PAYFAC, op)
        ctx.check(op in rq and op in rs and rq[op] is not None and rs[op] is not None, 'C01.R4', 'PayloadFactories|%s' % op, site, '%s resolves to request and response payload classes' % op,
                  'operation %s is implemented by only one of the request/response payload factories or names a missing class (request %s, response %s)' % (op, rq.get(op), rs.get(op)))

    # ---------------- R5 converters
    ot = src.tree(OBJECTS)
    t2a = get_function(ot, 'convert_template_attribute_to_attributes')
    a2t = get_function(ot, 'convert_attributes_to_template_attribute')

    def tag_pairs(fn):
        pairs = {}
        for n in ast.walk(fn):
            if isinstance(n, ast.If):
                p = n.test
                if isinstance(p, ast.Compare) and len(p.ops) == 1 and isinstance(p.ops[0], ast.Eq):
                    tg = tag_of(p.comparators[0]) or tag_of(p.left)
                    outs = [tag_of(x) for s in n.body for x in ast.walk(s) if tag_of(x)]
                    if tg and outs:
                        pairs[tg] = outs[0]
        return pairs
    p1, p2 = tag_pairs(t2a), tag_pairs(a2t)
    inv = {v: k for k, v in p1.items()}
    csite = '%s:%s convert_template_attribute_to_attributes / convert_attributes_to_template_attribute' % (OBJECTS, t2a.lineno)
    ctx.check(bool(p1) and inv == p2, 'C01.R5', 'template-attributes-converters|inverse-tag-maps', csite, 'tag maps are inverse: %s' % sorted(p1.items()), 'the two converters map tags non-inversely: %s vs %s' % (sorted(p1.items()), sorted(p2.items())))
    uses1 = sorted(set(call_name(c) for c in ast.walk(t2a) if isinstance(c, ast.Call) and (call_name(c) or '').startswith('enums.convert_attribute')))
    uses2 = sorted(set(call_name(c) for c in ast.walk(a2t) if isinstance(c, ast.Call) and (call_name(c) or '').startswith('enums.convert_attribute')))
    ctx.check(uses1 == ['enums.convert_attribute_name_to_tag'] and uses2 == ['enums.convert_attribute_tag_to_name'], 'C01.R5', 'template-attributes-converters|name-tag-table', csite,
              'name->tag one way, tag->name the other, both from attribute_name_tag_table', 'the converters do not translate names and tags through the shared table: %s / %s' % (uses1, uses2))
    # element-wise: every element of the input list yields exactly one element of the output list (nothing is skipped, nothing ends the loop early)
    for cfn in (t2a, a2t):
        cg = CFG(cfn)
        loops = [n for n in cg.nodes if n.kind == 'loop' and isinstance(n.stmt, ast.For) and isinstance(n.stmt.iter, ast.Attribute) and n.stmt.iter.attr == 'attributes']
        ctx.need(len(loops) == 1, 'unrecognised construct: %s no longer walks <value>.attributes in one for loop' % cfn.name)
        head = loops[0]
        apps = [n for n in cg.nodes if head.stmt in n.loops for c in calls_at(n) if isinstance(c.func, ast.Attribute) and c.func.attr == 'append' and isinstance(c.func.value, ast.Name)]
        lists = set(c.func.value.id for n in apps for c in calls_at(n) if isinstance(c.func, ast.Attribute) and c.func.attr == 'append')
        early = [x for x in ast.walk(head.stmt) if isinstance(x, (ast.Break, ast.Return))]
        every = bool(apps) and len(lists) == 1 and all(cg.all_paths_pass(m_, head, apps, labels_excluded=('exc',)) for m_, l_ in head.succ if l_ == 'T')
        ctx.check(every and not early, 'C01.R5', '%s|one-output-element-per-input-element' % cfn.name, '%s:%s %s' % (OBJECTS, head.line, cfn.name),
                  'every iteration over the input attributes that completes appends one converted element; nothing leaves the loop early',
                  'an iteration over the input attributes can complete without appending the converted element (or the loop is left early): attributes are silently dropped by the conversion, so a payload written under KMIP 2.0 decodes to fewer attributes than it was given')
    tt = attribute_name_tag_table(src)
    ctx.check(len(set(n for n, t in tt)) == len(tt) and len(set(t for n, t in tt)) == len(tt), 'C01.R5', 'attribute_name_tag_table|bijective', 'kmip/core/enums.py attribute_name_tag_table',
              'the name/tag table is a bijection over %d attributes' % len(tt), 'the attribute name/tag table is not a bijection')
    ctx.not_decided += ['byte-for-byte identity of values through encode/decode for all values (e.g. non-ASCII TextString: length counts characters but UTF-8 bytes are written)',
                        'enum member values', 'inherently dynamic classes (Attribute with value factory, Credential value by type) are compared on identity, not tag']
    ctx.assumptions += ['struct.calcsize / format ranges of the Python struct module', 'every child object obeys its own class schema (compositional argument over the class hierarchy)']
