"""C16 - protocol version is honoured: echo, refusal, feature gating."""
import ast

from ..astutil import (U, dotted, get_class, get_method, get_function, walk_local, is_self_attr, call_name, short,
                       enum_member, params, decorator_names)
from ..cfg import CFG, calls_at
from ..dataflow import ReachingDefs, node_of_expr
from ..guards import call_nodes, dominating_edges, cmp_parts, edge_successors
from ..engmodel import EngineModel, ENGINE, SESSION
from ..polmodel import PolicyModel, fold_version, attribute_name_tag_table, enum_table, ENUMS
from ..source import AnalysisError

CONTENTS = 'kmip/core/messages/contents.py'

EXPLANATION = (
    "Constant folding and CFG analysis of the version mechanism: the supported-version list (strictly descending, each entry mapped "
    "injectively to a KMIPVersion), membership-or-InvalidMessage acceptance as the first effect of process_request, per-operation "
    "minimum-version gates compared with the KMIP specification table, Query's advertised operations evaluated for each supported "
    "version against the gated dispatch table, DiscoverVersions provenance, version echo through the session, attribute "
    "added/deprecated gating sites and agreement of the two attribute-version registries (AttributePolicy vs enums.is_attribute). "
    "Field-level gates of payload codecs are checked with the TTLV schema extractor (C16.R6, shared with C01).")

# KMIP specification: first protocol version defining each operation (spec facts, not code)
T_OPMIN = {
    'CREATE': '1.0', 'CREATE_KEY_PAIR': '1.0', 'REGISTER': '1.0', 'REKEY': '1.0', 'DERIVE_KEY': '1.0', 'CERTIFY': '1.0',
    'RECERTIFY': '1.0', 'LOCATE': '1.0', 'CHECK': '1.0', 'GET': '1.0', 'GET_ATTRIBUTES': '1.0', 'GET_ATTRIBUTE_LIST': '1.0',
    'ADD_ATTRIBUTE': '1.0', 'MODIFY_ATTRIBUTE': '1.0', 'DELETE_ATTRIBUTE': '1.0', 'OBTAIN_LEASE': '1.0',
    'GET_USAGE_ALLOCATION': '1.0', 'ACTIVATE': '1.0', 'REVOKE': '1.0', 'DESTROY': '1.0', 'ARCHIVE': '1.0', 'RECOVER': '1.0',
    'VALIDATE': '1.0', 'QUERY': '1.0', 'CANCEL': '1.0', 'POLL': '1.0', 'NOTIFY': '1.0', 'PUT': '1.0',
    'REKEY_KEY_PAIR': '1.1', 'DISCOVER_VERSIONS': '1.1',
    'ENCRYPT': '1.2', 'DECRYPT': '1.2', 'SIGN': '1.2', 'SIGNATURE_VERIFY': '1.2', 'MAC': '1.2', 'MAC_VERIFY': '1.2',
    'RNG_RETRIEVE': '1.2', 'RNG_SEED': '1.2', 'HASH': '1.2', 'CREATE_SPLIT_KEY': '1.2', 'JOIN_SPLIT_KEY': '1.2',
    'IMPORT': '1.4', 'EXPORT': '1.4',
    'LOG': '2.0', 'LOGIN': '2.0', 'LOGOUT': '2.0', 'DELEGATED_LOGIN': '2.0', 'ADJUST_ATTRIBUTE': '2.0', 'SET_ATTRIBUTE': '2.0',
    'SET_ENDPOINT_ROLE': '2.0', 'PKCS_11': '2.0', 'INTEROP': '2.0', 'REPROVISION': '2.0',
}
# KMIP specification: attributes introduced after 1.0 / deprecated-removed (name -> version)
T_ATTR_ADDED = {'Certificate Length': (1, 1), 'X.509 Certificate Identifier': (1, 1), 'X.509 Certificate Subject': (1, 1),
                'X.509 Certificate Issuer': (1, 1), 'Digital Signature Algorithm': (1, 1), 'Fresh': (1, 1),
                'Alternative Name': (1, 2), 'Key Value Present': (1, 2), 'Key Value Location': (1, 2), 'Original Creation Date': (1, 2),
                'Random Number Generator': (1, 3), 'PKCS#12 Friendly Name': (1, 4), 'Description': (1, 4), 'Comment': (1, 4),
                'Sensitive': (1, 4), 'Always Sensitive': (1, 4), 'Extractable': (1, 4), 'Never Extractable': (1, 4)}
T_ATTR_DEPRECATED = {'Certificate Identifier': (1, 1), 'Certificate Subject': (1, 1), 'Certificate Issuer': (1, 1),
                     'Operation Policy Name': (2, 0)}


# KMIP specification: version-conditional message fields (class, tag) -> ('min', V) present iff version >= V | ('before', V) present iff version < V
_TA = ('before', 'KMIP_2_0')
_AT = ('min', 'KMIP_2_0')
T_FIELDVER = {
    ('ResponseHeader', 'SERVER_HASHED_PASSWORD'): _AT, ('RequestBatchItem', 'EPHEMERAL'): _AT,
    ('CreateRequestPayload', 'TEMPLATE_ATTRIBUTE'): _TA, ('CreateRequestPayload', 'ATTRIBUTES'): _AT, ('CreateRequestPayload', 'PROTECTION_STORAGE_MASKS'): _AT,
    ('CreateResponsePayload', 'TEMPLATE_ATTRIBUTE'): _TA,
    ('CreateKeyPairRequestPayload', 'COMMON_TEMPLATE_ATTRIBUTE'): _TA, ('CreateKeyPairRequestPayload', 'COMMON_ATTRIBUTES'): _AT,
    ('CreateKeyPairRequestPayload', 'PRIVATE_KEY_TEMPLATE_ATTRIBUTE'): _TA, ('CreateKeyPairRequestPayload', 'PRIVATE_KEY_ATTRIBUTES'): _AT,
    ('CreateKeyPairRequestPayload', 'PUBLIC_KEY_TEMPLATE_ATTRIBUTE'): _TA, ('CreateKeyPairRequestPayload', 'PUBLIC_KEY_ATTRIBUTES'): _AT,
    ('CreateKeyPairRequestPayload', 'COMMON_PROTECTION_STORAGE_MASKS'): _AT, ('CreateKeyPairRequestPayload', 'PRIVATE_PROTECTION_STORAGE_MASKS'): _AT,
    ('CreateKeyPairRequestPayload', 'PUBLIC_PROTECTION_STORAGE_MASKS'): _AT,
    ('CreateKeyPairResponsePayload', 'PRIVATE_KEY_TEMPLATE_ATTRIBUTE'): _TA, ('CreateKeyPairResponsePayload', 'PUBLIC_KEY_TEMPLATE_ATTRIBUTE'): _TA,
    ('DecryptRequestPayload', 'AUTHENTICATED_ENCRYPTION_ADDITIONAL_DATA'): ('min', 'KMIP_1_4'), ('DecryptRequestPayload', 'AUTHENTICATED_ENCRYPTION_TAG'): ('min', 'KMIP_1_4'),
    ('EncryptRequestPayload', 'AUTHENTICATED_ENCRYPTION_ADDITIONAL_DATA'): ('min', 'KMIP_1_4'), ('EncryptResponsePayload', 'AUTHENTICATED_ENCRYPTION_TAG'): ('min', 'KMIP_1_4'),
    ('DeleteAttributeRequestPayload', 'ATTRIBUTE_NAME'): _TA, ('DeleteAttributeRequestPayload', 'ATTRIBUTE_INDEX'): _TA,
    ('DeleteAttributeRequestPayload', 'CURRENT_ATTRIBUTE'): _AT, ('DeleteAttributeRequestPayload', 'ATTRIBUTE_REFERENCE'): _AT,
    ('DeleteAttributeResponsePayload', 'ATTRIBUTE'): _TA,
    ('DeriveKeyRequestPayload', 'TEMPLATE_ATTRIBUTE'): _TA, ('DeriveKeyRequestPayload', 'ATTRIBUTES'): _AT, ('DeriveKeyResponsePayload', 'TEMPLATE_ATTRIBUTE'): _TA,
    ('GetAttributeListResponsePayload', 'ATTRIBUTE_NAME'): _TA, ('GetAttributeListResponsePayload', 'ATTRIBUTE_REFERENCE'): _AT,
    ('GetAttributesRequestPayload', 'ATTRIBUTE_NAME'): _TA, ('GetAttributesRequestPayload', 'ATTRIBUTE_REFERENCE'): _AT,
    ('GetAttributesResponsePayload', 'ATTRIBUTE'): _TA, ('GetAttributesResponsePayload', 'ATTRIBUTES'): _AT,
    ('LocateRequestPayload', 'ATTRIBUTE'): _TA, ('LocateRequestPayload', 'ATTRIBUTES'): _AT,
    ('ModifyAttributeRequestPayload', 'ATTRIBUTE'): _TA, ('ModifyAttributeRequestPayload', 'CURRENT_ATTRIBUTE'): _AT, ('ModifyAttributeRequestPayload', 'NEW_ATTRIBUTE'): _AT,
    ('ModifyAttributeResponsePayload', 'ATTRIBUTE'): _TA,
    ('QueryResponsePayload', 'EXTENSION_INFORMATION'): ('min', 'KMIP_1_1'), ('QueryResponsePayload', 'ATTESTATION_TYPE'): ('min', 'KMIP_1_2'),
    ('QueryResponsePayload', 'RNG_PARAMETERS'): ('min', 'KMIP_1_3'), ('QueryResponsePayload', 'PROFILE_INFORMATION'): ('min', 'KMIP_1_3'),
    ('QueryResponsePayload', 'VALIDATION_INFORMATION'): ('min', 'KMIP_1_3'), ('QueryResponsePayload', 'CAPABILITY_INFORMATION'): ('min', 'KMIP_1_3'),
    ('QueryResponsePayload', 'CLIENT_REGISTRATION_METHOD'): ('min', 'KMIP_1_3'), ('QueryResponsePayload', 'DEFAULTS_INFORMATION'): _AT,
    ('QueryResponsePayload', 'PROTECTION_STORAGE_MASK'): _AT,
    ('RegisterRequestPayload', 'TEMPLATE_ATTRIBUTE'): _TA, ('RegisterRequestPayload', 'ATTRIBUTES'): _AT, ('RegisterRequestPayload', 'PROTECTION_STORAGE_MASKS'): _AT,
    ('RegisterResponsePayload', 'TEMPLATE_ATTRIBUTE'): _TA,
    ('CapabilityInformation', 'BATCH_UNDO_CAPABILITY'): ('min', 'KMIP_1_4'), ('CapabilityInformation', 'BATCH_CONTINUE_CAPABILITY'): ('min', 'KMIP_1_4'),
}
# structures that exist only from a given version on
T_CLASSVER = {'SetAttributeRequestPayload': 'KMIP_2_0', 'SetAttributeResponsePayload': 'KMIP_2_0', 'CurrentAttribute': 'KMIP_2_0', 'NewAttribute': 'KMIP_2_0',
              'AttributeReference': 'KMIP_2_0', 'Attributes': 'KMIP_2_0', 'ObjectDefaults': 'KMIP_2_0', 'DefaultsInformation': 'KMIP_2_0', 'ProtectionStorageMasks': 'KMIP_2_0',
              'RNGParameters': 'KMIP_1_3', 'ProfileInformation': 'KMIP_1_3', 'ValidationInformation': 'KMIP_1_3', 'CapabilityInformation': 'KMIP_1_3'}


def check_field_gates(ctx):
    """C16.R6: version guards of codec fields (both reader and writer) equal the specification table."""
    from ..ttlv import Schema, VERSIONS, eval_guard
    sch = Schema(ctx.src)
    ctx.rule('C16.R6', 'for every structure class, reader and writer admit each version-conditional field exactly under the versions the KMIP specification defines it for; '
                       'structures introduced in a later version refuse earlier versions on both sides')
    seen = set()
    n_cls = 0
    for ref, rf, wf in sch.codec_classes():
        cname = ref[1]
        R = sch.extract(ref, rf, 'read')
        W = sch.extract(ref, wf, 'write')
        for side, X, fn in (('reader', R, rf), ('writer', W, wf)):
            site = '%s:%s %s.%s' % (ref[0], fn.lineno, cname, fn.name)
            want_cls = T_CLASSVER.get(cname)
            have = [v for v in VERSIONS if X.defined_under(v)]
            exp = [v for v in VERSIONS if want_cls is None or VERSIONS.index(v) >= VERSIONS.index(want_cls)]
            if want_cls is not None or have != VERSIONS:
                n_cls += 1
                ctx.check(have == exp, 'C16.R6', '%s|%s|class-versions' % (cname, side), site, '%s defined for %s' % (side, [x[5:].replace('_', '.') for x in have]),
                          'the %s of %s is available under versions %s; the specification defines the structure for %s' % (side, cname, [x[5:] for x in have], [x[5:] for x in exp]))
            per_tag = {}
            for e in X.events:
                key = e['tag'] or e['ident'].upper()
                vs = frozenset(v for v in have if eval_guard(e['guards'], v))
                per_tag.setdefault(key, set()).update(vs)
            for key, vs in sorted(per_tag.items()):
                spec = T_FIELDVER.get((cname, key))
                if spec is None:
                    # ungated (or only class-gated) field
                    if vs != set(have):
                        ctx.fail('C16.R6', '%s|%s|%s|unreviewed-gate' % (cname, side, key), site, 'field %s is version-gated (%s) but has no entry in the specification table' % (key, sorted(x[5:] for x in vs)))
                    continue
                seen.add((cname, key, side))
                kind, V = spec
                exp_f = set(v for v in have if (VERSIONS.index(v) >= VERSIONS.index(V)) == (kind == 'min'))
                ctx.check(vs == exp_f, 'C16.R6', '%s|%s|%s' % (cname, side, key), site, '%s %s %s under %s' % (side, 'accepts' if side == 'reader' else 'emits', key, sorted(x[5:].replace('_', '.') for x in vs)),
                          'the %s of %s handles %s under versions %s; the specification defines it for %s' % (side, cname, key, sorted(x[5:] for x in vs), sorted(x[5:] for x in exp_f)))
    for (cname, key) in T_FIELDVER:
        for side in ('reader', 'writer'):
            if (cname, key, side) not in seen:
                raise AnalysisError('anchor vanished: version-conditional field %s.%s not found on the %s side' % (cname, key, side))
    ctx.count('version_gated_class_sides', n_cls, 20)
    ctx.count('version_gated_fields', len(T_FIELDVER), 50)


def vtuple(s):
    a, b = s.split('.')
    return (int(a), int(b))


def version_guard(test):
    """`self._protocol_version <op> contents.ProtocolVersion(a,b)` -> (op, (a,b)) else None."""
    p = cmp_parts(test)
    if p and is_self_attr(p[0], '_protocol_version') and isinstance(p[2], ast.Call):
        return p[1], fold_version(p[2])
    return None


def fold_gate(deco, inner, wrapper, gate_strings, versions):
    """True/False: for every supported version v and every threshold g used by a handler, the wrapper raises
    OperationNotSupported exactly when v < g and otherwise calls the wrapped function; None when it cannot be folded."""
    from ..fold import Folder, Version, Unfoldable, Raised, Opaque
    if len(inner) != 1 or len(wrapper) != 1:
        return None
    sup = deco.args.args[0].arg
    fpar = inner[0].args.args[0].arg
    wself = wrapper[0].args.args[0].arg if wrapper[0].args.args else 'self'
    try:
        for g in gate_strings:
            gv = tuple(int(x) for x in g.split('.'))
            for v in versions:
                f = Folder(models={'ProtocolVersion': Version, 'contents.ProtocolVersion': Version}, opaque_calls={fpar, 'functools.wraps', 'wraps'})
                env = {sup: g}
                f.run([s_ for s_ in deco.body if not isinstance(s_, (ast.FunctionDef, ast.Return))], env)
                env[fpar] = {'__attrs__': ('__name__',), '__name__': '_process_operation_name'}
                f.run([s_ for s_ in inner[0].body if not isinstance(s_, (ast.FunctionDef, ast.Return))], env)
                env[wself] = {'__attrs__': ('_protocol_version', '_logger'), '_protocol_version': Version(*v), '_logger': Opaque('logger')}
                for a_ in wrapper[0].args.args[1:]:
                    env[a_.arg] = Opaque('argument')
                if wrapper[0].args.vararg:
                    env[wrapper[0].args.vararg.arg] = ()
                if wrapper[0].args.kwarg:
                    env[wrapper[0].args.kwarg.arg] = {}
                try:
                    out = f.run(wrapper[0].body, env)
                    raised = None
                except Raised as ex:
                    raised, out = ex.name, None
                below = tuple(v) < gv
                if below and raised != 'exceptions.OperationNotSupported':
                    return False
                if not below:
                    if raised is not None or out is None or out[0] != 'return' or not isinstance(out[1], Opaque) or out[1].what != fpar:
                        return False
    except Unfoldable:
        return None
    return True


def holds(op, v, bound):
    return {'GtE': v >= bound, 'Gt': v > bound, 'Lt': v < bound, 'LtE': v <= bound, 'Eq': v == bound, 'NotEq': v != bound}[op]


def fold_is_attribute(src):
    """Per-KMIPVersion attribute tag sets from enums.is_attribute: the function is folded once per version with a probe in place of the
    tag - the container the probe is tested against (`tag in <container>`) is the set of attribute tags of that version.  Module-level
    tables the function consults are folded from their defining statements."""
    import copy as _copy
    from ..fold import Folder, Unfoldable, Raised, Enum, MemberProbe, ProbeHit
    tree = src.tree(ENUMS)
    fn = get_function(tree, 'is_attribute')
    versions = [x.targets[0].id for c in tree.body if isinstance(c, ast.ClassDef) and c.name == 'KMIPVersion' for x in c.body
                if isinstance(x, ast.Assign) and isinstance(x.targets[0], ast.Name) and x.targets[0].id.isupper()]
    arms = {}
    try:
        for v in versions:
            f = Folder(models={'copy.deepcopy': _copy.deepcopy, 'copy.copy': _copy.copy, 'deepcopy': _copy.deepcopy}, steps=200000)
            f.module = tree
            try:
                f.call_function(fn, [MemberProbe(), Enum('KMIPVersion', v)], {})
                raise Unfoldable('no membership test reached')
            except ProbeHit as hit:
                if hit.negated or not all(isinstance(x, Enum) and x.cls == 'Tags' for x in hit.container):
                    raise Unfoldable('container of the membership test')
                arms[v] = {x.name for x in hit.container}
        if arms:
            return arms
    except (Unfoldable, Raised):
        arms = {}
    return interpret_is_attribute(fn)


def interpret_is_attribute(fn):
    """the straight-line list algebra is_attribute has on the pinned tree"""
    env = {}

    def ev(e):
        if isinstance(e, ast.List):
            out = []
            for x in e.elts:
                m = enum_member(x, 'Tags')
                if not m:
                    raise AnalysisError('unrecognised construct in is_attribute: %s' % U(x))
                out.append(m[1])
            return out
        if isinstance(e, ast.Name):
            return list(env[e.id])
        if isinstance(e, ast.Call) and call_name(e) in ('copy.deepcopy', 'list', 'copy.copy') and len(e.args) == 1:
            return ev(e.args[0])
        if isinstance(e, ast.BinOp) and isinstance(e.op, ast.Add):
            return ev(e.left) + ev(e.right)
        raise AnalysisError('unrecognised construct in is_attribute: %s' % short(e))
    arms = {}
    for s in fn.body:
        if isinstance(s, ast.Expr) and isinstance(s.value, ast.Constant):
            continue
        if isinstance(s, ast.Assign) and isinstance(s.targets[0], ast.Name):
            env[s.targets[0].id] = ev(s.value)
        elif isinstance(s, ast.Expr) and isinstance(s.value, ast.Call) and isinstance(s.value.func, ast.Attribute) \
                and s.value.func.attr in ('remove', 'append') and isinstance(s.value.func.value, ast.Name):
            m = enum_member(s.value.args[0], 'Tags')
            if not m:
                raise AnalysisError('unrecognised construct in is_attribute: %s' % short(s))
            lst = env[s.value.func.value.id]
            if s.value.func.attr == 'remove':
                if m[1] not in lst:
                    raise AnalysisError('is_attribute removes a tag that is not in the list: %s' % m[1])
                lst.remove(m[1])
            else:
                lst.append(m[1])
        elif isinstance(s, ast.If):
            node = s
            while node is not None:
                p = cmp_parts(node.test)
                m = enum_member(p[2], 'KMIPVersion') if p else None
                if not (p and p[1] == 'Eq' and m and len(node.body) == 1 and isinstance(node.body[0], ast.Return)):
                    raise AnalysisError('unrecognised construct in is_attribute: %s' % short(node.test))
                r = cmp_parts(node.body[0].value)
                if not (r and r[1] == 'In' and isinstance(r[2], ast.Name)):
                    raise AnalysisError('unrecognised construct in is_attribute: %s' % short(node.body[0]))
                arms[m[1]] = set(env[r[2].id])
                node = node.orelse[0] if len(node.orelse) == 1 and isinstance(node.orelse[0], ast.If) else None
        else:
            raise AnalysisError('unrecognised construct in is_attribute: %s' % short(s))
    return arms


class _Unknown(Exception):
    pass


class _Scalar(Exception):
    pass


def check_version_ordering(ctx):
    """C16.R9: the six comparison operators of ProtocolVersion, symbolically evaluated for the nine sign combinations of (major, minor), are the lexicographic order."""
    CONTENTS = 'kmip/core/messages/contents.py'
    ctx.rule('C16.R9', 'ProtocolVersion.__eq__/__ne__/__lt__/__le__/__gt__/__ge__ decide by comparing major with major and minor with minor: symbolically evaluated over the nine sign combinations they equal the lexicographic order on (major, minor) (version acceptance, gates and DiscoverVersions all rest on these operators)')
    t = ctx.src.tree(CONTENTS)
    cls = get_class(t, 'ProtocolVersion')
    ops = {}
    for name in ('__eq__', '__ne__', '__lt__', '__le__', '__gt__', '__ge__'):
        m = get_method(cls, name, optional=True, raw=True)      # as written: the evaluator below follows helper calls itself
        if m is not None:
            ops[name] = m
    ctx.need('__eq__' in ops and '__lt__' in ops, 'anchor vanished: ProtocolVersion.__eq__/__lt__')
    PY = {ast.Eq: lambda c: c == 0, ast.NotEq: lambda c: c != 0, ast.Lt: lambda c: c < 0, ast.LtE: lambda c: c <= 0, ast.Gt: lambda c: c > 0, ast.GtE: lambda c: c >= 0}
    DUNDER = {ast.Eq: '__eq__', ast.NotEq: '__ne__', ast.Lt: '__lt__', ast.LtE: '__le__', ast.Gt: '__gt__', ast.GtE: '__ge__'}

    def side(e, fnargs):
        """('self'|'other', field) for self.major / other.minor (also _major.value style is not accepted: property access only)."""
        if isinstance(e, ast.Attribute) and isinstance(e.value, ast.Name) and e.attr in ('major', 'minor') and e.value.id in fnargs:
            return fnargs[e.value.id], e.attr
        return None

    def lex(parts, signs):
        for f in parts:
            if signs[f] != 0:
                return signs[f]
        return 0

    def ev(e, signs, fnargs, depth):
        if isinstance(e, ast.Constant) and isinstance(e.value, bool):
            return e.value
        if isinstance(e, ast.Name) and e.id == 'NotImplemented':
            raise _Unknown('NotImplemented on the ProtocolVersion arm')
        if isinstance(e, ast.UnaryOp) and isinstance(e.op, ast.Not):
            return not ev(e.operand, signs, fnargs, depth)
        if isinstance(e, ast.BoolOp):
            vals = [ev(v, signs, fnargs, depth) for v in e.values]
            return all(vals) if isinstance(e.op, ast.And) else any(vals)
        if isinstance(e, ast.Call) and call_name(e) == 'isinstance' and len(e.args) == 2 and isinstance(e.args[0], ast.Name) and fnargs.get(e.args[0].id) == 'other':
            return True
        if isinstance(e, ast.Compare) and len(e.ops) == 1 and type(e.ops[0]) in PY:
            l, r = e.left, e.comparators[0]
            sl, sr = side(l, fnargs), side(r, fnargs)
            if sl and sr and sl[1] == sr[1] and sl[0] != sr[0]:
                c = signs[sl[1]] if sl[0] == 'self' else -signs[sl[1]]
                return PY[type(e.ops[0])](c)
            if isinstance(l, ast.Tuple) and isinstance(r, ast.Tuple) and len(l.elts) == len(r.elts):
                ps = [(side(a, fnargs), side(b, fnargs)) for a, b in zip(l.elts, r.elts)]
                if all(a and b and a[1] == b[1] and a[0] != b[0] and a[0] == ps[0][0][0] for a, b in ps):
                    c = lex([a[1] for a, b in ps], signs)
                    c = c if ps[0][0][0] == 'self' else -c
                    return PY[type(e.ops[0])](c)
            # self <op> other  ->  the class's own operator
            if isinstance(l, ast.Name) and isinstance(r, ast.Name) and {fnargs.get(l.id), fnargs.get(r.id)} == {'self', 'other'}:
                name = DUNDER[type(e.ops[0])]
                if name not in ops:
                    raise _Unknown('operator %s is not defined on the class' % name)
                sg = signs if fnargs[l.id] == 'self' else {k: -v for k, v in signs.items()}
                return call(name, sg, depth + 1)
            # self.h() <op> other.h() with h a one-expression method of the class
            if isinstance(l, ast.Call) and isinstance(r, ast.Call) and not l.args and not r.args and isinstance(l.func, ast.Attribute) and isinstance(r.func, ast.Attribute) \
                    and l.func.attr == r.func.attr and isinstance(l.func.value, ast.Name) and isinstance(r.func.value, ast.Name) \
                    and {fnargs.get(l.func.value.id), fnargs.get(r.func.value.id)} == {'self', 'other'}:
                h = get_method(cls, l.func.attr, optional=True)
                body = [st for st in (h.body if h is not None else []) if not (isinstance(st, ast.Expr) and isinstance(st.value, ast.Constant))]
                if h is not None and len(body) == 1 and isinstance(body[0], ast.Return) and len(h.args.args) == 1:
                    hv = body[0].value
                    me = h.args.args[0].arg
                    if isinstance(hv, ast.Tuple) and all(isinstance(x, ast.Attribute) and isinstance(x.value, ast.Name) and x.value.id == me and x.attr in ('major', 'minor') for x in hv.elts):
                        c = lex([x.attr for x in hv.elts], signs)
                        c = c if fnargs[l.func.value.id] == 'self' else -c
                        return PY[type(e.ops[0])](c)
                    fields = set(x.attr for x in ast.walk(hv) if isinstance(x, ast.Attribute) and isinstance(x.value, ast.Name) and x.value.id == me)
                    if fields & {'major', 'minor'} and not isinstance(hv, (ast.Tuple, ast.List)):
                        raise _Scalar('%s() folds (major, minor) into one value (%s) and the operator compares that value: no such encoding is the lexicographic order for all versions (e.g. 1.10 and 1.1 under a decimal rendering)' % (l.func.attr, U(hv)[:80]))
        raise _Unknown('comparison through %s' % U(e)[:80])

    def run_body(stmts, signs, fnargs, depth):
        for st in stmts:
            if isinstance(st, ast.Expr) and isinstance(st.value, ast.Constant):
                continue
            if isinstance(st, ast.Return):
                return ev(st.value, signs, fnargs, depth)
            if isinstance(st, ast.If):
                r = run_body(st.body if ev(st.test, signs, fnargs, depth) else st.orelse, signs, fnargs, depth)
                if r is not None:
                    return r
                continue
            raise _Unknown('statement %s' % U(st)[:60])
        return None

    def call(name, signs, depth=0):
        if depth > 6:
            raise _Unknown('operator recursion')
        fn = ops[name]
        a = [x.arg for x in fn.args.args]
        if len(a) != 2:
            raise _Unknown('signature of %s' % name)
        r = run_body(fn.body, signs, {a[0]: 'self', a[1]: 'other'}, depth)
        if r is None:
            raise _Unknown('%s falls off without a result' % name)
        return r
    WANT = {'__eq__': lambda c: c == 0, '__ne__': lambda c: c != 0, '__lt__': lambda c: c < 0, '__le__': lambda c: c <= 0, '__gt__': lambda c: c > 0, '__ge__': lambda c: c >= 0}
    unknown = []
    for name, fn in sorted(ops.items()):
        site = '%s:%s ProtocolVersion.%s' % (CONTENTS, fn.lineno, name)
        bad = []
        try:
            for mj in (-1, 0, 1):
                for mn in (-1, 0, 1):
                    signs = {'major': mj, 'minor': mn}
                    got = call(name, signs)
                    if got != WANT[name](lex(['major', 'minor'], signs)):
                        bad.append(('major %s' % '<=>'[mj + 1], 'minor %s' % '<=>'[mn + 1], got))
        except _Unknown as u:
            unknown.append('%s: %s' % (site, u))
            continue
        except _Scalar as u:
            ctx.fail('C16.R9', 'ProtocolVersion.%s|lexicographic' % name, site, str(u))
            continue
        ctx.check(not bad, 'C16.R9', 'ProtocolVersion.%s|lexicographic' % name, site, 'equals the lexicographic order on (major, minor) for all nine sign combinations',
                  'differs from the lexicographic order on (major, minor) for %s' % bad)
    ctx.count('version_comparison_operators', len(ops), 2)
    if unknown and not ctx.findings:
        raise AnalysisError('C16.R9 cannot evaluate the ProtocolVersion ordering symbolically (not a comparison of major with major and minor with minor): %s' % unknown[:2])


def check_trailer(ctx):
    """C16.R10: a reader whose element list depends on the version refuses what it did not consume."""
    from ..ttlv import Schema
    ctx.rule('C16.R10', 'every structure reader whose accepted elements depend on the KMIP version ends, on every path to a normal return, with the trailing-data check is_oversized(<local stream>): elements that exist only under a later version are then refused under an earlier one instead of being skipped silently')
    sch = Schema(ctx.src)
    n = 0
    for ref, rf, wf in sch.codec_classes():
        R = sch.extract(ref, rf, 'read')
        if not any(e['guards'] for e in R.events):
            continue
        n += 1
        g = CFG(rf)
        tn = [x for x in g.nodes for c in calls_at(x) if isinstance(c.func, ast.Attribute) and c.func.attr == 'is_oversized']
        ctx.check(bool(tn) and g.all_paths_pass(g.entry, g.exit, tn), 'C16.R10', '%s|trailer-check-on-every-path' % ref[1], '%s:%s %s.read' % (ref[0], rf.lineno, ref[1]),
                  'is_oversized on every path to the return', 'a path through %s.read returns without the trailing-data check: under an earlier version the elements of a later version are left unread and ignored, and the request is processed without them' % ref[1])
    ctx.count('version_dependent_readers', n, 15)



def fold_policy_for_version(ctx, m):
    """The fields _set_protocol_version reads are folded from the statements of __init__ that assign them (versions as (major, minor) models,
    AttributePolicy(v) as an opaque pair); then _set_protocol_version is folded for a fresh copy of every supported version and for an
    unsupported one: afterwards the engine holds exactly that version and the attribute policy *of that version* - whether it is built on the
    spot, memoised or taken from a table filled at start-up.  (ok, text) or None when this cannot be folded."""
    from ..fold import Folder, Version, Unfoldable, Raised, Opaque
    init = m.method('__init__')
    sp = m.method('_set_protocol_version')
    models = {'contents.ProtocolVersion': lambda *a, **k: Version(*(list(a) + [k[x] for x in ('major', 'minor') if x in k])),
              'policy.AttributePolicy': lambda v: ('AttributePolicy', v), 'AttributePolicy': lambda v: ('AttributePolicy', v)}
    selfv = {'__attrs__': ('_logger',), '_logger': Opaque('logger')}
    try:
        for st_ in init.body:
            if isinstance(st_, ast.Assign) and len(st_.targets) == 1 and is_self_attr(st_.targets[0]) and (
                    'rotocol_version' in st_.targets[0].attr or 'ttribute_polic' in st_.targets[0].attr):
                f = Folder(models=models, methods=m.methods, steps=20000)
                try:
                    f.run([st_], {'self': selfv})
                except (Unfoldable, Raised):
                    pass
        versions = selfv.get('_protocol_versions')
        if not isinstance(versions, list) or not versions or not all(isinstance(v, Version) for v in versions):
            return None
        n = 0
        for v in versions:
            f = Folder(models=models, methods=m.methods, steps=20000)
            state = dict(selfv)
            state['__attrs__'] = tuple(selfv['__attrs__'])
            for k_ in list(state):
                if isinstance(state[k_], (dict, list)) and k_ != '__attrs__':
                    import copy as _copy
                    state[k_] = _copy.copy(state[k_])
            fresh = Version(v.major, v.minor)
            f.call_method(sp, state, [fresh], {})
            n += 1
            if state.get('_protocol_version') != v:
                return (False, 'after accepting %s the engine holds version %r' % (v, state.get('_protocol_version')))
            if state.get('_attribute_policy') != ('AttributePolicy', v):
                return (False, 'after accepting %s the attribute policy in force is %r' % (v, state.get('_attribute_policy')))
        f = Folder(models=models, methods=m.methods, steps=20000)
        state = dict(selfv)
        try:
            f.call_method(sp, state, [Version(9, 9)], {})
            return (False, 'an unsupported version (9.9) is accepted')
        except Raised:
            pass
    except Unfoldable:
        ctx.count('policy_for_version_unfoldable', 1)
        return None
    except Raised as ex:
        return (False, '_set_protocol_version raises %s for a supported version' % ex.name)
    ctx.count('versions_folded_through_set_protocol_version', n)
    return (True, 'folded for %d supported versions and an unsupported one' % n)


def _ancestors_of(n):
    p = getattr(n, '_parent', None)
    while p is not None:
        yield p
        p = getattr(p, '_parent', None)


def check_error_response_versions(ctx, rule='C16.R7'):
    """Error responses built by the session are addressed with the version of the request they answer."""
    from ..dataflow import resolve
    stree = ctx.src.tree(SESSION)
    sc = get_class(stree, 'KmipSession')
    loop = get_method(sc, '_handle_message_loop')
    g = CFG(loop)
    rd = ReachingDefs(g)
    reads = [(n, c) for n, c in call_nodes(g, '.read') if isinstance(c.func.value, ast.Name) and any(isinstance(v, ast.Call) and (call_name(v) or '').endswith('RequestMessage') for v in rd.values(n, c.func.value.id))]
    ctx.need(len(reads) == 1, 'unrecognised construct: expected one request.read(...) in _handle_message_loop')
    rn, rc = reads[0]
    reqv = rc.func.value.id
    n = 0
    for bn, bc in call_nodes(g, 'self._engine.build_error_response'):
        n += 1
        site = '%s:%s KmipSession._handle_message_loop' % (SESSION, bc.lineno)
        v = bc.args[0] if bc.args else next((k.value for k in bc.keywords if k.arg == 'version'), None)
        # not decoded: the call sits in an except arm of the try that holds request.read (the request may be missing or half read there);
        # everywhere else the request was decoded - or, after the join, only a response that is larger than the client allows is replaced,
        # which an undecodable request never gets
        in_parse_handler = any(h is h2 for tr in rn.tries for h in tr.handlers for h2 in [x_ for x_ in _ancestors_of(bc)] )
        decoded = not in_parse_handler
        e, at = resolve(rd, bn, v) if v is not None else (None, bn)
        txt = U(e) if e is not None else None
        if decoded:
            ok = txt == '%s.request_header.protocol_version' % reqv
            if not ok and isinstance(e, ast.Attribute) and e.attr == 'protocol_version':
                b2, _ = resolve(rd, at, e.value)
                ok = U(b2) == '%s.request_header' % reqv
            ctx.check(ok, rule, 'KmipSession._handle_message_loop|error-response-version after decoding', site, 'an error that answers a decoded request carries the request header version',
                      'the error response for a request that was decoded is built with %s instead of the version in the request header: a client speaking another version than that gets a response header it did not ask for' % txt)
        else:
            ok = txt in ('contents.ProtocolVersion(1, 0)', 'self._engine.default_protocol_version') or (isinstance(e, ast.Call) and (call_name(e) or '').endswith('ProtocolVersion') and all(isinstance(a_, ast.Constant) for a_ in e.args))
            ctx.check(ok, rule, 'KmipSession._handle_message_loop|error-response-version before decoding', site, 'an error raised before / while decoding is answered under a fixed version',
                      'the error response for a request that may not have been decoded is built with %s (the header of such a request may be missing or half read)' % txt)
    ctx.count('session_error_responses', n, 4)


def fold_version_mapping(ctx, ct, conv, kv):
    """protocol_version_to_kmip_version folded for every (major, minor) in 0..3 x 0..45 (so 1.10, 1.20 ... are included): {(major, minor): member}
    for the pairs that map to a KMIPVersion; None when it cannot be folded.  (1.10 must not be read as 1.1.)"""
    from ..fold import Folder, Version, Enum, Unfoldable, Raised
    out = {}
    try:
        for maj in range(0, 4):
            for mnr in range(0, 46):
                f = Folder(steps=5000)
                f.module = ct
                f.enum_tables = {'KMIPVersion': list(kv)}
                f.enum_values = {'KMIPVersion': dict(kv)}
                try:
                    r = f.call_function(conv, [Version(maj, mnr)], {})
                except Raised:
                    return None
                if r is None:
                    continue
                if not (isinstance(r, Enum) and r.cls == 'KMIPVersion'):
                    return None
                out[(maj, mnr)] = r.name
    except Unfoldable:
        return None
    ctx.count('version_pairs_folded', 4 * 46)
    return out


# response fields that the KMIP specification introduced after 1.0 and that the codec of this tree writes whenever they are set (no version test in
# the writer): the engine is then the only place that can keep them from clients speaking an earlier version.  (class, constructor keyword) -> first version
T_UNGATED_RESPONSE_FIELDS = {('LocateResponsePayload', 'located_items'): (1, 3)}


def check_ungated_response_fields(ctx, m):
    """C16.R11: a later-version response field whose writer has no version test is only set by the engine under a version test."""
    from ..ttlv import Schema, VERSIONS, eval_guard
    ctx.rule('C16.R11', 'a response field that was introduced after KMIP 1.0 and that the codec writes whenever it is set (reviewed table: Located Items of the Locate response, KMIP 1.3) is given a value by an engine handler only on paths where the protocol version of the request was tested to be at least the version that introduced it - or the writer has acquired a version test of its own: otherwise the field is sent to clients speaking an earlier version')
    sch = Schema(ctx.src)
    gated = set()
    for ref, rf, wf in sch.codec_classes():
        for (cname, kwd), _v in T_UNGATED_RESPONSE_FIELDS.items():
            if ref[1] == cname:
                W = sch.extract(ref, wf, 'write')
                have = [v for v in VERSIONS if W.defined_under(v)]
                for e in W.events:
                    if e['ident'] == kwd and set(v for v in have if eval_guard(e['guards'], v)) != set(have):
                        gated.add((cname, kwd))
    n = 0
    for name, fn in sorted(m.methods.items()):
        g = None
        for c in [x for x in walk_local(fn) if isinstance(x, ast.Call)]:
            cn = (call_name(c) or '').split('.')[-1]
            for k in c.keywords:
                spec = T_UNGATED_RESPONSE_FIELDS.get((cn, k.arg))
                if spec is None or (cn, k.arg) in gated:
                    continue
                if isinstance(k.value, ast.Constant) and k.value.value is None:
                    continue
                n += 1
                if g is None:
                    g = CFG(fn)
                    rd = ReachingDefs(g)
                from ..dataflow import node_of_expr
                nd = node_of_expr(g, c)
                # where the value is given: the constructor call itself, or the assignments of a local handed to it (None assignments do not count)
                sites = [nd]
                if isinstance(k.value, ast.Name):
                    sites = [dn for _, v, dn in rd.reaching(nd, k.value.id) if dn is not None and not (isinstance(v, ast.Constant) and v.value is None)]
                ok = bool(sites)
                for sn in sites:
                    tested = False
                    for tt, lab in dominating_edges(g, sn):
                        c_ = tt.stmt
                        if isinstance(c_, ast.Compare) and len(c_.ops) == 1 and is_self_attr(c_.left, '_protocol_version') and isinstance(c_.comparators[0], ast.Call):
                            try:
                                b = fold_version(c_.comparators[0])
                            except AnalysisError:
                                continue
                            opn = type(c_.ops[0]).__name__
                            if (opn == 'GtE' and lab == 'T' and b >= spec) or (opn == 'Lt' and lab == 'F' and b >= spec) or (opn == 'Gt' and lab == 'T' and b >= (spec[0], spec[1] - 1)):
                                tested = True
                    ok = ok and tested
                ctx.check(ok, 'C16.R11', 'KmipEngine.%s|%s(%s=) without a version test' % (name, cn, k.arg), m.site(c, fn), '%s is set only for versions >= %d.%d' % (k.arg, spec[0], spec[1]),
                          '%s gives %s.%s a value without testing that the request speaks KMIP %d.%d or later, and the writer of %s emits the field whenever it is set: clients of earlier versions receive a field their version does not define' % (name, cn, k.arg, spec[0], spec[1], cn))
    ctx.count('ungated_later_fields_set_by_engine', n)
    if not n:
        ctx.ok('C16.R11', ENGINE, 'no engine handler sets a field of the reviewed table %s' % sorted(T_UNGATED_RESPONSE_FIELDS))

def run(ctx):
    src = ctx.src
    m = EngineModel(src)
    pol = PolicyModel(src)
    for rid, text in (
        ('C16.R1', 'the supported-version list is a literal, strictly descending; _set_protocol_version accepts exactly its members and otherwise raises InvalidMessage; it runs before any other request processing with the request header version'),
        ('C16.R2', 'protocol_version_to_kmip_version maps every supported version to a distinct KMIPVersion member'),
        ('C16.R3', 'every dispatched handler is gated by _kmip_version_supported(v) with v equal to the KMIP specification minimum for its operation; the gate raises OperationNotSupported below v'),
        ('C16.R4', 'for every supported version the operations advertised by Query are dispatched operations whose gate is <= that version'),
        ('C16.R5', 'DiscoverVersions returns only elements of the supported list (or request elements tested for membership), in list order'),
        ('C16.R7', 'the response header and the response encoding use the version of the request header'),
        ('C16.R8', 'attributes are produced only after is_attribute_supported and not is_attribute_deprecated; unsupported names are rejected on input; the policy is built from the request version; the two attribute-version registries agree with the specification table'),
    ):
        ctx.rule(rid, text)

    # ---------------- R1
    init = m.method('__init__')
    lit = None
    for n in walk_local(init):
        if isinstance(n, ast.Assign) and is_self_attr(n.targets[0], '_protocol_versions'):
            lit = n.value
    ctx.need(isinstance(lit, ast.List), 'unrecognised construct: _protocol_versions is not a list literal')
    versions = [fold_version(e) for e in lit.elts]
    isite = m.site(lit, init)
    ctx.count('supported_versions', len(versions), 1)
    ctx.check(all(versions[i] > versions[i + 1] for i in range(len(versions) - 1)), 'C16.R1', 'KmipEngine.__init__|_protocol_versions-descending',
              isite, 'supported versions %s strictly descending' % versions, 'supported-version list is not strictly newest-first: %s' % versions)
    stores = [(meth, n) for meth, (r, w) in m.field_effects().items() for n in w.get('_protocol_versions', [])]
    mut = [f for f in __import__('pv.rules.c11', fromlist=['transient_fields']).transient_fields(m) if f == '_protocol_versions']
    ctx.check([s[0] for s in stores] == ['__init__'] and not mut, 'C16.R1', 'KmipEngine|_protocol_versions-immutable', isite,
              'list stored once in __init__ and never mutated', 'the supported-version list is modified outside __init__')
    spv = m.method('_set_protocol_version')
    sg = CFG(spv)
    pvar = params(spv)[0]
    ssite = m.site(spv, spv)
    st = [n for n in sg.nodes if n.kind == 'stmt' and isinstance(n.stmt, ast.Assign) and is_self_attr(n.stmt.targets[0], '_protocol_version')]
    ok = len(st) == 1 and isinstance(st[0].stmt.value, ast.Name) and st[0].stmt.value.id == pvar
    memb = False
    if ok:
        for t, lab in dominating_edges(sg, st[0]):
            p = cmp_parts(t.stmt)
            if p and isinstance(p[0], ast.Name) and p[0].id == pvar and is_self_attr(p[2], '_protocol_versions'):
                if (p[1] == 'In' and lab == 'T') or (p[1] == 'NotIn' and lab == 'F'):
                    memb = True
                    mt = t
    ctx.check(ok and memb, 'C16.R1', 'KmipEngine._set_protocol_version|accept-iff-member', ssite,
              'stores the version only under `version in self._protocol_versions`', 'a version outside the supported list can be accepted')
    if ok and memb:
        # the other edge must end in raise InvalidMessage on every path
        other = edge_successors(mt, 'F' if cmp_parts(mt.stmt)[1] == 'In' else 'T')
        esc = any(sg.exit.id in sg.reachable(o) for o in other)
        raises = [n for n in sg.nodes if n.kind == 'stmt' and isinstance(n.stmt, ast.Raise) and any(n.id in sg.reachable(o) for o in other)]
        good = (not esc) and raises and all(isinstance(r.stmt.exc, ast.Call) and call_name(r.stmt.exc) == 'exceptions.InvalidMessage' for r in raises)
        ctx.check(good, 'C16.R1', 'KmipEngine._set_protocol_version|refuse-unsupported', ssite, 'unsupported version raises InvalidMessage',
                  'an unsupported version is not refused with InvalidMessage')
    pr = m.method('process_request')
    pg = CFG(pr)
    prd = ReachingDefs(pg)
    calls = call_nodes(pg, 'self._set_protocol_version')
    ctx.need(len(calls) == 1, 'unrecognised construct: expected one _set_protocol_version call in process_request')
    cn, cc = calls[0]
    psite = m.site(cc, pr)
    reqp = params(pr)[0]
    arg = cc.args[0] if cc.args else None
    # request.request_header.protocol_version, possibly through locals bound once (header = request.request_header; version = header.protocol_version)
    def expanded(e, node, depth=0):
        if depth > 6 or e is None:
            return None
        if isinstance(e, ast.Name):
            if e.id == reqp:
                return reqp if all(d[2] is None for d in prd.reaching(node, reqp)) else None
            vals = prd.reaching(node, e.id)
            if len(vals) == 1 and isinstance(vals[0][1], ast.AST) and vals[0][2] is not None:
                return expanded(vals[0][1], vals[0][2], depth + 1)
            return None
        if isinstance(e, ast.Attribute):
            b_ = expanded(e.value, node, depth + 1)
            return None if b_ is None else '%s.%s' % (b_, e.attr)
        return None
    REQV = '%s.request_header.protocol_version' % reqp
    okarg = expanded(arg, cn) == REQV
    ctx.check(okarg, 'C16.R1', 'KmipEngine.process_request|version-argument', psite, 'version checked is request.request_header.protocol_version',
              'the version checked is not the request header version: %s' % U(arg))
    # first effect: dominates every other self-method call and is not conditional
    others = [(n, c) for n in pg.nodes for c in calls_at(n) if is_self_attr(c.func) and c.func.attr in m.methods and c is not cc]
    ctx.check(pg.dominates(cn, pg.exit) and all(pg.dominates(cn, n) for n, c in others), 'C16.R1', 'KmipEngine.process_request|version-check-first', psite,
              'the version check dominates every other engine call (%d) and the normal exit' % len(others),
              'request processing can proceed without the version check')

    # ---------------- R2
    ct = src.tree(CONTENTS)
    conv = get_function(ct, 'protocol_version_to_kmip_version')
    cg = CFG(conv)
    cparam = params(conv, skip_self=False)[0]
    kv = enum_table(src, 'KMIPVersion')
    mapping = fold_version_mapping(ctx, ct, conv, kv)
    if mapping is None:
        mapping = {}
        for pn, lab in cg.exit.pred:
            s = pn.stmt
            if isinstance(s, ast.Return) and enum_member(s.value, 'KMIPVersion'):
                maj = mnr = None
                for t, l2 in dominating_edges(cg, pn):
                    p = cmp_parts(t.stmt)
                    if p and p[1] == 'Eq' and l2 == 'T' and isinstance(p[2], ast.Constant) and isinstance(p[0], ast.Attribute) \
                            and isinstance(p[0].value, ast.Name) and p[0].value.id == cparam:
                        if p[0].attr == 'major':
                            maj = p[2].value
                        elif p[0].attr == 'minor':
                            mnr = p[2].value
                if maj is None or mnr is None:
                    raise AnalysisError('unrecognised construct: guard chain of %s in protocol_version_to_kmip_version' % short(s))
                if (maj, mnr) in mapping:
                    raise AnalysisError('two arms for version %s' % ((maj, mnr),))
                mapping[(maj, mnr)] = enum_member(s.value, 'KMIPVersion')[1]
    ctx.count('version_mapping_arms', len(mapping), 1)
    csite = '%s:%s protocol_version_to_kmip_version' % (CONTENTS, conv.lineno)
    for v in versions:
        want = 'KMIP_%d_%d' % v
        ctx.check(mapping.get(v) == want and kv.get(want) == float('%d.%d' % v), 'C16.R2', 'protocol_version_to_kmip_version|%d.%d' % v, csite,
                  '%s -> KMIPVersion.%s' % (v, want), 'supported version %s maps to %s (expected KMIPVersion.%s)' % (v, mapping.get(v), want))
    ctx.check(len(set(mapping.values())) == len(mapping), 'C16.R2', 'protocol_version_to_kmip_version|injective', csite, 'mapping injective', 'two versions map to one KMIPVersion: %s' % sorted(k for k in mapping if list(mapping.values()).count(mapping[k]) > 1)[:6])
    extra_ = sorted(k for k in mapping if k not in versions)
    ctx.check(not extra_, 'C16.R2', 'protocol_version_to_kmip_version|only-supported-versions-map', csite, 'no other (major, minor) pair maps to a KMIPVersion',
              'version numbers the server does not support are decoded as supported ones: %s' % ['%d.%d -> %s' % (k[0], k[1], mapping[k]) for k in extra_][:6])

    # ---------------- R3
    hop = m.handler_op()
    ctx.count('handlers', len(hop), 21)
    gates = {}
    for h, op in sorted(hop.items()):
        fn = m.method(h)
        gate = m.version_gate(fn)
        gates[op] = gate
        hs = m.site(fn, fn)
        want = T_OPMIN.get(op)
        ctx.need(want is not None, 'unrecognised construct: operation %s has no entry in the specification table' % op)
        ctx.check(gate is not None and vtuple(gate) == vtuple(want), 'C16.R3', 'KmipEngine.%s|gate' % h, hs,
                  '%s gated at %s (spec: %s)' % (op, gate, want),
                  'operation %s is gated at %s but the KMIP specification introduces it in %s' % (op, gate, want))
    deco = m.method('_kmip_version_supported')
    dsite = m.site(deco, deco)
    sup = deco.args.args[0].arg
    inner = [n for n in deco.body if isinstance(n, ast.FunctionDef)]
    wrapper = [n for n in inner[0].body if isinstance(n, ast.FunctionDef)] if len(inner) == 1 else []
    okd = False
    if len(wrapper) == 1:
        w = wrapper[0]
        fname = inner[0].args.args[0].arg
        wg = CFG(w)
        callsf = [(n, c) for n in wg.nodes for c in calls_at(n) if isinstance(c.func, ast.Name) and c.func.id == fname]
        if len(callsf) == 1:
            fnode = callsf[0][0]
            for t, lab in dominating_edges(wg, fnode):
                p = cmp_parts(t.stmt)
                if not p:
                    continue
                ls, rs = U(p[0]), U(p[2])
                lv = 'self._protocol_version' in ls and sup not in ls
                rv = sup in rs and 'self._protocol_version' not in rs
                if lv and rv and ((p[1] == 'Lt' and lab == 'F') or (p[1] == 'GtE' and lab == 'T')):
                    okd = True
                    other = edge_successors(t, 'T' if lab == 'F' else 'F')
                    rz = [n for n in wg.nodes if n.kind == 'stmt' and isinstance(n.stmt, ast.Raise) and any(n.id in wg.reachable(o) for o in other)]
                    okd = okd and not any(wg.exit.id in wg.reachable(o) for o in other) and bool(rz) and all(
                        isinstance(r.stmt.exc, ast.Call) and call_name(r.stmt.exc) == 'exceptions.OperationNotSupported' for r in rz)
                    # both sides converted the same way
                    conv_l = ls.replace('self._protocol_version', '@')
                    conv_r = rs.replace(sup, '@')
                    okd = okd and (conv_l == conv_r or (conv_l == 'float(str(@))' and conv_r == 'float(@)'))
    # decide the gate by folding the decorator for every (supported version, gate threshold) pair; the spelling check above is
    # the fallback when the decorator uses something the folder does not model
    folded = fold_gate(deco, inner, wrapper, sorted(set(g for g in gates.values() if g)), versions)
    if folded is not None:
        okd = folded
        ctx.note('C16.R3 gate-shape decided by folding the decorator over %d versions x %d thresholds' % (len(versions), len(set(gates.values()))))
    ctx.check(okd, 'C16.R3', 'KmipEngine._kmip_version_supported|gate-shape', dsite,
              'wrapper calls the handler only when protocol version >= supported, else raises OperationNotSupported',
              'the version gate does not compare the current version with its argument / does not raise OperationNotSupported below it')

    # ---------------- R4 Query
    q = m.method('_process_query')
    qg = CFG(q)
    qrd = ReachingDefs(qg)
    resp = [c for n in qg.nodes for c in calls_at(n) if (call_name(c) or '').endswith('QueryResponsePayload')]
    ctx.need(len(resp) == 1, 'unrecognised construct: QueryResponsePayload construction')
    opsarg = [k.value for k in resp[0].keywords if k.arg == 'operations']
    ctx.need(len(opsarg) == 1 and isinstance(opsarg[0], ast.Name), 'unrecognised construct: operations= argument of QueryResponsePayload')
    opsvar = opsarg[0].id

    # what Query advertises under each supported version: fold the statements the operations list depends on (pv/fold.py)
    from ..fold import Folder, Version, Enum, Unfoldable, Raised, fold_slice
    qsite = m.site(q, q)
    n_contrib = 0
    for v in versions:
        f = Folder(models={'ProtocolVersion': Version, 'contents.ProtocolVersion': Version})
        env = {'self': {'__attrs__': ('_protocol_version',), '_protocol_version': Version(*v)}}
        try:
            adv_list = fold_slice(f, q, opsvar, env)
        except (Unfoldable, Raised) as ex:
            raise AnalysisError('unrecognised construct: the operations advertised by Query cannot be folded (%s)' % ex)
        ctx.need(isinstance(adv_list, (list, tuple)) and all(isinstance(x, Enum) and x.cls == 'Operation' for x in adv_list),
                 'unrecognised construct: advertised operation list %r' % (adv_list,))
        adv = set(x.name for x in adv_list)
        n_contrib = max(n_contrib, len(adv))
        bad = sorted(o for o in adv if o not in m.dispatch or vtuple(gates[o]) > v)
        ctx.check(not bad, 'C16.R4', 'KmipEngine._process_query|advertised@%d.%d' % v, qsite,
                  'under %d.%d Query advertises %d operations, all dispatched and gated <= %d.%d' % (v[0], v[1], len(adv), v[0], v[1]),
                  'under KMIP %d.%d Query advertises operations that are not available under that version: %s' % (v[0], v[1], bad))
    ctx.count('query_operation_contributions', n_contrib, 2)

    # ---------------- R5 DiscoverVersions
    dv = m.method('_process_discover_versions')
    dg = CFG(dv)
    drd = ReachingDefs(dg)
    resp = [(n, c) for n in dg.nodes for c in calls_at(n) if (call_name(c) or '').endswith('DiscoverVersionsResponsePayload')]
    ctx.need(len(resp) == 1, 'unrecognised construct: DiscoverVersionsResponsePayload construction')
    rn, rc = resp[0]
    arg = [k.value for k in rc.keywords if k.arg == 'protocol_versions'] or rc.args[:1]
    ctx.need(len(arg) == 1, 'unrecognised construct: protocol_versions argument')
    dsite2 = m.site(dv, dv)
    why = []

    def member_tested(name, at_node=None, ifs=()):
        """the value of `name` is known to be in the supported list: a dominating `name in self._protocol_versions` edge, or such a condition of a comprehension"""
        for c in ifs:
            p = cmp_parts(c)
            if p and isinstance(p[0], ast.Name) and p[0].id == name and is_self_attr(p[2], '_protocol_versions') and p[1] == 'In':
                return True
        if at_node is not None:
            for t, lab in dominating_edges(dg, at_node):
                p = cmp_parts(t.stmt)
                if p and isinstance(p[0], ast.Name) and p[0].id == name and is_self_attr(p[2], '_protocol_versions') and \
                        ((p[1] == 'In' and lab == 'T') or (p[1] == 'NotIn' and lab == 'F')):
                    return True
        return False

    def only_supported(e, node, depth=0):
        """every element of the list denoted by e at node is an element of self._protocol_versions"""
        if depth > 6:
            return False
        if isinstance(e, ast.AST) and is_self_attr(e, '_protocol_versions'):
            return True
        if isinstance(e, ast.Call) and call_name(e) in ('list', 'tuple', 'sorted', 'reversed', 'copy.copy') and len(e.args) >= 1:
            return only_supported(e.args[0], node, depth + 1) if e.args else True
        if isinstance(e, ast.Call) and call_name(e) in ('list', 'tuple') and not e.args:
            return True
        if isinstance(e, (ast.List, ast.Tuple)) and not e.elts:
            return True
        if isinstance(e, ast.Subscript) and isinstance(e.slice, ast.Slice):
            return only_supported(e.value, node, depth + 1)
        if isinstance(e, (ast.ListComp, ast.GeneratorExp)) and len(e.generators) == 1 and isinstance(e.elt, ast.Name) \
                and isinstance(e.generators[0].target, ast.Name) and e.elt.id == e.generators[0].target.id:
            gen = e.generators[0]
            return only_supported(gen.iter, node, depth + 1) or member_tested(e.elt.id, None, gen.ifs)
        if isinstance(e, ast.Name):
            ds = drd.reaching(node, e.id)
            if not ds:
                return False
            for var, val, dn in ds:
                if not isinstance(val, ast.AST) or dn is None or not only_supported(val, dn, depth + 1):
                    why.append('list defined as %s' % (short(val) if isinstance(val, ast.AST) else val))
                    return False
            # elements added later
            for n in dg.nodes:
                for c in calls_at(n):
                    if isinstance(c.func, ast.Attribute) and isinstance(c.func.value, ast.Name) and c.func.value.id == e.id and c.func.attr in ('append', 'extend', 'insert', '__iadd__'):
                        a_ = c.args[-1]
                        if any(isinstance(v, ast.AST) and is_self_attr(v, '_protocol_versions') for v in drd.values(n, e.id)):
                            why.append('adds to the engine list itself')
                            return False
                        if c.func.attr in ('append', 'insert') and isinstance(a_, ast.Name) and member_tested(a_.id, n):
                            continue
                        if c.func.attr in ('append', 'insert') and isinstance(a_, ast.Name):
                            # the element iterates over a list of supported versions (a filtering comprehension written as a loop)
                            its = drd.reaching(n, a_.id)
                            if its and all(isinstance(v_, tuple) and v_[0] == 'iter' and d_ is not None and only_supported(v_[1], d_, depth + 1) for _, v_, d_ in its):
                                continue
                        if c.func.attr == 'extend' and only_supported(a_, n, depth + 1):
                            continue
                        why.append('adds %s without membership test' % U(a_))
                        return False
            return True
        return False

    okdv = only_supported(arg[0], rn)
    why = '; '.join(why[:2]) or ('list defined as %s' % short(arg[0]))
    ctx.check(okdv, 'C16.R5', 'KmipEngine._process_discover_versions|provenance', dsite2,
              'response list is the supported list or request versions tested for membership', 'DiscoverVersions can list a version the server does not accept: %s' % why)

    # ---------------- R7 echo
    br = m.method('_build_response')
    vpar = params(br)[0]
    hdr = [c for c in ast.walk(br) if isinstance(c, ast.Call) and (call_name(c) or '').endswith('ResponseHeader')]
    okh = len(hdr) == 1 and any(k.arg == 'protocol_version' and isinstance(k.value, ast.Name) and k.value.id == vpar for k in hdr[0].keywords)
    ctx.check(okh, 'C16.R7', 'KmipEngine._build_response|header-version', m.site(br, br), 'response header version = the version parameter',
              'the response header does not carry the version passed to _build_response')
    brc = call_nodes(pg, 'self._build_response')
    ctx.need(len(brc) == 1, 'unrecognised construct: _build_response call in process_request')
    a0 = brc[0][1].args[0] if brc[0][1].args else None
    ctx.check(a0 is not None and expanded(a0, brc[0][0]) == REQV, 'C16.R7',
              'KmipEngine.process_request|response-version', m.site(brc[0][1], pr), 'response built with the request header version',
              'the response is built with %s instead of the request header version' % U(a0))
    retn = [pn for pn, l in pg.exit.pred if isinstance(pn.stmt, ast.Return)]
    okr = all(isinstance(r.stmt.value, ast.Tuple) and len(r.stmt.value.elts) == 3 and expanded(r.stmt.value.elts[2], r) == REQV for r in retn) and bool(retn)
    ctx.check(okr, 'C16.R7', 'KmipEngine.process_request|returned-version', m.site(pr, pr), 'third result component is the request header version',
              'process_request does not return the request header version as its third component')
    stree = src.tree(SESSION)
    sc = get_class(stree, 'KmipSession')
    loop = get_method(sc, '_handle_message_loop')
    lg = CFG(loop)
    lrd = ReachingDefs(lg)
    n_enc = 0
    for n, c in call_nodes(lg, '.write'):
        kw = [k.value for k in c.keywords if k.arg == 'kmip_version']
        if not kw:
            continue
        n_enc += 1
        es = '%s:%s KmipSession._handle_message_loop' % (SESSION, c.lineno)
        okv = isinstance(kw[0], ast.Name)
        srcs = set()
        def origins(node_, name_, depth_=0):
            """the definitions the value of name_ at node_ goes back to, through plain copies (v = w)"""
            out_ = []
            for var_, val_, dn_ in lrd.reaching(node_, name_):
                if isinstance(val_, ast.Name) and dn_ is not None and depth_ < 6:
                    out_ += origins(dn_, val_.id, depth_ + 1)
                else:
                    out_.append((var_, val_, dn_))
            return out_
        if okv:
            for var, val, dn in origins(n, kw[0].id):
                if isinstance(val, ast.Call) and call_name(val) == 'contents.protocol_version_to_kmip_version' and len(val.args) == 1:
                    a = val.args[0]
                    if dotted(a) == 'self._engine.default_protocol_version':
                        srcs.add('default')
                    elif isinstance(a, ast.Name):
                        vv = lrd.values(dn, a.id)
                        if all(isinstance(x, tuple) and x[0] == 'unpack' and x[2] == 2 for x in vv) and vv:
                            srcs.add('request')
                        else:
                            srcs.add('other')
                    else:
                        srcs.add('other')
                else:
                    srcs.add('other')
        ctx.check(okv and srcs == {'default', 'request'}, 'C16.R7', 'KmipSession._handle_message_loop|encode-version', es,
                  'encoded with the version returned by process_request (engine default only when no request was processed)',
                  'the response is encoded with a version that is not the one returned by process_request: %s' % sorted(srcs))
        # after a successful process_request the default must have been overwritten
        prn = call_nodes(lg, 'self._engine.process_request')
        for pn, pc in prn:
            conv_nodes = [d[2] for d in origins(n, kw[0].id) if isinstance(d[1], ast.Call) and d[2] is not None and lg.dominates(pn, d[2])]
            ctx.check(bool(conv_nodes) and all(x.stmt._parent is pc._parent._parent for x in conv_nodes), 'C16.R7',
                      'KmipSession._handle_message_loop|version-updated-with-result', es,
                      'the encoding version is updated in the same block as the engine call', 'the encoding version is not updated right after process_request')
    ctx.count('response_encode_sites', n_enc, 2)
    check_error_response_versions(ctx, 'C16.R7')
    check_ungated_response_fields(ctx, m)

    # ---------------- R8 attributes
    ga = m.method('_get_attributes_from_managed_object')
    gg = CFG(ga)
    creates = [(n, c) for n in gg.nodes for c in calls_at(n) if isinstance(c.func, ast.Attribute) and c.func.attr == 'create_attribute']
    ctx.count('attribute_creation_sites', len(creates), 2)
    for n, c in creates:
        sup_ok = dep_ok = False
        for t, lab in dominating_edges(gg, n):
            if isinstance(t.stmt, ast.Call) and dotted(t.stmt.func) == 'self._attribute_policy.is_attribute_supported' and lab == 'T':
                sup_ok = True
            if isinstance(t.stmt, ast.Call) and dotted(t.stmt.func) == 'self._attribute_policy.is_attribute_deprecated' and lab == 'F':
                dep_ok = True
        ctx.check(sup_ok and dep_ok, 'C16.R8', 'KmipEngine._get_attributes_from_managed_object|create_attribute', m.site(c, ga),
                  'attribute produced only if supported and not deprecated under the request version',
                  'an attribute can be reported without the supported/deprecated tests (supported=%s, not-deprecated=%s)' % (sup_ok, dep_ok))
    pta = m.method('_process_template_attribute')
    tg = CFG(pta)
    upd = [(n, c) for n in tg.nodes for c in calls_at(n) if isinstance(c.func, ast.Attribute) and c.func.attr in ('update', '__setitem__')]
    subs = [n for n in tg.nodes if n.kind == 'stmt' and isinstance(n.stmt, ast.Assign) and isinstance(n.stmt.targets[0], ast.Subscript)]
    ctx.count('template_attribute_store_sites', len(upd) + len(subs), 2)
    for n in [x[0] for x in upd] + subs:
        sup_ok = any(isinstance(t.stmt, ast.Call) and dotted(t.stmt.func) == 'self._attribute_policy.is_attribute_supported' and lab == 'T'
                     for t, lab in dominating_edges(tg, n))
        ctx.check(sup_ok, 'C16.R8', 'KmipEngine._process_template_attribute|accept', m.site(n.stmt, pta),
                  'attribute accepted only after is_attribute_supported', 'a template attribute is accepted without the version support test')
    # policy built from the request version
    # the policy in force is AttributePolicy(<the accepted version>): built directly, or taken from a table that is a pure memo of
    # exactly that construction (engmodel.pure_memo_fields)
    from ..engmodel import pure_memo_fields
    from ..dataflow import resolve
    memo_ok, memo_bad = pure_memo_fields(m)
    srd = ReachingDefs(sg)

    def is_version(e, at, depth=0):
        """e denotes the accepted protocol version: the parameter, self._protocol_version after it was stored from the parameter, or a
        ProtocolVersion rebuilt from the parameter's major and minor (in that order)"""
        e, at = resolve(srd, at, e)
        if isinstance(e, ast.Name) and e.id == pvar:
            return all(d[2] is None for d in srd.reaching(at, pvar))
        if is_self_attr(e, '_protocol_version'):
            return any(sg.dominates(x, at) for x in st)
        if isinstance(e, ast.Call) and (call_name(e) or '').endswith('ProtocolVersion') and depth < 3:
            args = list(e.args)
            if len(args) == 1 and isinstance(args[0], ast.Starred):
                t_, tn = resolve(srd, at, args[0].value)
                args = list(t_.elts) if isinstance(t_, ast.Tuple) else []
                at2 = tn
            else:
                at2 = at
            if len(args) == 2:
                ok_ = True
                for a_, fld in zip(args, ('major', 'minor')):
                    a2, an = resolve(srd, at2, a_)
                    ok_ = ok_ and isinstance(a2, ast.Attribute) and a2.attr == fld and is_version(a2.value, an, depth + 1)
                return ok_
        return False

    def is_policy_for_version(e, at, depth=0):
        if depth > 5:
            return False
        if isinstance(e, ast.Call) and (call_name(e) or '').endswith('AttributePolicy') and len(e.args) == 1:
            return is_version(e.args[0], at)
        if isinstance(e, ast.Call) and isinstance(e.func, ast.Attribute) and e.func.attr == 'get' and is_self_attr(e.func.value) and e.func.value.attr in memo_ok:
            return True
        if isinstance(e, ast.Subscript) and is_self_attr(e.value) and e.value.attr in memo_ok:
            return True
        if isinstance(e, ast.Name):
            ds = srd.reaching(at, e.id)
            return bool(ds) and all(isinstance(v, ast.AST) and dn is not None and is_policy_for_version(v, dn, depth + 1) for _, v, dn in ds)
        return False
    pol_sites = [n for n in sg.nodes if n.kind == 'stmt' and isinstance(n.stmt, ast.Assign) and is_self_attr(n.stmt.targets[0], '_attribute_policy')]
    pol_ok = bool(pol_sites) and all(is_policy_for_version(n.stmt.value, n) for n in pol_sites)
    folded_pol = fold_policy_for_version(ctx, m)
    if folded_pol is not None:
        pol_ok = folded_pol[0]
        memo_ok = ()
    if pol_ok and memo_ok:
        # every entry of the memo table is itself AttributePolicy(<version the key was built from>)
        for n in sg.nodes:
            if n.kind == 'stmt' and isinstance(n.stmt, ast.Assign) and isinstance(n.stmt.targets[0], ast.Subscript) and is_self_attr(n.stmt.targets[0].value) \
                    and n.stmt.targets[0].value.attr in memo_ok:
                pol_ok = pol_ok and is_policy_for_version(n.stmt.value, n)
    ctx.check(pol_ok, 'C16.R8', 'KmipEngine._set_protocol_version|attribute-policy-version', ssite, 'attribute policy rebuilt with the accepted version' + (' (%s)' % folded_pol[1] if folded_pol else ''),
              'the attribute policy is not rebuilt from the accepted request version' + (': %s' % folded_pol[1] if folded_pol else ''))
    # is_attribute_supported / deprecated bodies
    pcl = pol.cls
    def fold_version_query(meth, fld, none_ok):
        """the query method folded for every (request version, rule version) pair over a one-entry rule table: True exactly when the
        request version is >= the rule's version (and the rule has one) - whatever helper or rule-set method computes it.  None = not foldable"""
        from ..fold import Folder, Version, Unfoldable, Raised
        ptree = src.tree('kmip/services/server/policy.py')
        rcls = [c for c in ptree.body if isinstance(c, ast.ClassDef) and c.name == 'AttributeRuleSet']
        if len(rcls) != 1:
            return None
        fn_ = get_method(pcl, meth)
        allv = [(1, 0), (1, 1), (1, 2), (1, 3), (1, 4), (2, 0)]
        bad, n_ = [], 0
        for v in allv:
            for rv in allv + ([None] if none_ok else []):
                fo = Folder(models={'ProtocolVersion': Version, 'contents.ProtocolVersion': Version}, steps=20000,
                            methods={x.name: x for x in pcl.body if isinstance(x, ast.FunctionDef)})
                fo.module = ptree
                rule = Folder.new_object(rcls[0])
                vals = {'version_added': Version(1, 0), 'version_deprecated': None, 'applies_to_object_types': [], 'always_has_value': False,
                        'initially_set_by': (), 'modifiable_by_server': False, 'modifiable_by_client': False, 'deletable_by_client': False,
                        'multiple_instances_permitted': False, 'implicitly_set_by': ()}
                vals[fld] = Version(*rv) if rv is not None else None
                rule.update(vals)
                rule['__attrs__'] = tuple(vals)
                selfv = {'__attrs__': ('_version', '_attribute_rule_sets'), '_version': Version(*v), '_attribute_rule_sets': {'X': rule},
                         '__props__': {}, '__methods__': {x.name: x for x in pcl.body if isinstance(x, ast.FunctionDef)}, '__class__': 'AttributePolicy'}
                try:
                    got = fo.call_method(fn_, selfv, ['X'], {})
                except (Unfoldable, Raised, RecursionError, KeyError, TypeError, AttributeError):
                    return None
                if got is not True and got is not False:
                    return None
                n_ += 1
                want = rv is not None and v >= rv
                if got != want:
                    bad.append('version %d.%d, rule %s %s -> %s' % (v[0], v[1], fld, ('%d.%d' % rv) if rv else None, got))
        return bad, n_

    for meth, fld, none_ok in (('is_attribute_supported', 'version_added', False), ('is_attribute_deprecated', 'version_deprecated', True)):
        folded = fold_version_query(meth, fld, none_ok)
        if folded is not None:
            fq = get_method(pcl, meth)
            ctx.check(not folded[0], 'C16.R8', 'AttributePolicy.%s|compare' % meth, 'kmip/services/server/policy.py:%s AttributePolicy.%s' % (fq.lineno, meth),
                      'True exactly under self._version >= rule.%s (folded over %d version pairs)' % (fld, folded[1]),
                      '%s does not return True exactly when the version is >= rule.%s: %s' % (meth, fld, folded[0][:4]))
            ctx.analysed['policy_version_query_pairs_folded'] = ctx.analysed.get('policy_version_query_pairs_folded', 0) + folded[1]
            continue
        f = get_method(pcl, meth)
        fg = CFG(f)
        frd = ReachingDefs(fg)
        from ..dataflow import resolve as _res

        def fld_of(e_, at_):
            # the rule field an expression denotes: <rule set>.<field>, possibly held in a local first
            e2, _n = _res(frd, at_, e_)
            return e2.attr if isinstance(e2, ast.Attribute) else None
        good = True
        n_ret = 0
        for pn, lab in fg.exit.pred:
            s = pn.stmt
            if isinstance(s, ast.Return) and s.value is not None and not isinstance(s.value, ast.Constant):
                # `return bool(self._version >= rule.<field>)` / `return self._version >= rule.<field>`: the two constant returns in one expression
                v_ = s.value
                if isinstance(v_, ast.Call) and call_name(v_) == 'bool' and len(v_.args) == 1 and not v_.keywords:
                    v_ = v_.args[0]
                p_ = cmp_parts(v_)
                if p_ and is_self_attr(p_[0], '_version') and fld_of(p_[2], pn) == fld and p_[1] == 'GtE':
                    n_ret += 2
                    continue
            if not (isinstance(s, ast.Return) and isinstance(s.value, ast.Constant)):
                good = False
                continue
            n_ret += 1
            ge = None
            for t, l2 in dominating_edges(fg, pn):
                p = cmp_parts(t.stmt)
                if p and is_self_attr(p[0], '_version') and fld_of(p[2], t) == fld and p[1] == 'GtE':
                    ge = (l2 == 'T')
            if s.value.value is True and ge is not True:
                good = False
            if ge is False and s.value.value is not False:
                good = False
        ctx.check(good and n_ret >= 2, 'C16.R8', 'AttributePolicy.%s|compare' % meth, 'kmip/services/server/policy.py:%s AttributePolicy.%s' % (f.lineno, meth),
                  'True exactly under self._version >= rule.%s' % fld, '%s does not return True exactly when the version is >= rule.%s' % (meth, fld))
    # registries vs specification
    tagtab = dict(attribute_name_tag_table(src))
    isattr = fold_is_attribute(src)
    order = ['KMIP_1_0', 'KMIP_1_1', 'KMIP_1_2', 'KMIP_1_3', 'KMIP_1_4', 'KMIP_2_0']
    ctx.need(set(isattr) == set(order), 'unrecognised construct: is_attribute arms %s' % sorted(isattr))
    first = {}
    for vname in order:
        for tag in isattr[vname]:
            first.setdefault(tag, vname)
    n_reg = 0
    for name, rule in sorted(pol.rules.items()):
        want = T_ATTR_ADDED.get(name, (1, 0))
        rs = 'kmip/services/server/policy.py:%s AttributePolicy rule %r' % (pol.rule_nodes[name].lineno, name)
        ctx.check(rule['version_added'] == want, 'C16.R8', 'AttributePolicy|%s|version_added' % name, rs,
                  '%s added in %s' % (name, want), 'attribute %s is marked as added in %s; the KMIP specification says %s' % (name, rule['version_added'], want))
        wd = T_ATTR_DEPRECATED.get(name)
        ctx.check(rule['version_deprecated'] == wd, 'C16.R8', 'AttributePolicy|%s|version_deprecated' % name, rs,
                  '%s deprecated in %s' % (name, wd), 'attribute %s deprecated in %s; specification table says %s' % (name, rule['version_deprecated'], wd))
        tag = tagtab.get(name)
        if tag and tag in first:
            n_reg += 1
            fv = tuple(int(x) for x in first[tag].split('_')[1:])
            ctx.check(fv == rule['version_added'], 'C16.R8', 'registries|%s' % name, rs,
                      'enums.is_attribute first lists %s under %s' % (tag, first[tag]),
                      'AttributePolicy adds %s in %s but enums.is_attribute first accepts its tag in %s' % (name, rule['version_added'], fv))
    ctx.count('attributes_in_both_registries', n_reg, 30)
    for tag, vname in sorted(first.items()):
        names = [k for k, v in tagtab.items() if v == tag]
        want = T_ATTR_ADDED.get(names[0], (1, 0)) if names else None
        if want is None or names[0] not in T_ATTR_ADDED and vname != 'KMIP_1_0':
            continue
        fv = tuple(int(x) for x in vname.split('_')[1:])
        ctx.check(fv == want, 'C16.R8', 'is_attribute|%s' % tag, '%s is_attribute' % ENUMS, '%s first accepted under %s' % (tag, vname),
                  'enums.is_attribute first accepts %s under %s; the specification table says %s' % (tag, fv, want))
    check_field_gates(ctx)
    ctx.assumptions += ['T_OPMIN / T_ATTR_ADDED / T_ATTR_DEPRECATED transcribe the KMIP 1.0-2.0 specifications']
    check_version_ordering(ctx)
    check_trailer(ctx)
