"""C20 - secrets stay out of logs and error messages at the default log level."""
import ast

from ..astutil import (U, dotted, get_class, get_method, methods, walk_local, is_self_attr, call_name, short, params, all_functions, enum_member)
from ..astutil import classes as classes_of
from ..cfg import CFG, calls_at, expr_nodes
from ..dataflow import ReachingDefs, node_of_expr, assigned_names
from ..engmodel import ENGINE, SESSION, SERVER, CRYPTO
from ..engai import EngineAI
from ..source import AnalysisError

PROTO = 'kmip/services/kmip_protocol.py'
CONFIG = 'kmip/services/server/config.py'
CONFIG_HELPER = 'kmip/core/config_helper.py'
EXPLANATION = (
    "Taint analysis of every logging call of level INFO or higher and of every KMIP error message. In engine.py the abstract interpreter "
    "supplies typed sources (a whole managed object - whose repr/str print the value in hex -, an object's .value, crypto-engine results, secret "
    "payload fields, core secrets); elsewhere (session, server, crypto engine, protocol, both clients, pie) a reaching-definition taint tracks "
    "received/encoded message bytes and their hexlify, stream buffers, key/plaintext/ciphertext parameters and results of cryptographic "
    "primitives, passwords and credentials through assignment, formatting and conversion. Sanitised: len(), type(), identifiers, enum names. "
    "DEBUG calls are outside the property; the default levels (server INFO, KMIPProtocol forcing INFO when unset) are checked. Exception objects "
    "handed to logger.exception are clean given the error-message rule; third-party exception texts are a recorded assumption.")

LEVELS_INFO_UP = {'info', 'warning', 'warn', 'error', 'exception', 'critical', 'fatal', 'log'}
SECRET_ATTRS = {'password', 'credential', 'credentials', 'key_material', 'key_value', 'buffer', 'private_key', 'secret', 'plain_text', 'cipher_text',
                'derivation_data', 'signature_data', 'iv_counter_nonce', 'auth_additional_data', 'auth_tag', 'key_block', 'certificate_value', 'secret_data'}
# reviewed third-party calls whose exception text quotes the input they were processing: attribute name -> predicate on the call
QUOTING_CALLS = {
    # ConfigParser.get(section, option): InterpolationSyntaxError / InterpolationMissingOptionError quote the raw value of the option
    'get': lambda c: len(c.args) >= 2 and 'conf' in U(c.func.value).lower(),
}
SOURCE_CALL_SUFFIX = ('.recv', '._receive_request', '._receive_bytes', '._recv_all', '.urandom', '.private_bytes', '.public_bytes', '.finalize', '.derive',
                      '.generate_private_key', '.generate_key', '.encrypt', '.decrypt', '.sign', '.wrap', '.aes_key_wrap', '.getpeercert')
PROPAGATORS = {'str', 'repr', 'bytes', 'bytearray', 'format', 'hexlify', 'binascii.hexlify', 'b2a_hex', 'join', 'decode', 'encode', 'hex', 'list', 'tuple', 'dict', 'hexlify_bytearray'}
SANITISERS = {'len', 'type', 'id', 'isinstance', 'bool', 'int.bit_length', 'hash'}
SAFE_ATTRS = {'unique_identifier', 'name', '__name__', 'object_type', '_object_type', 'errno', 'lineno'}
# crypto-engine parameters that carry secret material (property C20: key material, plaintext, derivation inputs)
SECRET_PARAMS = {'key', 'encryption_key', 'decryption_key', 'signing_key', 'key_material', 'plain_text', 'cipher_text', 'data', 'derivation_data', 'salt', 'iv_nonce',
                 'auth_additional_data', 'auth_tag', 'signature', 'message', 'bytes', 'password'}
SCOPE = ['kmip/services/server/session.py', 'kmip/services/server/server.py', 'kmip/services/server/monitor.py', 'kmip/services/server/config.py',
         'kmip/services/server/crypto/engine.py', 'kmip/services/server/policy.py', 'kmip/services/server/auth/slugs.py', 'kmip/services/server/auth/utils.py',
         'kmip/services/kmip_protocol.py', 'kmip/services/kmip_client.py', 'kmip/services/auth.py', 'kmip/pie/client.py', 'kmip/pie/objects.py', 'kmip/pie/factory.py',
         'kmip/core/policy.py', 'kmip/core/config_helper.py']


def is_logger_call(c):
    if not (isinstance(c, ast.Call) and isinstance(c.func, ast.Attribute)):
        return None
    base = U(c.func.value)
    if 'log' not in base.lower():
        return None
    return c.func.attr


class Taint:
    def __init__(self, fn, secret_params=()):
        self.g = CFG(fn)
        self.rd = ReachingDefs(self.g)
        self.secret_params = set(secret_params)
        self.memo = {}
        # locals into which a message / structure is encoded: X in `<obj>.write(X, ...)` where X is a local stream object
        self.encoded = set()
        for c in walk_local(fn):
            if isinstance(c, ast.Call) and isinstance(c.func, ast.Attribute) and c.func.attr == 'write' and c.args and isinstance(c.args[0], ast.Name) \
                    and not (isinstance(c.func.value, ast.Name) and c.func.value.id in ('sys', 'f', 'fh', 'fd')) and (c.keywords or len(c.args) > 1 or 'stream' in c.args[0].id or 'data' in c.args[0].id or 'buffer' in c.args[0].id):
                self.encoded.add(c.args[0].id)

    def var(self, node, name, depth=0):
        key = (node.id, name)
        if key in self.memo:
            return self.memo[key]
        self.memo[key] = []
        out = []
        if name in self.encoded:
            out.append('%s holds an encoded message (its str/format is the hex of the buffer)' % name)
        if depth < 8:
            for var, val, dn in self.rd.reaching(node, name):
                if dn is None:
                    if name in self.secret_params:
                        out.append('parameter %s' % name)
                    continue
                if isinstance(val, ast.AST):
                    out += self.expr(val, dn, depth + 1)
                elif isinstance(val, tuple) and val[0] == 'exc':
                    out += self.exception_text(dn)
                elif isinstance(val, tuple) and val[0] in ('iter', 'unpack', 'with') and isinstance(val[1], ast.AST):
                    out += self.expr(val[1], dn, depth + 1)
                elif isinstance(val, tuple) and val[0] == 'aug':
                    out += self.expr(val[1].value, dn, depth + 1) + self.var_before(dn, name, depth + 1)
        self.memo[key] = out
        return out

    def exception_text(self, handler_node):
        """Third-party calls whose exceptions quote the very value they were reading (reviewed table): an exception caught around such a call
        carries that value in its text."""
        h = handler_node.stmt if handler_node is not None else None
        tr = getattr(h, '_parent', None)
        if not isinstance(tr, ast.Try):
            return []
        out = []
        for st in tr.body:
            for c in ast.walk(st):
                if isinstance(c, ast.Call) and isinstance(c.func, ast.Attribute) and c.func.attr in QUOTING_CALLS and QUOTING_CALLS[c.func.attr](c):
                    out.append('text of an exception raised by %s (quotes the raw option value, e.g. a password containing %%)' % U(c.func))
        return out

    def var_before(self, node, name, depth):
        out = []
        for p, l in node.pred:
            out += self.var(p, name, depth)
        return out

    def expr(self, e, node, depth=0):
        if e is None or isinstance(e, ast.Constant):
            return []
        if isinstance(e, ast.Name):
            return self.var(node, e.id, depth)
        if isinstance(e, ast.Attribute):
            if e.attr in SAFE_ATTRS:
                return []
            if e.attr in SECRET_ATTRS:
                return ['.%s' % e.attr]
            return self.expr(e.value, node, depth)
        if isinstance(e, ast.Call):
            fn = call_name(e) or ''
            last = fn.split('.')[-1]
            if fn in SANITISERS or last in ('len',):
                return []
            if any(fn.endswith(sfx) for sfx in SOURCE_CALL_SUFFIX):
                return ['result of %s()' % fn]
            if getattr(self, 'config_values_secret', False) and isinstance(e.func, ast.Attribute) and e.func.attr in ('get', 'getint', 'getboolean', 'getfloat', 'items') and 'conf' in U(e.func.value).lower():
                return ['value of a configuration file option read by the generic getter that also reads the password option (%s)' % U(e.func)]
            out = []
            if isinstance(e.func, ast.Attribute):
                out += self.expr(e.func.value, node, depth)      # "fmt".format(x), x.decode(), stream.read()
            for a in e.args:
                out += self.expr(a, node, depth)
            for k in e.keywords:
                out += self.expr(k.value, node, depth)
            return out
        if isinstance(e, ast.Lambda):
            return []
        out = []
        for c in ast.iter_child_nodes(e):
            if isinstance(c, ast.expr):
                out += self.expr(c, node, depth)
            elif isinstance(c, ast.keyword):
                out += self.expr(c.value, node, depth)
            elif isinstance(c, ast.comprehension):
                out += self.expr(c.iter, node, depth)
        return out


SECRET_FIELDS = {'key_material', 'key_value', 'key_block', 'data', 'secret_data', 'certificate_value', 'opaque_data_value', 'credential_value', 'password', 'secret', 'managed_object',
                 'derivation_data', 'salt', 'iv_counter_nonce', 'signature_data', 'mac_data', 'private_key_unique_identifier_value'}


def check_codec_exception_texts(ctx):
    """C20.R4: exception messages built in the codec (they are logged by the session at WARNING/ERROR through logger.exception) do not format a
    secret-bearing field object whose class renders its content in __str__/__repr__."""
    from ..index import Index
    from ..cfg import CFG
    from ..guards import dominating_edges
    src = ctx.src
    ix = Index(src)
    ctx.rule('C20.R4', 'no exception message in kmip/core formats a secret-bearing field (key material, key value, data, ...) whose possible classes render instance data in __str__/__repr__/__format__')
    memo = {}

    def revealing(ref):
        if ref in memo:
            return memo[ref]
        memo[ref] = None
        res = None
        for dunder in ('__str__', '__repr__', '__format__'):
            k, fn = ix.find_method(ref, dunder)
            if fn is None:
                continue
            uses = sorted(set(n.attr for n in ast.walk(fn) if is_self_attr(n) and n.attr not in ('tag', 'type', '__class__')))
            # super().__repr__() delegations are followed implicitly by find_method on the MRO
            if uses:
                res = '%s.%s uses self.%s' % (k[1], dunder, '/'.join(uses[:3]))
                break
        memo[ref] = res
        return res
    n_sites = 0
    for rel in src.modules('kmip/core'):
        t = src.tree(rel)
        for q, fn, cls in all_functions(t):
            if cls is None:
                continue
            raises = [r for r in walk_local(fn) if isinstance(r, ast.Raise) and r.exc is not None]
            if not raises:
                continue
            g = None
            for r in raises:
                # expressions contributing to the message: the raise expression plus single-name locals defined in this function
                if g is None:
                    g = CFG(fn)
                    rdf = ReachingDefs(g)
                rnode = [n for n in g.nodes if n.stmt is r]
                exprs = [r.exc]
                if rnode:
                    seen_defs = set()
                    work = [(x.id, rnode[0]) for x in ast.walk(r.exc) if isinstance(x, ast.Name)]
                    while work:
                        nm, at = work.pop()
                        for var, val, dn in rdf.reaching(at, nm):
                            if dn is None or (nm, dn.id) in seen_defs:
                                continue
                            seen_defs.add((nm, dn.id))
                            ve = val if isinstance(val, ast.AST) else (val[1].value if isinstance(val, tuple) and val[0] == 'aug' else None)
                            if ve is None:
                                continue
                            exprs.append(ve)
                            if isinstance(val, tuple) and val[0] == 'aug':
                                for pp, _l in dn.pred:
                                    work.append((nm, pp))
                            for x in ast.walk(ve):
                                if isinstance(x, ast.Name):
                                    work.append((x.id, dn))
                fields = set()
                for e in exprs:
                    skip = set()
                    for x in ast.walk(e):
                        if isinstance(x, ast.Call) and (call_name(x) or '') in ('type', 'len', 'isinstance', 'id'):
                            for y in ast.walk(x):
                                skip.add(id(y))
                    for x in ast.walk(e):
                        if id(x) in skip:
                            continue
                        if is_self_attr(x) and x.attr.lstrip('_') in SECRET_FIELDS and isinstance(x.ctx, ast.Load):
                            par = getattr(x, '_parent', None)
                            if isinstance(par, ast.Attribute):
                                continue        # a sub-field (e.g. self.key_block.key_format_type) - judged on its own name
                            fields.add(x.attr)
                if not fields:
                    continue
                rn = [n for n in g.nodes if n.stmt is r]
                excluded = {}
                if rn:
                    for tt, lab in dominating_edges(g, rn[0]):
                        c = tt.stmt
                        if isinstance(c, ast.Call) and call_name(c) == 'isinstance' and len(c.args) == 2 and is_self_attr(c.args[0]) and lab == 'F':
                            ks = c.args[1].elts if isinstance(c.args[1], ast.Tuple) else [c.args[1]]
                            excluded.setdefault(c.args[0].attr, []).extend(x for x in (ix.resolve_class(rel, k) for k in ks) if x)
                for f in sorted(fields):
                    n_sites += 1
                    cands = set()
                    cref = (rel, q.rsplit('.', 1)[0])
                    for k in ix.mro(cref) if cref[1] in classes_of(t) else []:
                        for mfn in [m_ for m_ in ix.class_node(k).body if isinstance(m_, ast.FunctionDef)]:
                            for a in walk_local(mfn):
                                if isinstance(a, ast.Assign) and any(is_self_attr(tg, f) for tg in a.targets) and isinstance(a.value, ast.Call):
                                    rc = ix.resolve_class(k[0], a.value.func)
                                    if rc:
                                        cands.add(rc)
                    cands = set(c for c in cands if not any(ix.issub(c, ex) for ex in excluded.get(f, [])))
                    bad = sorted((c[1], revealing(c)) for c in cands if revealing(c))
                    site = '%s:%s %s' % (rel, r.lineno, q)
                    ctx.check(not bad, 'C20.R4', '%s|raise formats self.%s' % (q, f), site, 'self.%s may be %s: none renders instance data' % (f, sorted(c[1] for c in cands) or 'of unknown class (caller supplied)'),
                              'the exception message formats self.%s, which can be %s: the text (logged by the session at ERROR level) then contains the secret content' % (f, bad))
    ctx.count('codec_exception_sites_formatting_secret_fields', n_sites, 1)
    check_decoders_do_not_quote_value_bytes(ctx)



def check_decoders_do_not_quote_value_bytes(ctx):
    """C20.R7: the decoders of the primitives that carry passwords and key material never put the value bytes into an exception."""
    from ..inline import flat_methods
    from ..astutil import params as _params
    PRIM_ = 'kmip/core/primitives.py'
    ctx.rule('C20.R7', 'in the read / read_value methods of TextString, ByteString and BigInteger (passwords, key material and key parameters travel in them) no raise builds its exception from the value bytes: nothing read from the stream with a size derived from self.length (or inside a loop over range(self.length)), nothing computed from it and not self.value flows into the arguments of the exception, except under len() / type(). The session logs the text of a decode failure with logger.exception at ERROR level, so a password that fails to decode would be written to the log')
    t = ctx.src.tree(PRIM_)
    n = 0
    for cname in ('TextString', 'ByteString', 'BigInteger'):
        c = get_class(t, cname)
        fm = flat_methods(c)[0]
        for mname in ('read', 'read_value'):
            fn = fm.get(mname)
            if fn is None:
                continue
            ps = _params(fn)
            stream = ps[0] if ps else None
            tainted = set()

            def value_read(e, in_value_loop):
                for x in ast.walk(e):
                    if isinstance(x, ast.Call) and isinstance(x.func, ast.Attribute) and x.func.attr in ('read', 'peek') and isinstance(x.func.value, ast.Name) and x.func.value.id == stream:
                        if in_value_loop or any('self.length' in U(a) or 'length' == U(a) for a in x.args) or not x.args:
                            return True
                return False

            def mentions(e):
                skip = set()
                for x in ast.walk(e):
                    if isinstance(x, ast.Call) and (call_name(x) or '') in ('len', 'type', 'isinstance', 'id'):
                        for y in ast.walk(x):
                            skip.add(id(y))
                for x in ast.walk(e):
                    if id(x) in skip:
                        continue
                    if isinstance(x, ast.Name) and x.id in tainted:
                        return x.id
                    if is_self_attr(x, 'value') and isinstance(x.ctx, ast.Load):
                        return 'self.value'
                return None

            def loops_of(x):
                out = []
                p_ = getattr(x, '_parent', None)
                while p_ is not None and p_ is not fn:
                    if isinstance(p_, (ast.For, ast.While)):
                        out.append(p_)
                    p_ = getattr(p_, '_parent', None)
                return out
            changed = True
            while changed:
                changed = False
                for st in walk_local(fn):
                    tgts, val = None, None
                    if isinstance(st, ast.Assign):
                        tgts, val = st.targets, st.value
                    elif isinstance(st, ast.AugAssign):
                        tgts, val = [st.target], st.value
                    elif isinstance(st, ast.For):
                        tgts, val = [st.target], st.iter
                    if val is None:
                        continue
                    in_loop = any(isinstance(l, ast.For) and 'self.length' in U(l.iter) for l in loops_of(st))
                    if value_read(val, in_loop) or mentions(val):
                        for tg in tgts:
                            for x in ([tg] if isinstance(tg, ast.Name) else (tg.elts if isinstance(tg, (ast.Tuple, ast.List)) else [])):
                                if isinstance(x, ast.Name) and x.id not in tainted:
                                    tainted.add(x.id)
                                    changed = True
            for r in [x for x in walk_local(fn) if isinstance(x, ast.Raise) and x.exc is not None]:
                n += 1
                args = (list(r.exc.args) + [k.value for k in r.exc.keywords]) if isinstance(r.exc, ast.Call) else [r.exc]
                hit = None
                for a in args:
                    in_loop = any(isinstance(l, ast.For) and 'self.length' in U(l.iter) for l in loops_of(r))
                    hit = hit or mentions(a) or ('the stream' if value_read(a, in_loop) else None)
                ctx.check(hit is None, 'C20.R7', '%s.%s|raise quotes the value (%s)' % (cname, mname, hit), '%s:%s %s.%s' % (PRIM_, r.lineno, cname, mname), 'the exception is built without the value bytes',
                          'the exception raised here is built from %s, which holds (part of) the value bytes just read: a password or key that fails to decode is quoted in the exception text, and the session logs that text at ERROR level' % hit)
    ctx.count('raises_in_secret_bearing_decoders', n, 2)

def run(ctx):
    src = ctx.src
    ctx.rule('C20.R1', 'no secret-bearing expression reaches a logging call of level INFO or higher')
    ctx.rule('C20.R2', 'no secret-bearing expression reaches the message of a KMIP error raised in the server (it becomes result_message)')
    ctx.rule('C20.R3', 'default levels: the server default logging level is INFO and KMIPProtocol forces INFO when its logger level is unset; message encodings are logged at DEBUG only')
    # ---------------- engine.py through the abstract interpreter
    ai = EngineAI.shared(src)
    if ai.bounds_hit:
        raise AnalysisError('analysis bound hit: %s' % ai.bounds_hit[:3])
    logs = {}
    for e in ai.events:
        if e['kind'] == 'log' and e['level'] in LEVELS_INFO_UP:
            k = (e['fn'], e['line'], e['level'])
            logs.setdefault(k, set()).update(map(tuple, e['secrets']))
    for (fn, line, level), secrets in sorted(logs.items()):
        site = '%s:%s KmipEngine.%s' % (ENGINE, line, fn)
        ctx.check(not secrets, 'C20.R1', 'KmipEngine.%s|logger.%s|%s' % (fn, level, sorted(s[1] for s in secrets)), site, 'logger.%s arguments carry no secret' % level,
                  'logger.%s receives secret-bearing value(s): %s' % (level, sorted(secrets)))
    n_eng_logs = len(logs)
    raises = {}
    for e in ai.events:
        if e['kind'] == 'raise':
            k = (e['fn'], e['line'], e['exc'])
            raises.setdefault(k, set()).update(map(tuple, e.get('secrets') or []))
    for (fn, line, exc), secrets in sorted(raises.items(), key=str):
        site = '%s:%s KmipEngine.%s' % (ENGINE, line, fn)
        ctx.check(not secrets, 'C20.R2', 'KmipEngine.%s|raise %s|%s' % (fn, exc, sorted(s[1] for s in secrets)), site, 'error message carries no secret',
                  'the message of %s (returned to the client as result_message) contains secret-bearing value(s): %s' % (exc, sorted(secrets)))
    # ---------------- R5 engine fields (the ID placeholder above all) never hold a rendering of secret data
    ctx.rule('C20.R5', 'no handler stores a secret-bearing value (a rendered managed object, an object value, a crypto result, a secret payload field) into an engine field such as the ID placeholder: those fields are echoed by later items in not-found messages and WARNING logs')
    fstores = {}
    for e in ai.events:
        if e['kind'] == 'engine_field_store':
            fstores.setdefault((e['fn'], e['line'], e['field']), set()).update(map(tuple, e['secrets']))
    for (fn, line, field), secrets in sorted(fstores.items()):
        site = '%s:%s KmipEngine.%s' % (ENGINE, line, fn)
        ctx.check(not secrets, 'C20.R5', 'KmipEngine.%s|store self.%s|%s' % (fn, field, sorted(s[1] for s in secrets)), site, 'self.%s receives no secret-bearing value' % field,
                  'self.%s is assigned a secret-bearing value (%s); it is later formatted into "Could not locate object" messages returned to the client and into WARNING log lines' % (field, sorted(secrets)))
    ctx.count('engine_field_stores_in_handlers', len(fstores), 4)
    # every INFO+ logger call in engine.py outside the interpreted handlers (process_request, _process_batch, policy functions, ...) by the generic taint below
    interpreted_lines = set(l for (_, l, _) in logs)
    # ---------------- generic taint for the other modules (and the uninterpreted engine methods)
    n_logs = n_eng_logs
    n_raises = len(raises)
    n_debug = 0
    for rel in SCOPE + [ENGINE]:
        if not src.exists(rel):
            continue
        t = src.tree(rel)
        for q, fn, cls in all_functions(t):
            calls = [c for c in walk_local(fn) if is_logger_call(c)]
            rs = [r for r in walk_local(fn) if isinstance(r, ast.Raise) and isinstance(r.exc, ast.Call)] if rel in (CRYPTO, SESSION, ENGINE) else []
            if not calls and not rs:
                continue
            sp = SECRET_PARAMS if rel == CRYPTO else ({'password', 'data'} if rel in (PROTO, SESSION) else {'password'})
            if rel == CONFIG_HELPER:
                # the generic option getter of the client also resolves the `password` option: the value it was handed and the value it reads
                # from the configuration file are secrets as far as this function can know
                sp = sp | {'direct_value'}
            ta = Taint(fn, [p for p in params(fn) if p in sp])
            ta.config_values_secret = rel == CONFIG_HELPER
            for c in calls:
                level = is_logger_call(c)
                if level == 'debug':
                    n_debug += 1
                    continue
                if level not in LEVELS_INFO_UP:
                    continue
                if rel == ENGINE and c.lineno in interpreted_lines:
                    continue
                if level == 'log':
                    lv = c.args[0] if c.args else None
                    if isinstance(lv, ast.Attribute) and lv.attr == 'DEBUG':
                        n_debug += 1
                        continue
                n_logs += 1
                node = node_of_expr(ta.g, c)
                site = '%s:%s %s' % (rel, c.lineno, q)
                reasons = []
                for a in list(c.args) + [k.value for k in c.keywords]:
                    # the exception object of logger.exception(e)/error(e) is clean by R2 + assumption
                    if isinstance(a, ast.Name) and node is not None and any(isinstance(v, tuple) and v[0] == 'exc' for v in ta.rd.values(node, a.id)) and not ta.var(node, a.id):
                        continue
                    reasons += ta.expr(a, node) if node is not None else []
                ctx.check(not reasons, 'C20.R1', '%s|logger.%s|%s' % (q, level, sorted(set(reasons))), site, 'logger.%s arguments carry no secret' % level,
                          'logger.%s (level >= INFO) receives secret-bearing data: %s in %s' % (level, sorted(set(reasons)), short(c, 100)))
            for r in rs:
                if rel == ENGINE and r.lineno in set(l for (_, l, _) in raises):
                    continue
                nm = call_name(r.exc) or ''
                if not nm.startswith('exceptions.'):
                    continue
                n_raises += 1
                node = node_of_expr(ta.g, r)
                reasons = []
                for a in list(r.exc.args) + [k.value for k in r.exc.keywords]:
                    reasons += ta.expr(a, node) if node is not None else []
                ctx.check(not reasons, 'C20.R2', '%s|raise %s|%s' % (q, nm, sorted(set(reasons))), '%s:%s %s' % (rel, r.lineno, q), 'error message carries no secret',
                          'the message of %s contains secret-bearing data: %s' % (nm, sorted(set(reasons))))
    ctx.count('info_or_higher_log_calls', n_logs, 100)
    ctx.count('error_message_sites', n_raises, 150)
    ctx.analysed['debug_log_calls_outside_property'] = n_debug
    # the session maps KmipError text to the client: str(e) of engine errors only (covered by R2); generic arms use constants
    st = src.tree(SESSION)
    sc = get_class(st, 'KmipSession')
    loop = get_method(sc, '_handle_message_loop')
    for c in [c for c in walk_local(loop) if isinstance(c, ast.Call) and dotted(c.func) == 'self._engine.build_error_response']:
        msg = c.args[2] if len(c.args) > 2 else None
        okm = isinstance(msg, ast.Constant) or (isinstance(msg, ast.Call) and call_name(msg) == 'str' and isinstance(msg.args[0], ast.Name))
        ctx.check(okm, 'C20.R2', 'KmipSession._handle_message_loop|error-response-message %s' % short(msg, 40), '%s:%s' % (SESSION, c.lineno),
                  'session error responses carry a constant text or the KMIP error text', 'a session-built error response carries a computed message: %s' % short(msg))
    # ---------------- R3 default levels
    pt = src.tree(PROTO)
    kc = get_class(pt, 'KMIPProtocol')
    init = get_method(kc, '__init__')
    forced = False
    for n in walk_local(init):
        if isinstance(n, ast.If):
            tt = U(n.test)
            if 'logging.NOTSET' in tt and any(isinstance(x, ast.Call) and isinstance(x.func, ast.Attribute) and x.func.attr == 'setLevel' and x.args and U(x.args[0]) == 'logging.INFO' for s in n.body for x in ast.walk(s)):
                forced = True
    ctx.check(forced, 'C20.R3', 'KMIPProtocol.__init__|forces-info', '%s:%s' % (PROTO, init.lineno), 'logger level forced to INFO when unset',
              'KMIPProtocol no longer forces INFO when its logger level is unset: its DEBUG message dumps become visible under a DEBUG root logger')
    for mname in ('read', 'write'):
        mfn = get_method(kc, mname)
        dumps = [c for c in walk_local(mfn) if is_logger_call(c) in ('debug', 'info', 'warning', 'warn', 'error', 'exception', 'critical', 'fatal', 'log')]
        ctx.check(all(is_logger_call(c) == 'debug' for c in dumps), 'C20.R3', 'KMIPProtocol.%s|dumps-at-debug' % mname, '%s:%s' % (PROTO, mfn.lineno),
                  'message dumps at DEBUG', 'a message dump in KMIPProtocol.%s is logged above DEBUG' % mname)
    ct = src.tree(CONFIG)
    cc = get_class(ct, 'KmipServerConfig')
    cinit = get_method(cc, '__init__')
    dv = [n.value for n in walk_local(cinit) if isinstance(n, ast.Assign) and isinstance(n.targets[0], ast.Subscript) and isinstance(n.targets[0].slice, ast.Constant)
          and n.targets[0].slice.value == 'logging_level']
    ctx.check(len(dv) == 1 and U(dv[0]) == 'logging.INFO', 'C20.R3', 'KmipServerConfig.__init__|default-level', '%s:%s' % (CONFIG, cinit.lineno), 'default logging_level = logging.INFO',
              'the server default logging level is %s' % [U(x) for x in dv])
    setter = get_method(cc, '_set_logging_level')
    nonev = [n for n in walk_local(setter) if isinstance(n, ast.Assign) and isinstance(n.targets[0], ast.Subscript) and U(n.value) == 'logging.INFO']
    ctx.check(bool(nonev), 'C20.R3', 'KmipServerConfig._set_logging_level|none-means-info', '%s:%s' % (CONFIG, setter.lineno), 'unset level falls back to INFO', 'an unset logging level no longer falls back to INFO')
    check_codec_exception_texts(ctx)
    # ---------------- R6 no exception is raised while statement parameters are bound
    ctx.rule('C20.R6', 'the column type converters of the object store (kmip/pie/sqltypes.py: process_bind_param / process_result_value) raise nothing: an exception raised while the parameters of a statement are bound is wrapped by SQLAlchemy into a StatementError whose text lists the raw parameters of that statement - for the managed_objects / keys INSERT the key bytes - and the engine logs the exception of a failed item at ERROR')
    sqlt = 'kmip/pie/sqltypes.py'
    st_ = src.tree(sqlt)
    n_conv = 0
    for cl_ in [x for x in st_.body if isinstance(x, ast.ClassDef)]:
        for mth in [f for f in cl_.body if isinstance(f, ast.FunctionDef) and f.name in ('process_bind_param', 'process_result_value', 'process_literal_param')]:
            n_conv += 1
            fm = get_method(cl_, mth.name)
            rz_ = [x for x in walk_local(fm) if isinstance(x, ast.Raise)]
            ctx.check(not rz_, 'C20.R6', '%s.%s|raises-at-bind-time' % (cl_.name, mth.name), '%s:%s %s.%s' % (sqlt, mth.lineno, cl_.name, mth.name), 'the converter raises nothing of its own',
                      'the converter can raise (line %s): SQLAlchemy reports the failure as a StatementError that prints the parameters of the statement being bound, key bytes included, and KmipEngine._process_batch logs it with logger.exception' % [x.lineno for x in rz_])
    ctx.count('column_converters', n_conv, 4)
    ctx.not_decided += ['texts of third-party exceptions passed to logger.exception (checked once for SQLAlchemy: binary parameters are rendered as <memory at ...>)',
                        'log records emitted by third-party libraries themselves']
    ctx.assumptions += ['repr/str of pie managed objects and BytearrayStream print their content (so whole objects are sources)',
                        'logging level ordering DEBUG < INFO; handlers do not lower the effective level below the configured one']
