"""C14 - Locate returns exactly the permitted, matching objects, newest first."""
import ast

from ..astutil import U, dotted, walk_local, is_self_attr, call_name, short, enum_member, params, get_class
from ..cfg import CFG, calls_at, expr_nodes
from ..dataflow import ReachingDefs, node_of_expr
from ..guards import call_nodes, dominating_edges, cmp_parts, edge_successors
from ..engmodel import EngineModel, ENGINE, LISTER
from ..polmodel import enum_table
from ..source import AnalysisError
from .c15 import getter_fields

EXPLANATION = (
    "CFG / reaching-definition analysis of KmipEngine._process_locate and the attribute getter: candidates come only from the access-filtered "
    "list (shared with C03.R9); the per-object match flag starts True for each object, is only ever lowered, and gates the append; every "
    "attribute the property names as filterable reaches a comparison against a stored field (its getter arm does not return constant None); in "
    "every arm the two compared operands have the same kind (raw stored value vs KMIP wrapper object), since a wrapper never equals a raw "
    "value; results are sorted by initial_date descending after filtering and before slicing, and the slice bounds are [offset:offset+maximum] "
    "/ [offset:] / [:maximum] selected by the None tests of the two payload fields. Value semantics of each predicate are not decided.")

FILTERABLE = ['Name', 'State', 'Object Type', 'Cryptographic Algorithm', 'Cryptographic Length', 'Cryptographic Usage Mask', 'Operation Policy Name',
              'Object Group', 'Application Specific Information', 'Certificate Type', 'Unique Identifier', 'Sensitive', 'Initial Date']


def getter_kinds(m):
    """attribute name -> kind of the value _get_attribute_from_managed_object returns: raw | rawlist | dictlist | wrapperlist | none"""
    fn = m.method('_get_attribute_from_managed_object')
    ps = params(fn)
    g = CFG(fn)
    rd = ReachingDefs(g)
    out = {}
    for pn, lab in g.exit.pred:
        s = pn.stmt
        if not isinstance(s, ast.Return):
            continue
        names = []
        for t, l2 in dominating_edges(g, pn):
            p = cmp_parts(t.stmt)
            if p and p[1] == 'Eq' and l2 == 'T' and isinstance(p[0], ast.Name) and p[0].id == ps[1] and isinstance(p[2], ast.Constant):
                names.append(p[2].value)
        if len(names) != 1:
            continue
        from ..dataflow import resolve
        v = s.value
        rv_, rn_ = resolve(rd, pn, v)
        if not isinstance(rv_, (ast.Name, ast.List)) and not (isinstance(rv_, ast.Call) and call_name(rv_) in ('list',)):
            v = rv_        # a plain copy of a non-container expression; containers filled by appends are handled below under their name
        kind = 'other'
        if isinstance(v, ast.Constant) and v.value is None:
            kind = 'none'
        elif isinstance(v, ast.Attribute) and isinstance(v.value, ast.Name) and v.value.id == ps[0]:
            kind = 'raw'
        elif isinstance(v, ast.Call) and call_name(v) in ('str', 'int') and v.args:
            kind = 'raw'
        elif isinstance(v, ast.Call) and call_name(v) == 'getattr' and len(v.args) == 3 and isinstance(v.args[0], ast.Name) and v.args[0].id == ps[0] \
                and isinstance(v.args[1], ast.Constant) and isinstance(v.args[2], ast.Constant) and v.args[2].value is None:
            kind = 'raw'
        elif isinstance(v, ast.ListComp):
            kind = 'rawlist' if isinstance(v.elt, ast.Attribute) else 'other'
        elif isinstance(v, ast.Name):
            # a list built by appends in this arm
            apps = [c for n in g.nodes for c in calls_at(n) if isinstance(c.func, ast.Attribute) and c.func.attr == 'append' and isinstance(c.func.value, ast.Name)
                    and c.func.value.id == v.id and any(d[2] is not None and g.dominates(d[2], n) for d in rd.reaching(pn, v.id))]
            kinds = set()
            for c in apps:
                a = c.args[0]
                if isinstance(a, ast.Dict):
                    kinds.add('dictlist')
                elif isinstance(a, ast.Name):
                    vals = rd.values(node_of_expr(g, c), a.id)
                    if vals and all(isinstance(x, ast.Call) and (call_name(x) or '').startswith('attributes.') for x in vals):
                        kinds.add('wrapperlist')
                    else:
                        kinds.add('other')
                elif isinstance(a, ast.Call) and (call_name(a) or '').startswith('attributes.'):
                    kinds.add('wrapperlist')
                elif isinstance(a, ast.Attribute):
                    kinds.add('rawlist')       # [x.field for x in ...] written as a loop
                else:
                    kinds.add('other')
            kind = next(iter(kinds)) if len(kinds) == 1 else 'other'
        if isinstance(v, (ast.List, ast.Tuple)) and not v.elts or (isinstance(v, ast.Call) and call_name(v) == 'list' and not v.args):
            kind = 'emptylist'
        # several returns in one arm: a None among them makes the attribute "not applicable" for some objects (Locate then skips the
        # filter for those); an empty list joins the kind of the other returns
        prev = out.get(names[0])
        if prev is None or prev == kind or prev == 'emptylist':
            out[names[0]] = kind
        elif kind == 'emptylist':
            pass
        elif 'none' in (prev, kind):
            out[names[0]] = 'none'
        else:
            out[names[0]] = 'other'
    return out



def fold_page_selection(ctx, fn, sort_call, resp_call, pay):
    """The tail of Locate - from the sorted list to the response payload - folded for a list of 5 objects and every combination of
    offset / maximum in {absent, 0, 1, 2, 5, 7}: the identifiers handed to LocateResponsePayload must be those of sorted[offset:offset+max].
    Returns (ok, text), or None when the tail is not a straight top-level sequence that can be folded."""
    from ..fold import Folder, Unfoldable, Raised, Opaque
    body = fn.body
    def top(node):
        x = node
        while getattr(x, '_parent', None) is not None and x._parent is not fn:
            x = x._parent
        return x if getattr(x, '_parent', None) is fn else None
    ts, tr = top(sort_call), top(resp_call)
    if ts is None or tr is None or ts not in body or tr not in body or body.index(ts) >= body.index(tr):
        return None
    if not (isinstance(ts, ast.Assign) and len(ts.targets) == 1 and isinstance(ts.targets[0], ast.Name)):
        return None
    lst = ts.targets[0].id
    tail = body[body.index(ts) + 1: body.index(tr) + 1]
    VALS = (None, 0, 1, 2, 5, 7)
    N = 5
    bad = None
    n = 0
    try:
        for off in VALS:
            for mx in VALS:
                got = []
                f = Folder(models={'payloads.LocateResponsePayload': lambda *a, **k: got.append(k) or Opaque('response')}, steps=20000)
                env = {'self': {'__attrs__': ('_logger',), '_logger': Opaque('logger')},
                       pay: {'__attrs__': ('offset_items', 'maximum_items'), 'offset_items': off, 'maximum_items': mx},
                       lst: [{'__attrs__': ('unique_identifier',), 'unique_identifier': i} for i in range(N)]}
                try:
                    f.run(tail, env)
                except Raised as ex:
                    bad = bad or '%s raised for offset=%s maximum=%s' % (ex.name, off, mx)
                    continue
                if len(got) != 1 or 'unique_identifiers' not in got[0]:
                    return None
                lo = off or 0
                want = [str(i) for i in range(N)][lo:(lo + mx) if mx is not None else None]
                n += 1
                if list(got[0]['unique_identifiers']) != want:
                    bad = bad or 'offset=%s maximum=%s over 5 results returns positions %s, expected %s' % (off, mx, got[0]['unique_identifiers'], want)
    except Unfoldable:
        ctx.count('page_selection_unfoldable', 1)
        return None
    ctx.count('page_selections_folded', n)
    return (bad is None, bad or 'folded for %d offset/maximum combinations' % n)


def fold_filter_predicates(ctx, m, fn, IL, pattr, objv, flag, site):
    """C14.R10: the body of the per-attribute loop of Locate folded, one filter attribute at a time, over small concrete stored / requested
    values: the object is rejected (flag lowered) exactly when the stored value does not satisfy the filter.  The getter and the attribute
    policy are modelled (stored value given; supported and applicable), everything else is the code as written."""
    import itertools
    from ..fold import Folder, Unfoldable, Raised, Opaque, Enum
    from ..polmodel import enum_table
    ctx.rule('C14.R10', 'the per-attribute match test of Locate, folded for one filter attribute at a time over small concrete values (the attribute getter and the applicability tests are modelled, the rest is the code as written): Cryptographic Usage Mask - every requested subset of three flags against every stored subset: the object is kept iff ALL requested bits are set; the plain-equality attributes (State, Object Type, Cryptographic Algorithm, Cryptographic Length, Operation Policy Name, Unique Identifier, Certificate Type, Sensitive): kept iff equal; Object Group: kept iff the requested group is one of the stored groups')
    body = IL.stmt.body
    masks = enum_table(ctx.src, 'CryptographicUsageMask')
    from ..polmodel import all_enum_tables
    all_enums = all_enum_tables(ctx.src)
    FLAGS = ('SIGN', 'ENCRYPT', 'DECRYPT')
    ctx.need(all(k in masks for k in FLAGS), 'anchor vanished: CryptographicUsageMask members')
    cls = get_class(ctx.src.tree(ENGINE), 'KmipEngine')
    class_consts = {}
    n = 0
    bad = []
    unfold = []

    def run_one(name, stored, requested):
        f = Folder(steps=40000)
        f.enum_tables = {k_: list(v_) for k_, v_ in all_enums.items()}
        f.enum_values = {k_: dict(v_) for k_, v_ in all_enums.items()}
        f.module = ctx.src.tree(ENGINE)
        f.models['enums.get_enumerations_from_bit_mask'] = lambda e_, mk: [Enum('CryptographicUsageMask', k) for k, v in masks.items() if isinstance(v, int) and v and (v & mk) == v]
        f.models['self._get_attribute_from_managed_object'] = lambda *a, **k: stored
        f.models['self._attribute_policy.is_attribute_supported'] = lambda *a: True
        f.models['self._attribute_policy.is_attribute_applicable_to_object_type'] = lambda *a: True
        f.models['policy.is_attribute_supported'] = lambda *a: True
        f.models['policy.is_attribute_applicable_to_object_type'] = lambda *a: True
        selfv = {'__attrs__': ('_logger', '_attribute_policy'), '_logger': Opaque('logger'), '_attribute_policy': Opaque('attribute policy')}
        for st_ in cls.body:
            if isinstance(st_, ast.Assign) and len(st_.targets) == 1 and isinstance(st_.targets[0], ast.Name):
                try:
                    selfv[st_.targets[0].id] = f.ev(st_.value, {})
                    selfv['__attrs__'] += (st_.targets[0].id,)
                except (Unfoldable, Raised):
                    pass
        env = {'self': selfv, flag: True,
               objv: {'__attrs__': ('object_type', 'unique_identifier'), 'object_type': Opaque('object type'), 'unique_identifier': 1},
               pattr: {'__attrs__': ('attribute_name', 'attribute_value'), 'attribute_name': {'__attrs__': ('value',), 'value': name},
                       'attribute_value': {'__attrs__': ('value',), 'value': requested}}}
        r = f.run(body, env)
        return env[flag]
    eq_values = {'State': ('A', 'B'), 'Object Type': ('A', 'B'), 'Cryptographic Algorithm': ('A', 'B'), 'Cryptographic Length': (128, 256), 'Operation Policy Name': ('p', 'q'),
                 'Unique Identifier': ('1', '2'), 'Certificate Type': ('A', 'B'), 'Sensitive': (True, False)}
    cases = []
    subsets = [c for k in range(0, 4) for c in itertools.combinations(FLAGS, k)]
    for req in subsets[1:]:
        for sto in subsets:
            cases.append(('Cryptographic Usage Mask', [Enum('CryptographicUsageMask', k) for k in sto], sum(masks[k] for k in req), set(req) <= set(sto), 'requested %s, stored %s' % ('|'.join(req), '|'.join(sto) or 'none')))
    for nm, (a, b) in eq_values.items():
        cases.append((nm, a, a, True, 'requested = stored'))
        cases.append((nm, a, b, False, 'requested differs from stored'))
    cases.append(('Object Group', ['g1', 'g2'], 'g2', True, 'requested group is the second stored group'))
    cases.append(('Object Group', ['g1', 'g2'], 'g3', False, 'requested group is not stored'))
    cases.append(('Object Group', [], 'g1', False, 'object in no group'))
    for nm, sto, req, want, what in cases:
        try:
            kept = run_one(nm, sto, req)
        except Unfoldable as ex:
            unfold.append((nm, str(ex)))
            continue
        except Raised as ex:
            bad.append('%s (%s): raises %s' % (nm, what, ex.name))
            continue
        n += 1
        if bool(kept) != want:
            bad.append('%s (%s): the object is %s, expected %s' % (nm, what, 'kept' if kept else 'rejected', 'kept' if want else 'rejected'))
    ctx.count('filter_predicate_cases_folded', n)
    mask_unfold = [u for u in unfold if u[0] == 'Cryptographic Usage Mask']
    ctx.need(not mask_unfold, 'unrecognised construct: the usage-mask arm of Locate cannot be folded (%s)' % (mask_unfold[:1],))
    if unfold:
        ctx.note('C14.R10: not folded (decided by the shape rules R3/R5 only): %s' % sorted(set(u[0] for u in unfold)))
    ctx.check(not bad, 'C14.R10', 'KmipEngine._process_locate|filter predicate', site, '%d stored/requested combinations: rejected exactly when the filter is not satisfied' % n,
              'the per-attribute match test of Locate keeps or rejects the wrong objects: %s' % '; '.join(bad[:4]))

def fold_date_range(ctx, m):
    """C14.R11: the date filter of Locate is an inclusive range."""
    from ..fold import Folder, Opaque, Unfoldable, Raised
    ctx.rule('C14.R11', 'the Initial Date filter of Locate: KmipEngine._is_valid_date folded over every (object date, first filter date, second filter date) with values 0..4 and absent filter dates: with no date the object is kept, with one date it is kept iff its date equals it, with two dates iff first <= date <= second - both ends INCLUDED (the lifetime of an object created in the very second a range ends belongs to that range; adjacent ranges cover everything)')
    fn = m.methods.get('_is_valid_date')
    ctx.need(fn is not None, 'anchor vanished: KmipEngine._is_valid_date')
    site = m.site(fn, fn)
    bad, n = [], 0
    try:
        for value in range(5):
            for start in (None, 0, 1, 2, 3, 4):
                for end in (None, 0, 1, 2, 3, 4):
                    if start is None and end is not None:
                        continue
                    if start is not None and end is not None and end < start:
                        continue
                    fo = Folder(models={'time.asctime': lambda *a: 'date', 'time.gmtime': lambda *a: 0, 'time.strftime': lambda *a: 'date', 'str': str}, methods=m.methods, steps=20000)
                    selfv = {'__attrs__': ('_logger',), '_logger': Opaque('logger'), '__props__': {}, '__methods__': dict(m.methods), '__class__': 'KmipEngine'}
                    dt = {'__attrs__': ('value', 'name'), 'value': 'Initial Date', 'name': 'INITIAL_DATE'}
                    got = fo.call_method(fn, selfv, [dt, value, start, end], {})
                    n += 1
                    want = True if start is None else ((value == start) if end is None else (start <= value <= end))
                    if bool(got) != want or got not in (True, False):
                        bad.append('object date %s, filter dates (%s, %s): %s, should be %s' % (value, start, end, got, want))
    except (Unfoldable, Raised) as ex:
        raise AnalysisError('unrecognised construct: KmipEngine._is_valid_date cannot be folded (%s)' % ex)
    ctx.check(not bad, 'C14.R11', 'KmipEngine._is_valid_date|inclusive range', site, '%d (date, first, second) combinations: kept exactly inside the inclusive range' % n,
              'the date filter is not the inclusive range the request names: %s' % '; '.join(bad[:4]))
    ctx.analysed['date_filter_combinations_folded'] = n


def run(ctx):
    src = ctx.src
    m = EngineModel(src)
    for rid, text in (
        ('C14.R1', 'the objects inspected by Locate are exactly the elements of _list_objects_with_access_controls(Operation.LOCATE) (see also C03.R9)'),
        ('C14.R2', 'the per-object match flag is initialised True for every object, every other store lowers it (= False or &=), and the object is appended only under the flag'),
        ('C14.R3', 'every filterable attribute reaches a comparison against a stored field: its getter arm does not return constant None and it is decided by a dedicated arm or the generic arm'),
        ('C14.R4', 'the filtered list is sorted by initial_date descending before slicing; slices are [offset:offset+maximum], [offset:], [:maximum] chosen by the None tests of offset_items / maximum_items'),
        ('C14.R5', 'in every arm the request-side operand and the stored-side operand of the deciding comparison have the same kind (raw value vs KMIP wrapper object)'),
    ):
        ctx.rule(rid, text)
    # the access-filtered list itself: each object is included only on the allowed edge of the decision taken for that object
    ctx.rule('C14.R6', 'the lister includes an object only on the allowed edge of the policy decision evaluated for that very object (policy name, requester identity, owner, type, LOCATE) in the same iteration')
    from .c03 import check_decision_points
    from ..engmodel import LISTER
    check_decision_points(ctx, m, 'C14.R6', (LISTER,))
    # the date-range helpers: a bound is "not given" only when it is None (0 is a legitimate date, the epoch)
    ctx.rule('C14.R7', 'in the Initial Date range helpers a recorded bound is tested for presence with `is None` / `is not None` only: a truthiness test would treat the date 0 (the epoch) as a missing bound and turn a range into an exact match')
    n_b = 0
    for hname, bound_params in (('_is_valid_date', (2, 3)), ('_track_date_attributes', ())):
        hf = m.method(hname)
        hps = params(hf)
        hg = CFG(hf)
        bounds = set(hps[i] for i in bound_params)
        store = hps[1] if hname == '_track_date_attributes' else None
        def is_bound(e):
            if isinstance(e, ast.Name) and e.id in bounds:
                return True
            if store and isinstance(e, ast.Call) and isinstance(e.func, ast.Attribute) and e.func.attr == 'get' and isinstance(e.func.value, ast.Name) and e.func.value.id == store:
                return True
            if store and isinstance(e, ast.Subscript) and isinstance(e.value, ast.Name) and e.value.id == store:
                return True
            return False
        if store:
            for a_ in walk_local(hf):
                if isinstance(a_, ast.Assign) and isinstance(a_.targets[0], ast.Name) and is_bound(a_.value):
                    bounds.add(a_.targets[0].id)
        for tn in [x for x in hg.nodes if x.kind == 'test']:
            tt = tn.stmt
            if is_bound(tt):
                n_b += 1
                ctx.fail('C14.R7', 'KmipEngine.%s|truthiness test of %s' % (hname, U(tt)), m.site(tt, hf),
                         'the presence of the date bound %s is decided by its truthiness: the bound 0 (1970-01-01T00:00:00Z) counts as not given' % U(tt))
            else:
                pp = cmp_parts(tt)
                if pp and is_bound(pp[0]) and isinstance(pp[2], ast.Constant) and pp[2].value is None:
                    n_b += 1
                    ctx.ok('C14.R7', m.site(tt, hf), 'bound %s tested with %s None' % (U(pp[0]), pp[1]))
    ctx.count('date_bound_presence_tests', n_b, 4)
    # an attribute that a stored class carries is declared applicable to that object type (Locate drops the object from any filter on a non-applicable attribute)
    ctx.rule('C14.R9', 'for every attribute backed by a pie field and every stored object type whose class has that field, the attribute rule table lists the type under applies_to_object_types: _process_locate skips objects for which the filtered attribute is "not applicable", so a missing entry silently removes those objects from every such filter (and the attribute from GetAttributes)')
    from ..polmodel import PolicyModel
    from ..piemodel import PieModel
    pol9 = PolicyModel(src)
    pm9 = PieModel(src)
    gf9 = getter_fields(m)
    types9 = {}
    for c9 in pm9.classes:
        try:
            t9 = pm9.object_type_of(c9)
        except Exception:
            t9 = None
        if t9:
            types9[t9] = c9
    ctx.count('stored_object_types', len(types9), 7)
    n9 = 0
    for name9, flds9 in sorted(gf9.items()):
        if not flds9 or name9 not in pol9.rules:
            continue
        app9 = pol9.rules[name9].get('applies_to_object_types')
        if not isinstance(app9, (set, frozenset, tuple, list)):
            continue
        for t9, c9 in sorted(types9.items()):
            if all(pm9.has(c9, f9) for f9 in flds9):
                n9 += 1
                ctx.check(t9 in app9, 'C14.R9', 'AttributePolicy|%s|applies to %s' % (name9, t9), 'kmip/services/server/policy.py AttributePolicy rule %r' % name9,
                          '%s carries %s and the rule lists it' % (c9, flds9), '%s objects carry the field(s) %s behind attribute %r, but the rule table does not list %s as applicable: every Locate filter on %r drops such objects' % (c9, flds9, name9, t9, name9))
    ctx.count('applicability_obligations', n9, 40)
    fn = m.method('_process_locate')
    g = CFG(fn)
    rd = ReachingDefs(g)
    site0 = m.site(fn, fn)
    pay = params(fn)[0]
    # ---------------- structure: outer loop over candidates, inner loop over payload attributes
    loops = [n for n in g.nodes if n.kind == 'loop' and isinstance(n.stmt, ast.For)]
    outer = [l for l in loops if not l.loops and isinstance(l.stmt.iter, ast.Name)]
    ctx.need(len(outer) >= 1, 'unrecognised construct: Locate has no loop over the candidate objects')
    OL = outer[0]
    cand = OL.stmt.iter.id
    objv = OL.stmt.target.id if isinstance(OL.stmt.target, ast.Name) else None
    vals = rd.values(OL, cand)
    okc = len(vals) == 1 and isinstance(vals[0], ast.Call) and is_self_attr(vals[0].func, LISTER) and vals[0].args and enum_member(vals[0].args[0]) == ('Operation', 'LOCATE')
    ctx.check(okc and objv is not None, 'C14.R1', 'KmipEngine._process_locate|candidates', m.site(OL.stmt, fn), 'candidates = access-filtered list for Operation.LOCATE',
              'the filter loop does not iterate the access-filtered candidate list')
    # every candidate is examined: nothing leaves the object loop early (the newest matches are at the end of the store order; sort and slice come after)
    ctx.rule('C14.R8', 'the loop over the candidate objects examines every candidate: no break or return leaves it (break inside the per-attribute loop only ends the examination of one object), so the list handed to the newest-first sort and the offset/maximum slice holds every match')
    leavers = [n for n in g.nodes if n.kind == 'stmt' and OL.stmt in n.loops and (
        (isinstance(n.stmt, ast.Break) and n.loops and n.loops[-1] is OL.stmt) or isinstance(n.stmt, ast.Return))]
    ctx.check(not leavers, 'C14.R8', 'KmipEngine._process_locate|object-loop-runs-to-the-end', m.site(OL.stmt, fn), 'no break/return leaves the object loop',
              'the object loop can be left early (line %s): matches further on in the store order - the newest ones - are never collected, so the sorted, sliced result is not a slice of the full result' % sorted(n.line for n in leavers))
    inner = [l for l in loops if OL.stmt in l.loops and U(l.stmt.iter) == '%s.attributes' % pay]
    ctx.need(len(inner) == 1, 'unrecognised construct: Locate has no single loop over payload.attributes inside the object loop')
    IL = inner[0]
    pattr = IL.stmt.target.id
    # ---------------- R2 flag
    appends = [(n, c) for n in g.nodes for c in calls_at(n) if isinstance(c.func, ast.Attribute) and c.func.attr == 'append' and c.args and isinstance(c.args[0], ast.Name)
               and c.args[0].id == objv and OL.stmt in n.loops]
    ctx.need(len(appends) == 1, 'unrecognised construct: expected one append of the candidate object inside the object loop')
    an, ac = appends[0]
    flag = None
    for t, lab in dominating_edges(g, an):
        if isinstance(t.stmt, ast.Name) and lab == 'T' and OL.stmt in t.loops:
            flag = t.stmt.id
    ctx.check(flag is not None, 'C14.R2', 'KmipEngine._process_locate|append-under-flag', m.site(ac, fn), 'object appended only under `if %s`' % flag, 'a candidate can be appended without the match flag being tested')
    if flag:
        stores = [n for n in g.nodes if any(v == flag for v, d in rd.node_defs[n.id])]
        init = [n for n in stores if isinstance(n.stmt, ast.Assign) and isinstance(n.stmt.value, ast.Constant) and n.stmt.value.value is True]
        bad = []
        for n in stores:
            if n in init:
                continue
            s = n.stmt
            if isinstance(s, ast.Assign) and isinstance(s.value, ast.Constant) and s.value.value is False:
                continue
            if isinstance(s, ast.AugAssign) and isinstance(s.op, ast.BitAnd):
                continue
            bad.append(n.line)
        ok_init = len(init) == 1 and init[0].loops and init[0].loops[-1] is OL.stmt and g.dominates(init[0], IL) and g.dominates(init[0], an)
        ctx.check(ok_init and not bad, 'C14.R2', 'KmipEngine._process_locate|flag-monotone', m.site(init[0].stmt if init else fn, fn),
                  '%s = True once per object, before the attribute loop; all other stores lower it' % flag,
                  'the match flag is re-raised or not initialised per object (initialisations %s, other stores at %s)' % ([n.line for n in init], bad))
    # ---------------- arms of the inner loop
    namev = None
    valv = None
    for n in g.nodes:
        if IL.stmt in n.loops and n.kind == 'stmt' and isinstance(n.stmt, ast.Assign) and isinstance(n.stmt.targets[0], ast.Name):
            if U(n.stmt.value) == '%s.attribute_name.value' % pattr:
                namev = n.stmt.targets[0].id
            if U(n.stmt.value) == '%s.attribute_value' % pattr:
                valv = n.stmt.targets[0].id
    ctx.need(namev and valv, 'unrecognised construct: Locate does not bind the filter attribute name/value to locals')
    attrcalls = [(n, c) for n, c in call_nodes(g, 'self._get_attribute_from_managed_object') if IL.stmt in n.loops]
    ctx.need(len(attrcalls) == 1, 'unrecognised construct: expected one getter call in the filter loop')
    gn, gc = attrcalls[0]
    ctx.need(isinstance(gc._parent, ast.Assign) and len(gc.args) == 2 and isinstance(gc.args[0], ast.Name) and gc.args[0].id == objv and isinstance(gc.args[1], ast.Name) and gc.args[1].id == namev,
             'unrecognised construct: getter call arguments %s' % U(gc))
    stored = gc._parent.targets[0].id
    if flag:
        fold_filter_predicates(ctx, m, fn, IL, pattr, objv, flag, site0)
    fold_date_range(ctx, m)
    at = enum_table(src, 'AttributeType')
    kinds = getter_kinds(m)
    gf = getter_fields(m)
    ctx.count('getter_arms', len(kinds), 10)
    # comparisons involving the stored value, with the names established on the path
    arms = {}      # name or '<generic>' -> list of (node, compare expr, other operand kind)
    from ..guards import is_none_test
    tests = [n for n in g.nodes if n.kind == 'test' and IL.stmt in n.loops and any(isinstance(x, ast.Name) and x.id == stored for x in ast.walk(n.stmt)) and isinstance(n.stmt, ast.Compare)
             and not is_none_test(n.stmt)]
    named_arms = set()
    for t in g.nodes:
        if t.kind == 'test' and IL.stmt in t.loops:
            p = cmp_parts(t.stmt)
            if p and p[1] == 'Eq' and isinstance(p[0], ast.Name) and p[0].id == namev:
                c = p[2]
                nm = c.value if isinstance(c, ast.Constant) else (at.get(enum_member(c.value, 'AttributeType')[1]) if isinstance(c, ast.Attribute) and c.attr == 'value' and enum_member(c.value, 'AttributeType') else None)
                if nm is None:
                    raise AnalysisError('unrecognised construct: filter arm test %s' % U(t.stmt))
                named_arms.add(nm)

    def operand_kind(expr, node, depth=0):
        """wrapper: the decoded attribute value object of the request; raw: its .value; dict / raw-element: built / iterated locally.  Copies of the
        request value held in other locals (a helper parameter that was renamed when the helper was expanded) are followed through their definitions."""
        if depth > 8:
            return 'other'
        if isinstance(expr, ast.Attribute) and U(expr) == '%s.attribute_value' % pattr:
            return 'wrapper'
        if isinstance(expr, ast.Attribute) and expr.attr == 'value' and isinstance(expr.value, ast.Name):
            return 'raw' if operand_kind(expr.value, node, depth + 1) == 'wrapper' else 'other'
        if isinstance(expr, ast.Dict):
            return 'dict'
        if isinstance(expr, ast.Name):
            ks = set()
            for var, d, dn in rd.reaching(node, expr.id):
                if isinstance(d, tuple) and d[0] == 'iter':
                    ks.add('raw-element')
                elif isinstance(d, ast.AST) and dn is not None:
                    ks.add(operand_kind(d, dn, depth + 1))
                else:
                    ks.add('other')
            return next(iter(ks)) if len(ks) == 1 else ('mixed' if ks else 'other')
        return 'other'
    n_cmp = 0
    for t in tests:
        p = cmp_parts(t.stmt)
        if not p:
            continue
        n_cmp += 1
        left_is_stored = isinstance(p[0], ast.Name) and p[0].id == stored
        other = p[2] if left_is_stored else p[0]
        ok_ = operand_kind(other, t)
        # names on this path
        eqs = []
        neqs = []
        for tt, lab in dominating_edges(g, t):
            q = cmp_parts(tt.stmt)
            if q and q[1] == 'Eq' and isinstance(q[0], ast.Name) and q[0].id == namev:
                c = q[2]
                nm = c.value if isinstance(c, ast.Constant) else at.get(enum_member(c.value, 'AttributeType')[1])
                (eqs if lab == 'T' else neqs).append(nm)
        if len(eqs) == 1:
            names = [eqs[0]]
        else:
            names = sorted(n for n, k in kinds.items() if k != 'none' and n not in neqs)   # generic arm
        site = m.site(t.stmt, fn)
        op = p[1]
        for nm in names:
            sk = kinds.get(nm, 'other')
            if sk == 'none':
                continue          # reported by C14.R3
            if op in ('In', 'NotIn'):
                good = (sk, ok_) in (('wrapperlist', 'wrapper'), ('rawlist', 'raw'), ('dictlist', 'dict'), ('raw', 'raw-element'), ('rawlist', 'raw-element'))
                # `mask_value not in attribute`: element of a decoded raw mask list against the raw stored list
                if sk == 'raw' and ok_ == 'raw-element':
                    good = True
            else:
                good = (sk, ok_) in (('raw', 'raw'),)
            ctx.check(good, 'C14.R5', 'KmipEngine._process_locate|compare %s|%s' % (nm, 'generic-arm' if len(eqs) != 1 else 'arm'), site,
                      '%s: stored kind %s compared with request kind %s' % (nm, sk, ok_),
                      'filter on %s compares a %s request operand (%s) with the %s stored value: a KMIP wrapper object never equals a raw value, so the filter can never match (or never reject)'
                      % (nm, ok_, U(other), sk))
    ctx.count('filter_comparisons', n_cmp, 5)
    # ---------------- R3 exhaustiveness
    for nm in FILTERABLE:
        k = kinds.get(nm)
        site = site0
        ctx.check(k is not None and k != 'none' and bool(gf.get(nm)), 'C14.R3', 'KmipEngine._process_locate|filterable %s' % nm, site,
                  '%s is read from stored field(s) %s' % (nm, gf.get(nm)),
                  'the getter returns no stored value for %s, so a Locate filter on it is silently ignored (every object matches)' % nm)
    # `attribute is None -> continue` must not swallow filterable attributes: (covered by kinds != none); the generic arm exists
    generic = [t for t in tests if not any(cmp_parts(tt.stmt) and cmp_parts(tt.stmt)[1] == 'Eq' and isinstance(cmp_parts(tt.stmt)[0], ast.Name) and cmp_parts(tt.stmt)[0].id == namev and lab == 'T'
                                           for tt, lab in dominating_edges(g, t))]
    uncovered = sorted(n for n in FILTERABLE if n not in named_arms)
    ctx.check(bool(generic) or not uncovered, 'C14.R3', 'KmipEngine._process_locate|generic-arm', site0, 'attributes without a dedicated arm (%s) are decided by the generic arm' % uncovered,
              'filterable attributes %s have neither a dedicated nor a generic comparison arm' % uncovered)
    # each failing comparison lowers the flag and leaves the attribute loop
    # ---------------- R4 sort then slice
    sorts = [(n, c) for n in g.nodes for c in calls_at(n) if call_name(c) == 'sorted' or (isinstance(c.func, ast.Attribute) and c.func.attr == 'sort')]
    ctx.check(len(sorts) == 1, 'C14.R4', 'KmipEngine._process_locate|single-sort', site0, 'one sort', 'expected exactly one sort of the result list, found %d' % len(sorts))
    resp = [(n, c) for n in g.nodes for c in calls_at(n) if (call_name(c) or '').endswith('LocateResponsePayload')]
    ctx.need(len(resp) == 1, 'unrecognised construct: LocateResponsePayload construction')
    if len(sorts) == 1:
        sn, sc = sorts[0]
        ssite = m.site(sc, fn)
        keyf = [k.value for k in sc.keywords if k.arg == 'key']
        rev = [k.value for k in sc.keywords if k.arg == 'reverse']
        okk = len(keyf) == 1 and isinstance(keyf[0], ast.Lambda) and isinstance(keyf[0].body, ast.Attribute) and keyf[0].body.attr == 'initial_date' \
            and isinstance(keyf[0].body.value, ast.Name) and keyf[0].body.value.id == keyf[0].args.args[0].arg
        neg = len(keyf) == 1 and isinstance(keyf[0], ast.Lambda) and isinstance(keyf[0].body, ast.UnaryOp) and isinstance(keyf[0].body.op, ast.USub) \
            and isinstance(keyf[0].body.operand, ast.Attribute) and keyf[0].body.operand.attr == 'initial_date'
        desc = (okk and len(rev) == 1 and isinstance(rev[0], ast.Constant) and rev[0].value is True) or (neg and not rev)
        ctx.check(desc, 'C14.R4', 'KmipEngine._process_locate|newest-first', ssite, 'sorted on initial_date, descending', 'results are not sorted by initial_date descending: %s' % short(sc, 120))
        folded = fold_page_selection(ctx, fn, sc, resp[0][1], pay)
        if folded is not None:
            okp, why = folded
            ctx.check(g.dominates(sn, resp[0][0]) and not any(IL.stmt in x.loops or OL.stmt in x.loops for x in [sn]) and sn.id in g.reachable(OL), 'C14.R4',
                      'KmipEngine._process_locate|sort-after-filter-before-slice', ssite, 'filter, then sort, then slice', 'the sort does not happen after filtering and before the page selection')
            ctx.check(okp, 'C14.R4', 'KmipEngine._process_locate|page-selection', ssite,
                      'the identifiers returned are those of sorted[offset:offset+maximum] (a missing offset is 0, a missing maximum is unbounded): %s' % why,
                      'the page returned is not sorted[offset:offset+maximum]: %s' % why)
        else:
            slices = [n for n in g.nodes if n.kind == 'stmt' and isinstance(n.stmt, ast.Assign) and isinstance(n.stmt.value, ast.Subscript) and isinstance(n.stmt.value.slice, ast.Slice)]
            ctx.count('slice_sites', len(slices), 3)
            ok_order = g.dominates(sn, resp[0][0]) and all(g.dominates(sn, x) for x in slices) and not any(IL.stmt in x.loops or OL.stmt in x.loops for x in slices + [sn]) \
                and OL.id in g.reachable() and sn.id in g.reachable(OL) if True else False
            ctx.check(ok_order, 'C14.R4', 'KmipEngine._process_locate|sort-after-filter-before-slice', ssite, 'filter, then sort, then slice',
                      'the sort does not happen after filtering and before every slice')
            off, mx = '%s.offset_items' % pay, '%s.maximum_items' % pay
            for x in slices:
                sl = x.stmt.value.slice
                lo, hi = (U(sl.lower) if sl.lower is not None else None), (U(sl.upper) if sl.upper is not None else None)
                conds = {}
                for tt, lab in dominating_edges(g, x):
                    from ..guards import is_none_test
                    nt = is_none_test(tt.stmt)
                    if nt and U(nt[1]) in (off, mx):
                        present = (lab == 'T') == (nt[0] == 'isnot')
                        conds[U(nt[1])] = present
                want = None
                if conds.get(off) and conds.get(mx):
                    want = (off, hi and ' '.join(hi.split()) in ('%s + %s' % (off, mx), '%s + %s' % (mx, off)))
                    good = lo == off and bool(want[1])
                elif conds.get(off) and conds.get(mx) is False:
                    good = lo == off and hi is None
                elif conds.get(off) is False and conds.get(mx):
                    good = lo in (None, '0') and hi == mx
                else:
                    good = False
                ctx.check(good and sl.step is None, 'C14.R4', 'KmipEngine._process_locate|slice %s' % sorted(conds.items()), m.site(x.stmt, fn),
                          'slice [%s:%s] under %s' % (lo, hi, conds), 'slice [%s:%s] does not select the requested page under %s' % (lo, hi, conds))
        # the sliced list is the one returned
    ctx.not_decided += ['value semantics of each predicate (mask subset, date ranges), order among equal timestamps']
    ctx.assumptions += ["primitives' __eq__ returns NotImplemented for foreign types, so wrapper == raw is always False"]
