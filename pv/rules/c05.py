"""C05 - stored objects come back exactly as stored (structural part: field coverage agreement)."""
import ast

from ..astutil import (U, dotted, get_class, get_method, methods, walk_local, is_self_attr, call_name, short, enum_member, params, bind_args)
from ..cfg import CFG, calls_at
from ..dataflow import ReachingDefs, node_of_expr
from ..guards import call_nodes, dominating_edges, cmp_parts, is_none_test
from ..engmodel import EngineModel, ENGINE, PIEOBJ
from ..index import Index
from ..piemodel import PieModel
from ..polmodel import enum_table
from ..source import AnalysisError
from .c15 import getter_fields

SECFAC = 'kmip/core/factories/secrets.py'
PIEFAC = 'kmip/pie/factory.py'
SQLT = 'kmip/pie/sqltypes.py'
ATTRS = 'kmip/core/attributes.py'
COBJ = 'kmip/core/objects.py'

EXPLANATION = (
    "PARTIAL (structural) check of the store/return chain - byte fidelity through SQLite, SQLAlchemy and TTLV for arbitrary values and restarts "
    "is a run-time matter and is not decided. Decided: (R1) for each of the seven stored types the dictionary keys produced by "
    "KmipEngine._build_core_object equal the keys SecretFactory consumes, each key carries the pie field of that name; (R2) the pie<->core "
    "converters pass every persisted field to the parameter of the same role, and the 13 cryptographic-parameter keys and 6 key-wrapping-data "
    "keys agree five ways (pie getter, pie setter - which are inverse column maps -, ObjectFactory builders, core constructors); (R3) the enum "
    "column decorator uses one sentinel on both sides that no stored enumeration uses and no stored enumeration has a falsy member; the mask "
    "decorator ORs and re-enumerates the same enum; (R4) the attribute getter / index / setter / deleter helpers touch the same pie field per "
    "attribute name; (R5) Get returns the core form of the access-checked object (or of its wrapped copy) with its own type.")

# dictionary key / constructor parameter -> name of the field that carries that datum on the other side (role aliases)
ROLE = {'key_value': 'value', 'certificate_value': 'value', 'opaque_data_value': 'value', 'secret_data_type': 'data_type', 'opaque_data_type': 'opaque_type',
        'algorithm': 'cryptographic_algorithm', 'length': 'cryptographic_length', 'format_type': 'key_format_type', 'masks': 'cryptographic_usage_masks',
        'value': 'value', 'data_type': 'secret_data_type', 'opaque_type': 'opaque_data_type'}


def dict_items(d):
    return [(k.value, v) for k, v in zip(d.keys, d.values) if isinstance(k, ast.Constant)]


def fold_wrapping_data_maps(ctx, keycls, getter, setter):
    """(getter map path -> column, setter map column -> path) of Key.key_wrapping_data, by folding (pv/fold.py): the getter is run on a
    model object whose every _kdw_* column holds a distinct token and the nested dictionary it returns is read off; the setter is run
    on a nested dictionary of distinct tokens and the columns that received them are read off.  Helpers of the class (expanded in place),
    loops over field tables (unrolled) and computed attribute names built from constants (folded) are all the same to this reading.
    None when the property uses something the folder does not model."""
    from ..fold import Folder, Unfoldable, Raised
    from ..inline import flat
    cols = []
    for cls_ in [keycls]:
        for st_ in cls_.body:
            if isinstance(st_, ast.Assign) and isinstance(st_.targets[0], ast.Name) and st_.targets[0].id.startswith('_kdw_'):
                cols.append(st_.targets[0].id)
    if len(cols) < 10:
        return None
    g, st = flat(keycls, getter), flat(keycls, setter)
    try:
        selfv = {c: 'col:' + c for c in cols}
        # class-level constant tables of the class (field-name tables that drive the flattening) are attributes of the instance too
        consts = {}
        for st_ in keycls.body:
            if isinstance(st_, ast.Assign) and len(st_.targets) == 1 and isinstance(st_.targets[0], ast.Name) and st_.targets[0].id not in cols \
                    and isinstance(st_.value, (ast.Tuple, ast.List, ast.Constant, ast.Dict, ast.Set)):
                try:
                    consts[st_.targets[0].id] = Folder(steps=5000).ev(st_.value, {})
                except (Unfoldable, Raised):
                    pass
        selfv.update(consts)
        selfv['__attrs__'] = tuple(cols) + tuple(consts)
        f = Folder(steps=50000)
        got = f.call_method(g, selfv, [], {})
        gmap = {}

        def walk(d, path):
            for k, v in d.items():
                if isinstance(v, dict):
                    walk(v, path + (k,))
                elif isinstance(v, str) and v.startswith('col:'):
                    gmap[path + (k,)] = v[4:]
                else:
                    raise Unfoldable('getter yields %r at %s' % (v, path + (k,)))
        if not isinstance(got, dict):
            return None
        walk(got, ())
        # the setter on a document shaped like what the getter returned, every leaf a distinct token
        def tokens(d, path):
            return {k: (tokens(v, path + (k,)) if isinstance(v, dict) else 'tok:' + '/'.join(path + (k,))) for k, v in d.items()}
        doc = tokens(got, ())
        selfs = {c: None for c in cols}
        selfs.update(consts)
        selfs['__attrs__'] = tuple(cols) + tuple(consts)
        f2 = Folder(steps=50000)
        f2.call_method(st, selfs, [doc], {})
        smap = {}
        for c in cols:
            v = selfs.get(c)
            if isinstance(v, str) and v.startswith('tok:'):
                smap[c] = tuple(v[4:].split('/'))
        return gmap, smap
    except (Unfoldable, Raised) as ex:
        ctx.note('C05.R2: Key.key_wrapping_data is not foldable (%s); reading its spelling instead' % ex)
        return None



def check_client_arguments_not_dropped(ctx):
    """C05.R12: the client library never drops a supplied argument on a configuration-dependent path."""
    from ..pathsim import Sim
    PIE = 'kmip/pie/client.py'
    ctx.rule('C05.R12', 'in ProxyKmipClient no method drops a supplied argument depending on the client configuration alone: on every path from the entry of a '
                        'method to a normal return on which a parameter may hold a value (it was not tested empty/None on that path) the parameter is read - passed on, '
                        'stored or converted - unless the return is guarded only by tests on the data itself (nothing to build); a return that is reached because of a test '
                        'on self.<configuration> (the KMIP version ...) with the argument still unread sends the request without it, and the object is stored without '
                        'what the caller supplied')
    t = ctx.src.tree(PIE)
    cls = get_class(t, 'ProxyKmipClient')
    n_inst = 0
    from ..inline import flat_methods
    for name, fn in sorted(flat_methods(cls)[0].items()):
        if name.startswith('__'):
            continue
        ps = params(fn)
        if not ps:
            continue
        g = CFG(fn)
        data_names = set(ps) | {x.id for x in walk_local(fn) if isinstance(x, ast.Name) and isinstance(x.ctx, (ast.Store, ast.Del))}
        exits = [pn for pn, lab in g.exit.pred if not (pn.kind == 'stmt' and isinstance(pn.stmt, ast.Raise)) and lab not in ('exc', 'raise')]
        for P in ps:
            n_inst += 1

            def reads(node, P=P):
                s_ = node.stmt
                if s_ is None:
                    return False
                if node.kind == 'loop':
                    scope = [s_]                       # the iterable and the whole body: a loop over no element reads nothing, and that is fine
                elif node.kind in ('stmt', 'with'):
                    scope = [s_]
                else:
                    return False
                return any(isinstance(x, ast.Name) and x.id == P and isinstance(x.ctx, ast.Load) for sc in scope for x in ast.walk(sc))

            def hook(sim, node, env, reads=reads):
                if reads(node):
                    env['#used'] = ('c', True)
            sim = Sim(g, hook=hook)
            flagged = {}
            for stop, lab, env in sim.run([g.entry], exits):
                if env.get('#used') == ('c', True) or reads(stop):
                    continue
                if env.get('?' + P) in (('falsy',), ('none',)):
                    continue
                flagged[stop.id] = stop
            for stop in flagged.values():
                doms = dominating_edges(g, stop)
                tests = [tt.stmt for tt, lab in doms]
                mentions = lambda e, names: any(isinstance(x, ast.Name) and x.id in names for x in ast.walk(e))
                if any(mentions(e, {P}) for e in tests):
                    continue
                config_only = [e for e in tests if not mentions(e, data_names) and any(is_self_attr(x) for x in ast.walk(e))]
                if config_only:
                    e = config_only[-1]
                    ctx.fail('C05.R12', 'ProxyKmipClient.%s|%s dropped under %s' % (name, P, U(e)[:60]), '%s:%s ProxyKmipClient.%s' % (PIE, getattr(stop.stmt, 'lineno', fn.lineno), name),
                             'the method returns with the argument %s unread when %s: a value the caller supplied is silently left out of the request' % (P, U(e)[:80]))
    ctx.count('client_method_parameters', n_inst, 55)
    ctx.ok('C05.R12', PIE, '%d (method, parameter) pairs of ProxyKmipClient: no configuration-dependent return leaves a supplied argument unread' % n_inst)


def check_big_integer_columns(ctx, rule='C05.R13', tail=''):
    """A field that travels as a KMIP Big Integer (arbitrary precision) is not stored in a fixed-width integer column."""
    ctx.rule(rule, 'a value that the wire structures carry as primitives.BigInteger (arbitrary precision - e.g. the Prime Field Size of a Split Key) is not stored in a fixed-width integer column (sqlalchemy.Integer / BigInteger / SmallInteger) of the pie object of the same field name: SQLite refuses an integer beyond 64 bits at flush time (OverflowError), so a well-formed Register of such a value is answered with General Failure and the object cannot be stored' + tail)
    big = {}
    for rel in ctx.src.modules('kmip/core'):
        t = ctx.src.tree(rel)
        for n in ast.walk(t):
            if isinstance(n, ast.Assign) and len(n.targets) == 1 and is_self_attr(n.targets[0]) and isinstance(n.value, ast.Call) and (call_name(n.value) or '').split('.')[-1] == 'BigInteger':
                big.setdefault(n.targets[0].attr.lstrip('_'), (rel, n.lineno))
    ctx.count('wire_big_integer_fields', len(big), 1)
    pt = ctx.src.tree(PIEOBJ)
    n_cols = 0
    for cls in [x for x in ast.walk(pt) if isinstance(x, ast.ClassDef)]:
        for a in cls.body:
            if not (isinstance(a, ast.Assign) and len(a.targets) == 1 and isinstance(a.targets[0], ast.Name) and isinstance(a.value, ast.Call) and (call_name(a.value) or '').split('.')[-1] == 'Column'):
                continue
            fld = a.targets[0].id.lstrip('_')
            if fld not in big:
                continue
            n_cols += 1
            types = [dotted(x) or '' for x in a.value.args[1:2]] + [dotted(k.value) or '' for k in a.value.keywords if k.arg == 'type_']
            fixed = [t_ for t_ in types if t_.split('.')[-1] in ('Integer', 'BigInteger', 'SmallInteger', 'INTEGER', 'BIGINT')]
            ctx.check(not fixed, rule, '%s.%s|fixed-width column for a Big Integer' % (cls.name, fld), '%s:%s %s' % (PIEOBJ, a.lineno, cls.name),
                      'column type %s holds any integer' % types, '%s.%s is a %s column, but the field is a KMIP Big Integer on the wire (%s:%s): a value of more than 63 bits cannot be stored' % (cls.name, fld, fixed[0] if fixed else '?', big[fld][0], big[fld][1]))
    ctx.count('columns_of_big_integer_fields', n_cols, 1)


def fold_usage_mask_type(ctx, st, um):
    """UsageMaskType folded over the real member values: bind(list of members) is the OR of their values (duplicates and order do not matter, an empty
    list is 0) and result(integer) is the list of the members whose bit is set, in definition order, for every single bit, sample unions, all bits,
    0 and None.  Returns (bind ok, result ok, text) or None when the converters leave what can be folded."""
    import itertools
    from ..fold import Folder, Unfoldable, Raised, Enum
    vals = {k: v for k, v in enum_table(ctx.src, 'CryptographicUsageMask').items() if isinstance(v, int)}
    if len(vals) < 8:
        return None
    names = list(vals)
    ub, ur = get_method(um, 'process_bind_param'), get_method(um, 'process_result_value')

    def folder():
        f = Folder(steps=60000)
        f.module = st
        f.enum_tables = {'CryptographicUsageMask': names}
        f.enum_values = {'CryptographicUsageMask': vals}
        return f
    samples = [[]] + [[n] for n in names] + [list(c) for c in itertools.combinations(names[:6], 2)] + [names, names[::-1], [names[0], names[0]], names[3:9]]
    okb = okr = True
    why = ''
    n = 0
    try:
        for s_ in samples:
            f = folder()
            got = f.call_method(ub, {'__attrs__': ()}, [[Enum('CryptographicUsageMask', x) for x in s_], None], {})
            want = 0
            for x in s_:
                want |= vals[x]
            n += 1
            if got != want:
                okb, why = False, 'bind of %s stores %r, the OR of the values is %r' % (s_[:4], got, want)
        ints = [None, 0] + [vals[x] for x in names] + [vals[names[0]] | vals[names[5]], sum(set(vals.values())), vals[names[2]] | vals[names[3]] | vals[names[-1]]]
        for i_ in ints:
            f = folder()
            got = f.call_method(ur, {'__attrs__': ()}, [i_, None], {})
            want = [x for x in names if i_ and (vals[x] & i_)]
            n += 1
            if not isinstance(got, list) or [getattr(g_, 'name', None) for g_ in got] != want:
                okr, why = False, 'the stored integer %r decodes to %s, the members with a bit set are %s' % (i_, [getattr(g_, 'name', g_) for g_ in (got if isinstance(got, (list, tuple)) else [got])][:5], want[:5])
    except Raised as ex:
        return (False, False, 'the converter raises %s' % ex.name)
    except Unfoldable as ex:
        ctx.note('C05.R3: UsageMaskType is not foldable (%s); shape rule used' % ex)
        return None
    ctx.count('usage_mask_conversions_folded', n)
    return okb, okr, why or 'folded over %d lists / integers with the %d real member values' % (n, len(names))


def check_wrapping_data_rebuilt_in_full(ctx):
    """C05.R14: Get rebuilds the key wrapping data of a stored key with every setting it was stored with."""
    SECF = 'kmip/core/factories/secrets.py'
    COBJ = 'kmip/core/objects.py'
    ctx.rule('C05.R14', 'where the secret factory (pie object -> wire structure, run by Get) builds KeyWrappingData from the stored settings it passes every constructor parameter of KeyWrappingData - by splatting the settings dictionary or by naming all of them: a setting that is left out (the Encoding Option, the IV ...) is stored correctly but never comes back')
    ot = ctx.src.tree(COBJ)
    kwd = get_class(ot, 'KeyWrappingData')
    want = set(params(get_method(kwd, '__init__', raw=True)))
    st = ctx.src.tree(SECF)
    n = 0
    from ..astutil import all_functions
    for q, fn, cls in all_functions(st):
        for c in walk_local(fn):
            if not (isinstance(c, ast.Call) and (call_name(c) or '').split('.')[-1] == 'KeyWrappingData'):
                continue
            n += 1
            splat = any(k.arg is None for k in c.keywords)
            named = {k.arg for k in c.keywords if k.arg}
            pos = len(c.args)
            missing = sorted(want - named) if not splat else []
            if pos:
                missing = missing[pos:] if False else sorted((want - named) - set(list(params(get_method(kwd, '__init__', raw=True)))[:pos]))
            ctx.check(splat or not missing, 'C05.R14', '%s|KeyWrappingData(%s)' % (q, 'missing ' + ','.join(missing) if missing else 'complete'), '%s:%s %s' % (SECF, c.lineno, q),
                      'all %d settings of the key wrapping data are passed on' % len(want), 'KeyWrappingData is rebuilt without %s: what was stored for it is not returned by Get' % missing)
    ctx.count('wrapping_data_constructions_in_secret_factory', n, 1)


def check_attribute_report_has_no_memory(ctx, m):
    """C05.R15: what GetAttributes / GetAttributeList report is computed from the stored object and the current request only."""
    from ..engmodel import pure_memo_fields
    ctx.rule('C05.R15', 'the attribute reporting path (_get_attributes_from_managed_object, _get_attribute_from_managed_object and the helpers expanded into them) reads no engine table that earlier requests filled, unless the table is a pure memo (its key determines its value): a cache keyed by less than what the answer depends on - the protocol version, for instance - makes a later client of another version see the attribute set of an earlier one')
    good, bad = pure_memo_fields(m)
    n = 0
    for meth in ('_get_attributes_from_managed_object', '_get_attribute_from_managed_object', '_process_get_attributes', '_process_get_attribute_list'):
        fn = m.methods.get(meth)
        if fn is None:
            continue
        for x in walk_local(fn):
            if is_self_attr(x) and isinstance(x.ctx, ast.Load) and x.attr in bad:
                n += 1
                ctx.fail('C05.R15', 'KmipEngine.%s|reads %s' % (meth, x.attr), m.site(x, fn),
                         '%s consults self.%s, a table filled by earlier requests that is not a pure memo (%s): the attributes reported for an object then depend on the history of requests, not only on the object and the request' % (meth, x.attr, bad[x.attr]))
    ctx.analysed['impure_tables_read_by_attribute_reporting'] = n
    if not n:
        ctx.ok('C05.R15', ENGINE, 'the attribute reporting path reads no history-dependent engine table (%d pure memo tables, %d impure tables in the engine)' % (len(good), len(bad)))

def run(ctx):
    src = ctx.src
    m = EngineModel(src)
    ix = Index(src)
    pie = PieModel(src)
    for rid, text in (
        ('C05.R1', 'per stored object type: keys produced by _build_core_object = keys consumed by SecretFactory (optional consumer keys may be absent); each produced key reads the pie field of that role'),
        ('C05.R2', 'pie<->core converters bind every persisted field to the parameter of the same role; cryptographic-parameter and key-wrapping-data key sets agree across pie getter, pie setter, factory builders and core constructors; pie getter and setter are inverse column maps'),
        ('C05.R3', 'EnumType uses the same sentinel in bind and result, no enumeration stored through it has that value or a falsy member, enums do not define __bool__/__len__; UsageMaskType ORs member values and re-enumerates CryptographicUsageMask'),
        ('C05.R4', 'for every attribute name handled by two or more of the getter / index-finder / setter / by-index setter / deleter helpers the pie field touched is the same'),
        ('C05.R5', "Get's secret is _build_core_object of the access-checked object or of its deep copy; object_type is that object's own type; Register stores the conversion of the payload's own managed object"),
    ):
        ctx.rule(rid, text)

    # ---------------- R1
    bco = m.method('_build_core_object')
    g = CFG(bco)
    objp = params(bco)[0]
    produced = {}
    for n in g.nodes:
        if n.kind == 'stmt' and isinstance(n.stmt, ast.Assign) and isinstance(n.stmt.value, ast.Dict) and n.stmt.value.keys:
            types = []
            for tt, lab in dominating_edges(g, n):
                p = cmp_parts(tt.stmt)
                if p and p[1] == 'Eq' and lab == 'T' and enum_member(p[2], 'ObjectType'):
                    types.append(enum_member(p[2])[1])
            if len(types) == 1:
                produced[types[0]] = n.stmt.value
    ctx.count('core_object_type_arms', len(produced), 7)
    ft = src.tree(SECFAC)
    sf = get_class(ft, 'SecretFactory')
    create = get_method(sf, 'create')
    dispatch = {}
    for n in ast.walk(create):
        if isinstance(n, ast.If):
            p = cmp_parts(n.test)
            if p and p[1] in ('Is', 'Eq') and enum_member(p[2], 'ObjectType') and len(n.body) == 1 and isinstance(n.body[0], ast.Return) and isinstance(n.body[0].value, ast.Call) \
                    and is_self_attr(n.body[0].value.func):
                dispatch[enum_member(p[2])[1]] = n.body[0].value.func.attr

    def consumed(mname, seen=()):
        fn = get_method(sf, mname)
        vp = params(fn)[0]
        req, opt = set(), set()
        gg = CFG(fn)
        rd = ReachingDefs(gg)
        for n in walk_local(fn):
            if isinstance(n, ast.Call) and isinstance(n.func, ast.Attribute) and n.func.attr == 'get' and isinstance(n.func.value, ast.Name) and n.func.value.id == vp \
                    and n.args and isinstance(n.args[0], ast.Constant):
                k = n.args[0].value
                optional = False
                par = n._parent
                if isinstance(par, ast.Assign) and isinstance(par.targets[0], ast.Name):
                    var = par.targets[0].id
                    uses = [x for x in walk_local(fn) if isinstance(x, ast.Name) and x.id == var and isinstance(x.ctx, ast.Load)]
                    guarded = []
                    for u in uses:
                        un = node_of_expr(gg, u)
                        if un is None:
                            continue
                        if un.kind == 'test' and (is_none_test(un.stmt) or isinstance(un.stmt, ast.Name)):
                            guarded.append(True)
                            continue
                        ok = False
                        for tt, lab in dominating_edges(gg, un):
                            nt = is_none_test(tt.stmt)
                            if nt and isinstance(nt[1], ast.Name) and nt[1].id == var and ((nt[0] == 'isnot') == (lab == 'T')):
                                ok = True
                            if isinstance(tt.stmt, ast.Name) and tt.stmt.id == var and lab == 'T':
                                ok = True
                        guarded.append(ok)
                    optional = bool(guarded) and all(guarded)
                (opt if optional else req).add(k)
            if isinstance(n, ast.Call) and is_self_attr(n.func) and n.func.attr in methods(sf) and n.func.attr not in seen and n.args and isinstance(n.args[0], ast.Name) and n.args[0].id == vp:
                r2, o2 = consumed(n.func.attr, seen + (mname,))
                req |= r2
                opt |= o2
        return req, opt - req
    for ot, d in sorted(produced.items()):
        site = m.site(d, bco)
        keys = dict(dict_items(d))
        cm = dispatch.get(ot)
        ctx.check(cm is not None, 'C05.R1', '%s|consumer-exists' % ot, site, 'SecretFactory.create dispatches %s to %s' % (ot, cm), 'SecretFactory has no constructor arm for %s' % ot)
        if cm is None:
            continue
        req, opt = consumed(cm)
        unused = sorted(set(keys) - req - opt)
        missing = sorted(req - set(keys))
        ctx.check(not unused and not missing, 'C05.R1', '%s|keys-agree' % ot, site, 'produced %s = consumed (required %s, optional %s)' % (sorted(keys), sorted(req), sorted(opt)),
                  'for %s the engine produces keys %s which the secret factory never reads, and the factory requires %s which are not produced' % (ot, unused, missing))
        for k, v in sorted(keys.items()):
            want = ROLE.get(k, k)
            flds = [x.attr for x in ast.walk(v) if isinstance(x, ast.Attribute) and isinstance(x.value, ast.Name) and x.value.id == objp]
            const_ok = not flds and enum_member(v) is not None and ot == 'SECRET_DATA' and k == 'key_format_type'
            ctx.check(flds == [want] or const_ok, 'C05.R1', '%s|%s<-field' % (ot, k), m.site(v, bco), "'%s' <- obj.%s" % (k, want),
                      "for %s the key '%s' is filled from %s instead of the stored field %s" % (ot, k, U(v), want))

    # ---------------- R2 crypto-parameter / wrapping-data key sets
    pt = src.tree(PIEOBJ)
    keycls = get_class(pt, 'Key')
    getter = setter = None
    for f in keycls.body:
        if isinstance(f, ast.FunctionDef) and f.name == 'key_wrapping_data':
            if any((dotted(d) or '') == 'property' for d in f.decorator_list):
                getter = f
            else:
                setter = f
    ctx.need(getter is not None and setter is not None, 'anchor vanished: Key.key_wrapping_data property')
    folded_maps = fold_wrapping_data_maps(ctx, keycls, getter, setter)
    if folded_maps is not None:
        gmap, smap = folded_maps
    else:
        # getter map: (section, key) -> column
        gmap = {}

        def walk_dict(d, section):
            for k, v in dict_items(d):
                if isinstance(v, ast.Dict):
                    walk_dict(v, section + (k,))
                elif is_self_attr(v):
                    gmap[section + (k,)] = v.attr
        gvars = {}
        for n in walk_local(getter):
            if isinstance(n, ast.Assign) and isinstance(n.targets[0], ast.Name) and isinstance(n.value, ast.Dict) and n.value.keys:
                gvars[n.targets[0].id] = n.value
        top = None
        for n in walk_local(getter):
            if isinstance(n, ast.Assign) and isinstance(n.targets[0], ast.Subscript) and isinstance(n.targets[0].slice, ast.Constant) and isinstance(n.targets[0].value, ast.Name):
                k = n.targets[0].slice.value
                tgt = n.targets[0].value.id
                if isinstance(n.value, ast.Name) and n.value.id in gvars:
                    walk_dict(gvars[n.value.id], (k,))
                elif is_self_attr(n.value):
                    gmap[(k,)] = n.value.attr
        # setter map: column -> (section, key)
        smap = {}
        svars = {}
        sparam = params(setter)[0]
        for n in sorted([x for x in walk_local(setter) if isinstance(x, ast.Assign)], key=lambda x: x.lineno):
            if isinstance(n, ast.Assign) and isinstance(n.value, ast.Call) and isinstance(n.value.func, ast.Attribute) and n.value.func.attr == 'get' and isinstance(n.value.func.value, ast.Name) \
                    and n.value.args and isinstance(n.value.args[0], ast.Constant):
                base = n.value.func.value.id
                key = n.value.args[0].value
                sec = () if base == sparam else svars.get(base)
                if sec is None:
                    continue
                if isinstance(n.targets[0], ast.Name):
                    svars[n.targets[0].id] = sec + (key,)
                elif is_self_attr(n.targets[0]):
                    smap[n.targets[0].attr] = sec + (key,)
    ksite = '%s:%s Key.key_wrapping_data' % (PIEOBJ, getter.lineno)
    ctx.count('wrapping_data_columns', len(smap), 30)
    inv_ok = {v: k for k, v in gmap.items()} == smap
    diff = sorted(set(map(str, {v: k for k, v in gmap.items()}.items())) ^ set(map(str, smap.items())))
    ctx.check(inv_ok, 'C05.R2', 'Key.key_wrapping_data|getter-setter-inverse', ksite, 'getter and setter are inverse maps over %d columns' % len(smap),
              'the key_wrapping_data getter and setter disagree on which column carries which key: %s' % diff[:6])
    cols = set(pie.fields('Key'))
    bad_cols = sorted(c for c in smap if c not in cols or not isinstance(pie.fields('Key')[c], ast.Assign))
    ctx.check(not bad_cols, 'C05.R2', 'Key.key_wrapping_data|columns-exist', ksite, 'every wrapping-data attribute is a mapped column', 'wrapping-data attributes without a column (not persisted): %s' % bad_cols)
    for col, path in sorted(smap.items()):
        if not col.endswith(path[-1]):
            ctx.fail('C05.R2', 'Key.key_wrapping_data|column-name %s' % col, ksite, 'column %s stores key %s' % (col, '/'.join(path)))
    pie_cp = sorted(set(p[-1] for p in smap.values() if len(p) == 3))
    pie_kwd = sorted(set(p[0] for p in smap.values()))
    fac = get_class(src.tree(PIEFAC), 'ObjectFactory')
    bcp = get_method(fac, '_build_cryptographic_parameters')
    bkw = get_method(fac, '_build_key_wrapping_data')
    vcp = params(bcp)[0]
    fac_cp = {}
    for n in walk_local(bcp):
        if isinstance(n, ast.Dict):
            for k, v in dict_items(n):
                fac_cp[k] = v
    fac_kwd = {}
    rets = [r for r in walk_local(bkw) if isinstance(r, ast.Return) and isinstance(r.value, ast.Name)]
    for n in walk_local(bkw):
        if isinstance(n, ast.Assign) and isinstance(n.targets[0], ast.Name) and rets and n.targets[0].id == rets[-1].value.id and isinstance(n.value, ast.Dict):
            fac_kwd = dict(dict_items(n.value))
    for r in walk_local(bkw):
        if isinstance(r, ast.Return) and isinstance(r.value, ast.Dict):
            fac_kwd = dict(dict_items(r.value))
    core_cp = params(get_method(get_class(src.tree(ATTRS), 'CryptographicParameters'), '__init__'))
    core_kwd = params(get_method(get_class(src.tree(COBJ), 'KeyWrappingData'), '__init__'))
    fsite = '%s:%s ObjectFactory' % (PIEFAC, bcp.lineno)
    ctx.check(sorted(fac_cp) == pie_cp == sorted(core_cp), 'C05.R2', 'cryptographic-parameters|key-sets', fsite, '%d cryptographic-parameter keys agree across pie columns, factory and core constructor' % len(pie_cp),
              'cryptographic-parameter key sets differ: factory-only %s, pie-only %s, core-only %s' % (sorted(set(fac_cp) - set(pie_cp)), sorted(set(pie_cp) - set(fac_cp)), sorted(set(core_cp) ^ set(pie_cp))))
    ctx.check(sorted(fac_kwd) == pie_kwd == sorted(core_kwd), 'C05.R2', 'key-wrapping-data|key-sets', fsite, '%d key-wrapping-data keys agree' % len(pie_kwd),
              'key-wrapping-data key sets differ: factory %s, pie %s, core %s' % (sorted(fac_kwd), pie_kwd, sorted(core_kwd)))
    for k, v in sorted(fac_cp.items()):
        ctx.check(isinstance(v, ast.Attribute) and isinstance(v.value, ast.Name) and v.value.id == vcp and v.attr == k, 'C05.R2', 'ObjectFactory._build_cryptographic_parameters|%s' % k,
                  '%s:%s' % (PIEFAC, v.lineno), "'%s' <- value.%s" % (k, k), "cryptographic parameter '%s' is filled from %s" % (k, U(v)))
    vkw = params(bkw)[0]
    for k, v in sorted(fac_kwd.items()):
        okv = isinstance(v, ast.Attribute) and isinstance(v.value, ast.Name) and v.value.id == vkw and v.attr == k
        if not okv and isinstance(v, ast.Name):
            # a local sub-dictionary: built only from fields of a local bound to value.<k>
            srcs = set(a.targets[0].id for a in walk_local(bkw) if isinstance(a, ast.Assign) and isinstance(a.targets[0], ast.Name) and isinstance(a.value, ast.Attribute)
                       and isinstance(a.value.value, ast.Name) and a.value.value.id == vkw and a.value.attr == k)
            dicts = [a.value for a in walk_local(bkw) if isinstance(a, ast.Assign) and isinstance(a.targets[0], ast.Name) and a.targets[0].id == v.id]
            roots = set()
            direct = 0
            for d in dicts:
                for x in ast.walk(d):
                    if isinstance(x, ast.Attribute) and isinstance(x.value, ast.Name) and x.value.id != 'self':
                        if x.value.id == vkw and x.attr == k:
                            direct += 1          # value.<k>.<field> written out (no local in between)
                        else:
                            roots.add(x.value.id)
            okv = (bool(srcs) or direct > 0) and bool(dicts) and all(isinstance(d, ast.Dict) for d in dicts) and roots <= srcs and (bool(roots) or direct > 0)
        ctx.check(okv, 'C05.R2', 'ObjectFactory._build_key_wrapping_data|%s' % k, '%s:%s' % (PIEFAC, v.lineno), "'%s' <- value.%s" % (k, k), "key wrapping datum '%s' is filled from %s" % (k, U(v)))
    # converters: constructor parameter <- field of the same role
    n_bind = 0
    from ..inline import flat_methods
    for mname, fn in flat_methods(fac)[0].items():
        if not (mname.startswith('_build_pie_') or mname.startswith('_build_core_')):
            continue
        gg = CFG(fn)
        rd = ReachingDefs(gg)
        srcp = params(fn)[0]
        for c in [c for c in walk_local(fn) if isinstance(c, ast.Call)]:
            cn = call_name(c) or ''
            target = None
            if cn.startswith('pobjects.') or cn == 'cls':
                cname = cn.split('.')[-1] if cn != 'cls' else None
                cls_candidates = [cname] if cname else ['SymmetricKey', 'PublicKey', 'PrivateKey']
                for cand in cls_candidates:
                    if cand in pie.classes:
                        init = pie.own_fields(cand).get('__init__')
                        if isinstance(init, ast.FunctionDef):
                            target = init
                            if cn == 'cls' and len(c.args) > len(params(init)) :
                                continue
                            break
                if cn == 'cls':
                    # positional arity decides which key class signature applies (SymmetricKey has no format parameter)
                    target = pie.own_fields('SymmetricKey' if len(c.args) == 3 else 'PublicKey').get('__init__')
            elif cn == 'cobjects.KeyBlock':
                target = get_method(get_class(src.tree(COBJ), 'KeyBlock'), '__init__')
            if not isinstance(target, ast.FunctionDef):
                continue
            b = bind_args(target, c)
            node = node_of_expr(gg, c)
            for p, a in sorted(b.items()):
                if isinstance(a, ast.Constant) and a.value is None:
                    continue
                want = ROLE.get(p, p) if mname.startswith('_build_core_') else {'value': ('key_material', 'certificate_value', 'opaque_data_value', 'key_value'), 'key_value': ('key_material', 'key_value')}.get(p, (ROLE.get(p, p), p))
                want = (want,) if isinstance(want, str) else want
                # attribute names on the source object reachable from the argument (through single-definition locals)
                names = set()

                def root(x):
                    while isinstance(x, ast.Attribute):
                        x = x.value
                    return x.id if isinstance(x, ast.Name) else None

                def collect(e, depth=0):
                    for x in ast.walk(e):
                        if isinstance(x, ast.Attribute) and (root(x) == srcp or (root(x) is not None and rd.values(node, root(x)))):
                            names.add(x.attr)
                        if isinstance(x, ast.Name) and depth < 3 and x.id != srcp:
                            for v in rd.values(node, x.id):
                                if isinstance(v, ast.AST):
                                    collect(v, depth + 1)
                collect(a)
                if not names:
                    continue
                n_bind += 1
                # a local that carries the field on one path and a constant on another: the choice may depend on the presence of that very
                # field only (`x = None; if src.f is not None: x = src.f.value`), never on another field of the source
                for x in [x for x in ast.walk(a) if isinstance(x, ast.Name) and x.id != srcp]:
                    defs = [(d, dn) for _v, d, dn in rd.reaching(node, x.id) if isinstance(d, ast.AST) and dn is not None]
                    if len(defs) < 2 or not any(isinstance(d, ast.Constant) for d, dn in defs):
                        continue
                    for d, dn in defs:
                        carried = set(y.attr for y in ast.walk(d) if isinstance(y, ast.Attribute))
                        if isinstance(d, ast.Constant) or not carried & set(want):
                            continue
                        for tn, lab in dominating_edges(gg, dn):
                            tattrs = set(y.attr for y in ast.walk(tn.stmt) if isinstance(y, ast.Attribute)) | set(y.id for y in ast.walk(tn.stmt) if isinstance(y, ast.Name))
                            foreign = set(y.attr for y in ast.walk(tn.stmt) if isinstance(y, ast.Attribute) and root(y) == srcp) - carried
                            ctx.check(bool(tattrs & (carried | {x.id})) or not foreign, 'C05.R2', 'ObjectFactory.%s|%s(%s=)|kept only under a test of another field' % (mname, cn, p), '%s:%s ObjectFactory.%s' % (PIEFAC, tn.line, mname),
                                      '%s is carried over whenever it is present' % p,
                                      'constructor parameter %s of %s receives the %s field only when %s holds - a test of other fields (%s) of the source; for the other values of those fields the stored / returned object loses the value it was given' % (p, cn, '/'.join(sorted(carried & set(want))), ' '.join(U(tn.stmt).split())[:70], ', '.join(sorted(foreign))))
                ctx.check(any(w in names for w in want), 'C05.R2', 'ObjectFactory.%s|%s(%s=)' % (mname, cn, p), '%s:%s ObjectFactory.%s' % (PIEFAC, c.lineno, mname),
                          '%s <- %s' % (p, sorted(names & set(want))), 'constructor parameter %s of %s receives %s, which does not carry the %s field' % (p, cn, U(a), '/'.join(want)))
    ctx.count('converter_bindings', n_bind, 25)

    # ---------------- R3 column decorators
    st = src.tree(SQLT)
    et = get_class(st, 'EnumType')
    bind = get_method(et, 'process_bind_param')
    res = get_method(et, 'process_result_value')
    sent_b = [r.value for r in walk_local(bind) if isinstance(r, ast.Return) and not (isinstance(r.value, ast.Attribute))]
    sent_r = [c.comparators[0] for c in walk_local(res) if isinstance(c, ast.Compare) and isinstance(c.ops[0], ast.Eq)]
    try:
        sb = ast.literal_eval(sent_b[0]) if len(sent_b) == 1 else None
        sr = ast.literal_eval(sent_r[0]) if len(sent_r) == 1 else None
    except Exception:
        sb = sr = None
    ssite = '%s:%s EnumType' % (SQLT, et.lineno)
    ctx.check(sb is not None and sb == sr, 'C05.R3', 'EnumType|sentinel-agrees', ssite, 'NULL sentinel %s on both sides' % sb, 'bind stores %s for "no value" but result decodes %s' % (sb, sr))
    truthy_bind = any(isinstance(n, ast.If) and isinstance(n.test, ast.Name) for n in walk_local(bind))
    enum_cols = set()
    for n in ast.walk(src.tree(PIEOBJ)):
        if isinstance(n, ast.Call) and (call_name(n) or '').endswith('EnumType') and n.args:
            d = dotted(n.args[0]) or ''
            if d.startswith('enums.'):
                enum_cols.add(d.split('.')[1])
    ctx.count('enum_column_classes', len(enum_cols), 8)
    et_tree = src.tree('kmip/core/enums.py')
    for ec in sorted(enum_cols):
        vals = enum_table(src, ec)
        c = get_class(et_tree, ec)
        bad = sorted(k for k, v in vals.items() if v == sb or (truthy_bind and not v))
        dunder = [f.name for f in c.body if isinstance(f, ast.FunctionDef) and f.name in ('__bool__', '__len__', '__nonzero__')]
        ctx.check(not bad and not dunder, 'C05.R3', 'EnumType|%s' % ec, 'kmip/core/enums.py:%s %s' % (c.lineno, ec), 'no member of %s collides with the sentinel or is falsy' % ec,
                  'members %s of %s cannot be stored (sentinel/falsy), or the enum overrides truthiness (%s)' % (bad, ec, dunder))
    um = get_class(st, 'UsageMaskType')
    ub, ur = get_method(um, 'process_bind_param'), get_method(um, 'process_result_value')
    okb = any(isinstance(n, ast.BinOp) and isinstance(n.op, ast.BitOr) and 'value' in U(n) for n in walk_local(ub))
    okr = any(isinstance(n, ast.For) and (dotted(n.iter) or '').endswith('CryptographicUsageMask') for n in walk_local(ur)) and any(isinstance(n, ast.BinOp) and isinstance(n.op, ast.BitAnd) for n in walk_local(ur))
    # the column converters are total: they run inside flush / load, where an exception surfaces after the row was written (or makes a stored row unreadable)
    for cl_ in [x for x in st.body if isinstance(x, ast.ClassDef)]:
        for mth in [f for f in cl_.body if isinstance(f, ast.FunctionDef) and f.name in ('process_bind_param', 'process_result_value')]:
            rz_ = [x for x in walk_local(mth) if isinstance(x, ast.Raise)]
            ctx.check(not rz_, 'C05.R3', '%s.%s|total' % (cl_.name, mth.name), '%s:%s %s.%s' % (SQLT, mth.lineno, cl_.name, mth.name), 'the converter raises nothing of its own',
                      'the column converter can raise (line %s): %s' % ([x.lineno for x in rz_], 'a value the writer accepted becomes unreadable - the object is stored, its creation reports failure, and every later load of it fails'
                                                                                 if mth.name == 'process_result_value' else 'the flush fails after other rows of the object were already written'))
    # exact inverse: the only value process_result_value returns is the list filled by append(<loop variable>) under `<loop variable>.value & value`
    rg_ = CFG(ur)
    exact = True
    rets_ = [n.stmt for n in rg_.nodes if n.kind == 'stmt' and isinstance(n.stmt, ast.Return)]
    rnames = set(r.value.id for r in rets_ if isinstance(r.value, ast.Name))
    vpar = params(ur)[0] if params(ur) else None

    def empty_when_no_bits(rnode):
        """`return []` reached only when the stored integer has no bit set (None / 0): a dominating falsy test of the parameter"""
        r = rnode.stmt
        if not ((isinstance(r.value, ast.List) and not r.value.elts) or (isinstance(r.value, ast.Call) and call_name(r.value) == 'list' and not r.value.args)):
            return False
        for t_, lab_ in dominating_edges(rg_, rnode):
            if isinstance(t_.stmt, ast.Name) and t_.stmt.id == vpar and lab_ == 'F':
                return True
            q_ = cmp_parts(t_.stmt)
            if q_ and isinstance(q_[0], ast.Name) and q_[0].id == vpar and isinstance(q_[2], ast.Constant) and q_[2].value in (None, 0) \
                    and ((q_[1] in ('Is', 'Eq') and lab_ == 'T') or (q_[1] in ('IsNot', 'NotEq') and lab_ == 'F')):
                return True
        return False
    other_rets = [n for n in rg_.nodes if n.kind == 'stmt' and isinstance(n.stmt, ast.Return) and not isinstance(n.stmt.value, ast.Name)]
    if len(rnames) != 1 or not all(empty_when_no_bits(n) for n in other_rets):
        exact = False
    else:
        lv_ = next(iter(rnames))
        for n in rg_.nodes:
            for c in calls_at(n):
                if isinstance(c.func, ast.Attribute) and isinstance(c.func.value, ast.Name) and c.func.value.id == lv_:
                    guarded = any(isinstance(t_.stmt, ast.BinOp) and isinstance(t_.stmt.op, ast.BitAnd) and lab_ == 'T' and c.args and isinstance(c.args[0], ast.Name)
                                  and U(t_.stmt.left) == '%s.value' % c.args[0].id for t_, lab_ in dominating_edges(rg_, n))
                    if not (c.func.attr == 'append' and guarded):
                        exact = False
        for a_ in walk_local(ur):
            if isinstance(a_, ast.Assign) and any(isinstance(tg, ast.Name) and tg.id == lv_ for tg in a_.targets):
                if not ((isinstance(a_.value, ast.Call) and call_name(a_.value) == 'list' and not a_.value.args) or (isinstance(a_.value, ast.List) and not a_.value.elts)):
                    exact = False
    folded = fold_usage_mask_type(ctx, st, um)
    if folded is not None:
        okf_b, okf_r, whyf = folded
        exact = okf_r
        okb = okr = okf_b and okf_r
        ctx.check(okf_r, 'C05.R3', 'UsageMaskType.process_result_value|exactly-the-stored-bits', '%s:%s UsageMaskType.process_result_value' % (SQLT, ur.lineno),
                  'returns exactly the members whose bit is set in the stored integer (%s)' % whyf, 'the decoded usage mask is not exactly the set of members whose bit is set in the stored integer: %s' % whyf)
        ctx.check(okf_b, 'C05.R3', 'UsageMaskType|or-and-enumerate', '%s:%s UsageMaskType' % (SQLT, um.lineno), 'bind ORs member values; result enumerates CryptographicUsageMask with & (%s)' % whyf,
                  'the mask decorator does not store the OR of the member values: %s' % whyf)
    else:
        ctx.check(exact, 'C05.R3', 'UsageMaskType.process_result_value|exactly-the-stored-bits', '%s:%s UsageMaskType.process_result_value' % (SQLT, ur.lineno),
                  'returns exactly the members whose bit is set in the stored integer', 'the decoded usage mask is not exactly the set of members whose bit is set in the stored integer (another return value, an unguarded append, or a pre-filled list): the mask reported and enforced differs from the one stored')
        ctx.check(okb and okr, 'C05.R3', 'UsageMaskType|or-and-enumerate', '%s:%s UsageMaskType' % (SQLT, um.lineno), 'bind ORs member values; result enumerates CryptographicUsageMask with &', 'the mask decorator does not OR on bind / enumerate the same enum on result')


    # ---------------- R4 attribute maps agree
    gf = getter_fields(m)

    def chain_fields(fname, namep_idx, objp_idx):
        fn = m.method(fname)
        ps = params(fn)
        out = {}
        gg = CFG(fn)
        objv = ps[objp_idx]
        if namep_idx is not None:
            namevars = {ps[namep_idx]}
        else:
            # the name is the first component of the (name, [index,] value) parameter: x = p[0] or x, ... = p
            tup = ps[objp_idx + 1]
            namevars = set()
            for a_ in walk_local(fn):
                if isinstance(a_, ast.Assign) and len(a_.targets) == 1:
                    tg, vv = a_.targets[0], a_.value
                    if isinstance(tg, ast.Name) and isinstance(vv, ast.Subscript) and isinstance(vv.value, ast.Name) and vv.value.id == tup and isinstance(vv.slice, ast.Constant) and vv.slice.value == 0:
                        namevars.add(tg.id)
                    if isinstance(tg, (ast.Tuple, ast.List)) and tg.elts and isinstance(tg.elts[0], ast.Name) and isinstance(vv, ast.Name) and vv.id == tup:
                        namevars.add(tg.elts[0].id)
        # locals used as the field-name argument of setattr/getattr/hasattr on the object
        fieldvars = set(c_.args[1].id for c_ in walk_local(fn) if isinstance(c_, ast.Call) and call_name(c_) in ('setattr', 'getattr', 'hasattr') and len(c_.args) >= 2
                        and isinstance(c_.args[0], ast.Name) and c_.args[0].id == objv and isinstance(c_.args[1], ast.Name))
        for n in gg.nodes:
            names = []
            for tt, lab in dominating_edges(gg, n):
                p = cmp_parts(tt.stmt)
                if p and p[1] == 'Eq' and lab == 'T' and isinstance(p[0], ast.Name) and p[0].id in namevars and isinstance(p[2], ast.Constant):
                    names.append(p[2].value)
            if len(names) != 1:
                continue
            from ..cfg import expr_nodes
            for e in expr_nodes(n):
                for x in ast.walk(e):
                    if isinstance(x, ast.Attribute) and isinstance(x.value, ast.Name) and x.value.id == objv:
                        out.setdefault(names[0], set()).add(x.attr)
                    if isinstance(x, ast.Constant) and isinstance(x.value, str) and isinstance(x._parent, ast.Assign) and isinstance(x._parent.targets[0], ast.Name) and x._parent.targets[0].id in fieldvars:
                        out.setdefault(names[0], set()).add(x.value)
        return out
    helpers = {'_get_attribute_index_from_managed_object': chain_fields('_get_attribute_index_from_managed_object', 1, 0),
               '_set_attribute_on_managed_object': chain_fields('_set_attribute_on_managed_object', None, 0),
               '_set_attribute_on_managed_object_by_index': chain_fields('_set_attribute_on_managed_object_by_index', 1, 0),
               '_delete_attribute_from_managed_object': chain_fields('_delete_attribute_from_managed_object', None, 0)}
    n_cmp = 0
    for hname, mp in sorted(helpers.items()):
        for name, flds in sorted(mp.items()):
            want = set(gf.get(name) or [])
            if not want:
                continue
            n_cmp += 1
            ctx.check(flds <= want | {'_object_type', 'object_type'} and bool(flds & want), 'C05.R4', 'KmipEngine.%s|%s' % (hname, name), '%s KmipEngine.%s' % (ENGINE, hname),
                      '%s touches %s like the getter' % (name, sorted(flds & want)),
                      'for attribute %s the helper touches field(s) %s but GetAttributes reads %s' % (name, sorted(flds), sorted(want)))
    ctx.count('helper_attribute_arms_compared', n_cmp, 20)

    # ---------------- R5 Get / Register provenance
    getf = m.method('_process_get')
    gg = CFG(getf)
    rd = ReachingDefs(gg)
    resp = [(n, c) for n in gg.nodes for c in calls_at(n) if (call_name(c) or '').endswith('GetResponsePayload')]
    ctx.need(len(resp) == 1, 'unrecognised construct: GetResponsePayload construction')
    rn, rc = resp[0]
    kw = {k.arg: k.value for k in rc.keywords}
    loads = [(n, c) for n, c in call_nodes(gg, 'self._get_object_with_access_controls') if isinstance(c._parent, ast.Assign)]
    prim = None
    for n, c in loads:
        if enum_member(c.args[1]) == ('Operation', 'GET') and isinstance(c.args[0], ast.Name) and isinstance(kw.get('unique_identifier'), ast.Name) and c.args[0].id == kw['unique_identifier'].id:
            prim = c._parent.targets[0].id
    oks = False
    if prim and isinstance(kw.get('secret'), ast.Name):
        vals = rd.values(rn, kw['secret'].id)
        oks = bool(vals)
        for v in vals:
            if not (isinstance(v, ast.Call) and is_self_attr(v.func, '_build_core_object') and isinstance(v.args[0], ast.Name)):
                oks = False
                continue
            a = v.args[0].id
            if a == prim:
                continue
            dv = rd.values(node_of_expr(gg, v), a)
            if not (len(dv) == 1 and isinstance(dv[0], ast.Call) and call_name(dv[0]) == 'copy.deepcopy' and U(dv[0].args[0]) == prim):
                oks = False
    ctx.check(oks and U(kw.get('object_type')) in ('%s._object_type' % prim, '%s.object_type' % prim), 'C05.R5', 'KmipEngine._process_get|returns-loaded-object', m.site(rc, getf),
              'secret = core form of the access-checked object (or its wrapped deep copy); object_type = its own type', 'Get does not return the core form / type of the object that was access-checked')
    reg = m.method('_process_register')
    rg = CFG(reg)
    rrd = ReachingDefs(rg)
    conv = [(n, c) for n in rg.nodes for c in calls_at(n) if isinstance(c.func, ast.Attribute) and c.func.attr == 'convert']
    okr = len(conv) == 1
    if okr:
        a = conv[0][1].args[0]
        vals = rrd.values(conv[0][0], a.id) if isinstance(a, ast.Name) else []
        okr = len(vals) == 1 and U(vals[0]) == 'payload.managed_object'
        tgt = conv[0][1]._parent.targets[0].id if isinstance(conv[0][1]._parent, ast.Assign) else None
        adds = m.add_nodes(rg, tgt) if tgt else []
        okr = okr and len(adds) == 1 and len(rrd.reaching(adds[0], tgt)) == 1
    ctx.check(okr, 'C05.R5', 'KmipEngine._process_register|stores-supplied-object', m.site(reg, reg), 'the object added is the conversion of payload.managed_object', 'Register does not store the conversion of the supplied managed object')

    # ---------------- R6 no row sharing between objects (an attribute stored for one object is never another object's row)
    ctx.rule('C05.R6', 'attribute rows linked into an object are freshly built; a row fetched from the store is never attached to a second object (its later modification or ordering would alter what the first object reports)')
    from ..engai import EngineAI
    ai = EngineAI.shared(src)
    shared = {}
    n_add = 0
    for e in ai.events:
        if e['kind'] == 'mutation' and e['how'] in ('append', 'extend', 'insert', 'setitem', 'setslice'):
            n_add += 1
            bad = [x for x in e['sources'] if x[1] == 'other:query']
            if bad:
                shared.setdefault((e['ctx'][0], e['fn'], e['line'], e['field']), set()).update(x[0] for x in bad)
    ctx.count('collection_stores', n_add, 5)
    for (root, fn, line, field), names in sorted(shared.items()):
        ctx.fail('C05.R6', 'KmipEngine.%s|shares-stored-row %s|via %s' % (fn, field, root), '%s:%s KmipEngine.%s' % (ENGINE, line, fn),
                 'a row taken from the object store (%s) is attached to field %s of another object: the attributes reported for one object then depend on operations on the other' % (sorted(names), field))
    if not shared:
        ctx.ok('C05.R6', ENGINE, 'all %d collection stores attach freshly built rows' % n_add)
    # ---------------- R8 the conversion chain never filters stored values by truthiness
    ctx.rule('C05.R8', 'in the conversion chain between stored columns and wire structures (pie factory, secret factory, pie objects, column types) no item of a mapping is kept or dropped by the truthiness of its value: False, 0 and empty byte strings are legitimate stored values (only `is None` / `is not None` may select)')
    CHAIN = ['kmip/pie/factory.py', 'kmip/core/factories/secrets.py', 'kmip/pie/objects.py', 'kmip/pie/sqltypes.py']
    n_iter = 0
    for rel in CHAIN:
        if not src.exists(rel):
            continue
        t8 = src.tree(rel)
        for comp in [n for n in ast.walk(t8) if isinstance(n, ast.comprehension)] + [n for n in ast.walk(t8) if isinstance(n, ast.For)]:
            it = comp.iter
            if not (isinstance(it, ast.Call) and isinstance(it.func, ast.Attribute) and it.func.attr in ('items', 'iteritems') or (isinstance(it, ast.Call) and (call_name(it) or '').endswith('iteritems'))):
                continue
            tg = comp.target
            if not (isinstance(tg, ast.Tuple) and len(tg.elts) == 2 and isinstance(tg.elts[1], ast.Name)):
                continue
            n_iter += 1
            vname = tg.elts[1].id
            tests = list(comp.ifs) if isinstance(comp, ast.comprehension) else [x.test for st in comp.body for x in ast.walk(st) if isinstance(x, (ast.If, ast.IfExp))]
            for tst in tests:
                parts = tst.values if isinstance(tst, ast.BoolOp) else [tst]
                for pt in parts:
                    bare = pt.operand if isinstance(pt, ast.UnaryOp) and isinstance(pt.op, ast.Not) else pt
                    if isinstance(bare, ast.Name) and bare.id == vname:
                        ctx.fail('C05.R8', '%s|truthiness-filter %s' % (rel, vname), '%s:%s' % (rel, tst.lineno),
                                 'items of %s are selected by the truthiness of the value %s: a stored False, 0 or empty byte string is dropped on the way (it comes back as absent)' % (U(it)[:60], vname))
    ctx.count('mapping_iterations_in_conversion_chain', n_iter)
    if not any(f.rule == 'C05.R8' for f in ctx.findings):
        ctx.ok('C05.R8', ', '.join(CHAIN), '%d mapping iterations select by None tests or not at all' % n_iter)
    # ---------------- R9 numbers are stored in exact column types
    ctx.rule('C05.R9', 'every Column of the pie classes that holds a number uses an exact integer type (Integer / BigInteger / an Integer-backed type decorator): no Numeric, Float, REAL or DECIMAL column - SQLite stores those as floating point, so large integers (split-key prime field sizes, lengths) would come back rounded')
    INEXACT = {'Numeric', 'Float', 'REAL', 'DECIMAL', 'NUMERIC', 'FLOAT', 'Double', 'DOUBLE', 'DOUBLE_PRECISION'}
    n_cols = 0
    for rel in ('kmip/pie/objects.py', 'kmip/pie/sqltypes.py'):
        t9 = src.tree(rel)
        for c9 in ast.walk(t9):
            if isinstance(c9, ast.Call) and (call_name(c9) or '').split('.')[-1] == 'Column':
                n_cols += 1
                for x in ast.walk(c9):
                    nm = x.attr if isinstance(x, ast.Attribute) else (x.id if isinstance(x, ast.Name) else None)
                    if nm in INEXACT:
                        ctx.fail('C05.R9', '%s|column %s|%s' % (rel, U(c9.args[0])[:40] if c9.args else '?', nm), '%s:%s' % (rel, c9.lineno),
                                 'column %s is declared with the inexact type %s: integers beyond 2**53 are rounded when stored in SQLite' % (U(c9.args[0])[:40] if c9.args else '?', nm))
        for cl9 in [x for x in ast.walk(t9) if isinstance(x, ast.ClassDef)]:
            for a9 in cl9.body:
                if isinstance(a9, ast.Assign) and any(isinstance(tg, ast.Name) and tg.id == 'impl' for tg in a9.targets):
                    nm = (dotted(a9.value) or U(a9.value)).split('.')[-1]
                    if nm in INEXACT:
                        ctx.fail('C05.R9', '%s|%s.impl|%s' % (rel, cl9.name, nm), '%s:%s %s' % (rel, a9.lineno, cl9.name), 'type decorator %s is backed by the inexact type %s' % (cl9.name, nm))
    ctx.count('pie_columns', n_cols, 30)
    if not any(f.rule == 'C05.R9' for f in ctx.findings):
        ctx.ok('C05.R9', 'kmip/pie/objects.py, kmip/pie/sqltypes.py', 'all %d columns use exact types' % n_cols)
    # ---------------- R10 flag sets are combined with bitwise OR
    ctx.rule('C05.R10', 'wherever a usage mask integer is built from a collection of CryptographicUsageMask flags it is accumulated with | (idempotent), never with + or sum(): a flag listed twice must not carry into the next bit')
    from ..astutil import all_functions as _allf
    n_or = 0
    for rel in src.modules('kmip'):
        t10 = src.tree(rel)
        for qn, fn10, cls10 in _allf(t10):
            names10 = set(x.id for x in walk_local(fn10) if isinstance(x, ast.Name))
            if 'mask' not in qn.lower() and not any('mask' in nm.lower() for nm in names10):
                continue
            for x in walk_local(fn10):
                val_operand = lambda e: any(isinstance(y, ast.Attribute) and y.attr == 'value' for y in ast.walk(e))
                if isinstance(x, ast.AugAssign) and isinstance(x.op, ast.BitOr) and val_operand(x.value):
                    n_or += 1
                if isinstance(x, ast.BinOp) and isinstance(x.op, ast.BitOr) and val_operand(x):
                    n_or += 1
                bad10 = None
                if isinstance(x, ast.Call) and call_name(x) == 'sum' and x.args and val_operand(x.args[0]):
                    bad10 = 'sum(...) over flag values'
                if isinstance(x, ast.AugAssign) and isinstance(x.op, ast.Add) and val_operand(x.value) and 'mask' in U(x.target).lower():
                    bad10 = '+= of a flag value'
                if bad10:
                    ctx.fail('C05.R10', '%s|%s' % (qn, bad10), '%s:%s %s' % (rel, x.lineno, qn), 'the mask is accumulated by %s: a repeated flag carries into a neighbouring bit (two ENCRYPT flags give SIGN...), so the stored mask differs from the one supplied' % bad10)
    ctx.count('bitwise_or_mask_accumulations', n_or, 1)
    if not any(f.rule == 'C05.R10' for f in ctx.findings):
        ctx.ok('C05.R10', 'kmip/**', '%d mask accumulations use |' % n_or)
    # ---------------- R11 a converter uses everything it extracted, on every path
    ctx.rule('C05.R11', 'in the converters between wire structures and pie objects (ObjectFactory, SecretFactory) every value extracted into a local is used on every path from its definition to a normal return: a value that one arm of a converter passes on and another arm drops (e.g. the key wrapping data for asymmetric keys) is lost on that arm')
    n11 = 0
    from ..dataflow import assigned_names as _an
    from ..cfg import expr_nodes as _en
    for rel11, cname11 in ((PIEFAC, 'ObjectFactory'), ('kmip/core/factories/secrets.py', 'SecretFactory')):
        cl11 = get_class(src.tree(rel11), cname11)
        for mname11, fn11 in methods(cl11).items():
            g11 = CFG(fn11)
            for n in g11.nodes:
                for var, val, tgt in _an(n):
                    if not isinstance(val, ast.AST) or var.startswith('_'):
                        continue
                    if g11.exit.id not in g11.reachable(n):
                        continue
                    n11 += 1
                    uses = [m_ for m_ in g11.nodes if m_ is not n and any(isinstance(x, ast.Name) and x.id == var and isinstance(x.ctx, ast.Load) for e in _en(m_) for x in ast.walk(e))]
                    ctx.check(g11.all_paths_pass(n, g11.exit, uses), 'C05.R11', '%s.%s|%s dropped on a path' % (cname11, mname11, var), '%s:%s %s.%s' % (rel11, n.line, cname11, mname11),
                              '%s is used on every path to a return' % var, 'the converter extracts %s (%s) but a path reaches a return without using it: that part of the object is silently lost on that arm' % (var, U(val)[:60]))
    ctx.count('converter_locals', n11, 60)
    # ---------------- R7 operations that only read leave the loaded instance untouched
    ctx.rule('C05.R7', 'only Activate, Revoke, Destroy and the attribute operations (Set/Modify/DeleteAttribute) modify an object loaded from the store; every other handler (Get, GetAttributes, GetAttributeList, Locate, the cryptographic-use operations, DeriveKey on its base objects, ...) leaves the loaded instance untouched - a dirty instance is written out by the next commit in the same batch')
    WRITERS = {'_process_activate', '_process_revoke', '_process_destroy', '_process_set_attribute', '_process_modify_attribute', '_process_delete_attribute'}
    ro = {}
    n_mut = 0
    for e in ai.events:
        if e['kind'] != 'mutation':
            continue
        n_mut += 1
        if e['origin'] == 'loaded' and e['ctx'][0] not in WRITERS:
            ro.setdefault((e['ctx'][0], e['fn'], e['line'], e['field']), e)
    for (root, fn, line, field), e in sorted(ro.items()):
        ctx.fail('C05.R7', 'KmipEngine.%s|modifies loaded %s|via %s' % (fn, field, root), '%s:%s KmipEngine.%s' % (ENGINE, line, fn),
                 'handler %s modifies field %s of an object loaded from the store although the operation only reads: the change is flushed by the next commit of the batch (or of a later item), and later reads return the modified value' % (root, field))
    if not ro:
        ctx.ok('C05.R7', ENGINE, 'no mutation of a loaded object outside the six modifying handlers (%d mutation events)' % n_mut)
    check_client_arguments_not_dropped(ctx)
    check_big_integer_columns(ctx)
    check_wrapping_data_rebuilt_in_full(ctx)
    check_attribute_report_has_no_memory(ctx, m)
    ctx.not_decided += ['byte fidelity of values through SQLite/SQLAlchemy/TTLV for arbitrary values; restarts on the same database file',
                        'GetAttributes reporting exactly the supplied attributes for arbitrary values']
    ctx.assumptions += ['ROLE alias table (key_value/certificate_value/opaque_data_value <-> value, etc.) transcribes the field roles']
