"""C03 - access control: nothing happens to an object without a policy grant."""
import ast
import itertools

from ..astutil import (U, dotted, get_class, get_method, methods, walk_local, is_self_attr, call_name, short,
                       enum_member, params, bind_args, all_functions)
from ..cfg import CFG, calls_at, expr_nodes
from ..dataflow import ReachingDefs, node_of_expr
from ..guards import call_nodes, dominating_edges, cmp_parts, edge_successors, is_none_test, handler_catches
from ..engmodel import EngineModel, ENGINE, CHOKE, LISTER, PIEOBJ
from ..source import AnalysisError

EXPLANATION = (
    "Who-may-call, argument-provenance, dominance and decision-tree analysis of KmipEngine: the object store is queried only inside the "
    "access-control choke point, the filtered lister and the Destroy delete of the object just access-checked; every load passes the "
    "operation the KMIP policy model prescribes for its handler; the choke point returns an object only on the allowed edge with "
    "arguments (policy name, client identity, owner, object type, operation) taken from that object and the session; the three decision "
    "functions are interpreted as decision trees over their guard atoms and compared with the default-deny table of the property; denial "
    "and not-found messages are the same format applied to the identifier only; _owner and _client_identity have closed write-sets; "
    "Locate's result derives only from the access-filtered list. Decides the mechanism, not SQLAlchemy's query semantics.")

# handler operation -> operation that must be presented to the access-control choke point (property C03 / KMIP policy model:
# cryptographic use of an object is read access, i.e. governed by GET)
T_ACCESS_OP = {'ENCRYPT': 'GET', 'DECRYPT': 'GET', 'SIGN': 'GET', 'SIGNATURE_VERIFY': 'GET', 'MAC': 'GET', 'DERIVE_KEY': 'GET'}
SESSION_COUNTED_COLLECTIONS = ('new', 'dirty', 'deleted')     # only ever as len(session.<x>)
SESSION_METHODS_OK = {'add', 'commit', 'query'}


def truthy_atom(test):
    """Classify a test expression into an atom key (normalised text) for decision trees."""
    return U(test)


def check_policy_table_freshness(ctx):
    """C03.R10: the policy parser builds one operation table per object type / one section table per policy: a container stored under a key
    inside a loop, and filled inside that loop, is allocated inside that loop."""
    from ..astutil import get_function, all_functions
    POLICYF = 'kmip/core/policy.py'
    ctx.rule('C03.R10', 'in the policy parser a table that is filled inside a loop and stored under a per-iteration key is allocated inside that iteration: the entries of different object types / sections / policies do not share one mutable table (a shared table grants one type the permissions written for another)')
    t = ctx.src.tree(POLICYF)
    n_sites = 0
    ALLOC = ('dict', 'list', 'set', 'collections.OrderedDict', 'OrderedDict')
    for qn, fn, cls in all_functions(t):
        loops = [x for x in walk_local(fn) if isinstance(x, (ast.For, ast.While))]
        if not loops:
            continue
        g = CFG(fn)
        rd = ReachingDefs(g)
        for lp in loops:
            body = set(id(x) for st in lp.body for x in ast.walk(st))
            for st in lp.body:
                for x in ast.walk(st):
                    # R[k] = V   /  R.append(V) / R.setdefault(k, V)
                    v = None
                    if isinstance(x, ast.Assign) and len(x.targets) == 1 and isinstance(x.targets[0], ast.Subscript) and isinstance(x.value, ast.Name):
                        v = x.value
                    elif isinstance(x, ast.Call) and isinstance(x.func, ast.Attribute) and x.func.attr in ('append', 'add', 'setdefault', 'update') and x.args and isinstance(x.args[-1], ast.Name):
                        v = x.args[-1]
                    if v is None:
                        continue
                    node = node_of_expr(g, x)
                    if node is None:
                        continue
                    allocs = []
                    for var, val, dn in rd.reaching(node, v.id):
                        if isinstance(val, (ast.Dict, ast.List, ast.Set)) or (isinstance(val, ast.Call) and call_name(val) in ALLOC and not val.args):
                            allocs.append((val, dn))
                    if not allocs:
                        continue
                    n_sites += 1
                    # is the container filled inside this loop?
                    filled = [y for y in body if False]
                    fills = [y for st2 in lp.body for y in ast.walk(st2)
                             if (isinstance(y, ast.Subscript) and isinstance(y.ctx, ast.Store) and isinstance(y.value, ast.Name) and y.value.id == v.id)
                             or (isinstance(y, ast.Call) and isinstance(y.func, ast.Attribute) and isinstance(y.func.value, ast.Name) and y.func.value.id == v.id
                                 and y.func.attr in ('append', 'add', 'update', 'setdefault', 'extend', 'insert'))]
                    outside = [val for val, dn in allocs if id(val) not in body]
                    site = '%s:%s %s' % (POLICYF, x.lineno, qn)
                    ctx.check(not (fills and outside), 'C03.R10', '%s|%s stored per iteration' % (qn, v.id), site,
                              '%s is allocated inside the loop that fills and stores it' % v.id,
                              '%s is allocated at line %s, outside the loop at line %d that fills it and stores it under a per-iteration key: every key then refers to the same table, holding the union of all entries' % (v.id, [o.lineno for o in outside], lp.lineno))
    ctx.count('policy_parser_per_iteration_tables', n_sites, 1)


def check_decision_points(ctx, m, rule, fnames):
    """The choke point / the lister hand out an object only on the allowed edge of the policy decision taken for that very object."""
    decide = m.method('_is_allowed_by_operation_policy')
    for fname in fnames:
        fn = m.method(fname)
        g = CFG(fn)
        rd = ReachingDefs(g)
        fs = m.site(fn, fn)
        dcalls = [(n, c) for n, c in call_nodes(g, 'self._is_allowed_by_operation_policy')]
        ctx.check(len(dcalls) == 1, rule, 'KmipEngine.%s|single-decision' % fname, fs, 'one policy decision call', 'expected exactly one _is_allowed_by_operation_policy call, found %d' % len(dcalls))
        if len(dcalls) != 1:
            continue
        dn, dc = dcalls[0]
        b = bind_args(decide, dc)
        ap = dc._parent
        dvar = ap.targets[0].id if isinstance(ap, ast.Assign) and isinstance(ap.targets[0], ast.Name) else None
        # the object variable
        objs = set()
        want = {'policy_name': 'operation_policy_name', 'object_owner': '_owner', 'object_type': 'object_type'}
        okargs = True
        why = []
        for pname, attr in want.items():
            a = b.get(pname)
            if isinstance(a, ast.Attribute) and isinstance(a.value, ast.Name) and a.attr in (attr, '_' + attr if not attr.startswith('_') else attr):
                objs.add(a.value.id)
            else:
                okargs = False
                why.append('%s <- %s' % (pname, U(a)))
        if not is_self_attr(b.get('session_identity'), '_client_identity'):
            okargs = False
            why.append('session_identity <- %s' % U(b.get('session_identity')))
        opp = params(fn)[-1]
        if not (isinstance(b.get('operation'), ast.Name) and b['operation'].id == opp and len(rd.reaching(dn, opp)) == 1 and rd.reaching(dn, opp)[0][2] is None):
            okargs = False
            why.append('operation <- %s' % U(b.get('operation')))
        if len(objs) != 1:
            okargs = False
            why.append('object-derived arguments come from %s' % sorted(objs))
        ctx.check(okargs, rule, 'KmipEngine.%s|decision-arguments' % fname, m.site(dc, fn),
                  'decision(policy name, client identity, owner, type, operation) of the object being handed out', 'decision arguments: %s' % why)
        if not okargs:
            continue
        obj = next(iter(objs))
        if fname == CHOKE:
            uid = params(fn)[0]
            rets = [n for n in g.nodes if n.kind == 'stmt' and isinstance(n.stmt, ast.Return)]
            ctx.need(rets, 'anchor vanished: choke point return')
            for r in rets:
                v = r.stmt.value
                okr = isinstance(v, ast.Name) and v.id == obj and dvar is not None
                allowed_edge = None
                if okr:
                    okr = False
                    for t, lab in dominating_edges(g, r):
                        if isinstance(t.stmt, ast.Name) and t.stmt.id == dvar and lab == 'T' and [d[1] for d in rd.reaching(t, dvar)] == [dc]:
                            okr = True
                            allowed_edge = (t, lab)
                        p = cmp_parts(t.stmt)
                        if p and isinstance(p[0], ast.Name) and p[0].id == dvar and isinstance(p[2], ast.Constant) and p[2].value is True and \
                                ((p[1] in ('Is', 'Eq') and lab == 'T') or (p[1] in ('IsNot', 'NotEq') and lab == 'F')):
                            okr = True
                            allowed_edge = (t, lab)
                    okr = okr and [d[2] for d in rd.reaching(r, obj)] == [d[2] for d in rd.reaching(dn, obj)]
                ctx.check(okr, rule, 'KmipEngine.%s|return-on-allowed-edge' % fname, m.site(r.stmt, fn),
                          'object returned only on the allowed edge', 'the choke point can return an object without the policy decision being true')
                if allowed_edge:
                    t, lab = allowed_edge
                    other = edge_successors(t, 'F' if lab == 'T' else 'T')
                    rz = [n for n in g.nodes if n.kind == 'stmt' and isinstance(n.stmt, ast.Raise) and any(n.id in g.reachable(o) for o in other)]
                    okd = bool(rz) and not any(g.exit.id in g.reachable(o) for o in other) and all(
                        isinstance(x.stmt.exc, ast.Call) and call_name(x.stmt.exc) == 'exceptions.PermissionDenied' for x in rz)
                    ctx.check(okd, rule, 'KmipEngine.%s|denied-edge-raises' % fname, m.site(t.stmt, fn), 'denied edge raises PermissionDenied',
                              'the denied edge does not end in raise PermissionDenied')
            # the object comes from a query filtered on the uid parameter
            ov = rd.values(dn, obj)
            okq = len(ov) == 1 and isinstance(ov[0], ast.Call) and isinstance(ov[0].func, ast.Attribute) and ov[0].func.attr == 'one'
            if okq:
                filt = [c for c in ast.walk(ov[0]) if isinstance(c, ast.Call) and isinstance(c.func, ast.Attribute) and c.func.attr == 'filter']
                p = cmp_parts(filt[0].args[0]) if len(filt) == 1 and filt[0].args else None
                okq = bool(p) and p[1] == 'Eq' and U(p[0]).endswith('.unique_identifier') and isinstance(p[2], ast.Name) and p[2].id == uid
            ctx.check(okq, rule, 'KmipEngine.%s|object-is-the-requested-one' % fname, fs, 'object = query(type).filter(unique_identifier == uid).one()',
                      'the object checked/returned is not the one selected by the requested identifier')
        else:
            apps = [(n, c) for n in g.nodes for c in calls_at(n) if isinstance(c.func, ast.Attribute) and c.func.attr in ('append', 'extend', 'insert', 'add')]
            retv = [r.stmt.value.id for r in g.nodes if r.kind == 'stmt' and isinstance(r.stmt, ast.Return) and isinstance(r.stmt.value, ast.Name)]
            ctx.check(len(retv) == 1, rule, 'KmipEngine.%s|single-return' % fname, fs, 'one returned list', 'unrecognised return shape')
            good = bool(apps)
            loop_heads = [x for x in g.nodes if x.kind == 'loop' and isinstance(x.stmt, ast.For) and x.stmt in dn.loops]
            why_l = []

            def from_decision(e, at):
                """e (evaluated at node `at`) is the decision of THIS object: the decision variable itself, `<it> is True`, bool(<it>),
                or the entry of a per-call memo table whose key determines every object-dependent argument of the decision"""
                if isinstance(e, ast.Compare):
                    p = cmp_parts(e)
                    if p and isinstance(p[2], ast.Constant) and p[2].value is True and p[1] in ('Is', 'Eq'):
                        return from_decision(p[0], at)
                    return False
                if isinstance(e, ast.Call) and call_name(e) == 'bool' and len(e.args) == 1:
                    return from_decision(e.args[0], at)
                if e is dc:
                    # the decision call itself, tested where it is made (`if self._is_allowed...(...) is True:`)
                    return all(lh.stmt in at.loops for lh in loop_heads)
                if isinstance(e, ast.Name):
                    defs = rd.reaching(at, e.id)
                    if not defs:
                        return False
                    for var, val, dnode in defs:
                        if val is dc:
                            if not (dnode is not None and all(lh.stmt in dnode.loops for lh in loop_heads)):
                                return False
                            continue
                        if isinstance(val, ast.AST) and dnode is not None and from_decision(val, dnode):
                            continue
                        return False
                    return True
                memo = None
                if isinstance(e, ast.Subscript) and isinstance(e.value, ast.Name):
                    memo = (e.value.id, e.slice)
                elif isinstance(e, ast.Call) and isinstance(e.func, ast.Attribute) and e.func.attr == 'get' and isinstance(e.func.value, ast.Name) and len(e.args) == 1:
                    memo = (e.func.value.id, e.args[0])
                if memo is None:
                    return False
                dname, kexpr = memo

                def keytext(k, node):
                    from ..dataflow import resolve
                    k2, _ = resolve(rd, node, k)
                    return k2
                # the table is a local, created empty before the loop, never passed on or returned
                ddefs = rd.reaching(at, dname)
                if not ddefs or not all(isinstance(v, ast.AST) and ((isinstance(v, ast.Dict) and not v.keys) or (isinstance(v, ast.Call) and call_name(v) == 'dict' and not v.args and not v.keywords))
                                        and d_ is not None and not any(lh.stmt in d_.loops for lh in loop_heads) for _, v, d_ in ddefs):
                    why_l.append('memo table %s is not a fresh local dict of this call' % dname)
                    return False
                kk = keytext(kexpr, at)
                stores = [(x, t_) for x in g.nodes if x.kind == 'stmt' and isinstance(x.stmt, ast.Assign) for t_ in x.stmt.targets
                          if isinstance(t_, ast.Subscript) and isinstance(t_.value, ast.Name) and t_.value.id == dname]
                if not stores:
                    return False
                for x, t_ in stores:
                    if U(keytext(t_.slice, x)) != U(kk) or not from_decision(x.stmt.value, x):
                        why_l.append('memo table %s is filled with something else than the decision for its key' % dname)
                        return False
                # other uses of the table: membership tests, len() and reads only
                for x in g.nodes:
                    for e2 in expr_nodes(x):
                        for nn in ast.walk(e2):
                            if isinstance(nn, ast.Name) and nn.id == dname and isinstance(nn.ctx, ast.Load):
                                par = getattr(nn, '_parent', None)
                                okuse = isinstance(par, ast.Subscript) or (isinstance(par, ast.Compare) and nn in par.comparators) \
                                    or (isinstance(par, ast.Attribute) and par.attr in ('get', 'keys', '__contains__')) \
                                    or (isinstance(par, ast.Call) and call_name(par) == 'len')
                                if not okuse:
                                    why_l.append('memo table %s escapes (%s)' % (dname, short(par)))
                                    return False
                elts = kk.elts if isinstance(kk, ast.Tuple) else [kk]
                have = set(U(x_) for x_ in elts)
                need_ = [U(b[p_]) for p_ in want if b.get(p_) is not None]
                missing = [x_ for x_ in need_ if x_ not in have]
                if missing:
                    why_l.append('the memo key %s does not determine the decision: it omits %s' % (U(kk), ', '.join(missing)))
                    return False
                return True

            for n, c in apps:
                tgt = c.func.value
                if not (isinstance(tgt, ast.Name) and retv and tgt.id == retv[0]):
                    continue
                oke = c.func.attr == 'append' and isinstance(c.args[0], ast.Name) and c.args[0].id == obj
                edge = False
                for t, lab in dominating_edges(g, n):
                    p = cmp_parts(t.stmt)
                    pos = None
                    if p and isinstance(p[2], ast.Constant) and p[2].value is True and p[1] in ('Is', 'Eq', 'IsNot', 'NotEq'):
                        pos = (p[1] in ('Is', 'Eq')) == (lab == 'T')
                        ex = p[0]
                    elif not p:
                        pos = lab == 'T'
                        ex = t.stmt
                    if pos and from_decision(ex, t) and all(lh.stmt in t.loops for lh in loop_heads):
                        edge = True
                same_iter = all(lh.stmt in n.loops for lh in loop_heads) and bool(loop_heads) and [d[2] for d in rd.reaching(n, obj)] == [d[2] for d in rd.reaching(dn, obj)]
                if not (oke and edge and same_iter):
                    good = False
            # the returned list starts empty
            rvals = rd.values(g.exit.pred[0][0], retv[0]) if retv else []
            good = good and all(isinstance(v, ast.Call) and call_name(v) == 'list' and not v.args or isinstance(v, ast.List) and not v.elts for v in rvals)
            ctx.check(good, rule, 'KmipEngine.%s|append-on-allowed-edge' % fname, fs, 'objects are appended only on the allowed edge, to an initially empty list',
                      'the lister can include an object without a true policy decision for it' + ('' if not why_l else ': ' + why_l[0]))



def fold_decision_table(ctx, m):
    """Decide C03.R5 by exhaustive evaluation: _is_allowed_by_operation_policy (with is_allowed and get_relevant_policy_section
    folded through) is evaluated for every combination of a finite model - policy absent / preset only / groups only / both,
    each section in 8 shapes (object type missing, operation missing, ALLOW_ALL, ALLOW_OWNER, DISALLOW_ALL, a permission value
    outside the three, entry for another operation only, entry for another object type only), requester groups None / [] / [defined] / [undefined] /
    [undefined, defined], requester is / is not the owner - and compared with the decision table of the property statement.
    Returns False when the functions cannot be folded (the caller falls back to the structural rules)."""
    from ..fold import Folder, Enum, Opaque, Unfoldable, Raised
    T, T2 = Enum('ObjectType', 'SYMMETRIC_KEY'), Enum('ObjectType', 'CERTIFICATE')
    OP, OP2 = Enum('Operation', 'GET'), Enum('Operation', 'DESTROY')
    ALL, OWNER, NONE_ = Enum('Policy', 'ALLOW_ALL'), Enum('Policy', 'ALLOW_OWNER'), Enum('Policy', 'DISALLOW_ALL')
    sections = [('type-missing', {}), ('operation-missing', {T: {}}), ('ALLOW_ALL', {T: {OP: ALL}}), ('ALLOW_OWNER', {T: {OP: OWNER}}),
                ('DISALLOW_ALL', {T: {OP: NONE_}}), ('other-operation-only', {T: {OP2: ALL}}), ('other-type-only', {T2: {OP: ALL}}),
                ('unknown-permission', {T: {OP: Enum('Policy', 'SOME_FUTURE_PERMISSION')}})]
    policies = [('no such policy', None)]
    for n1, s1 in sections:
        policies.append(('preset=%s' % n1, {'preset': s1}))
        policies.append(('groups{g1}=%s' % n1, {'groups': {'g1': s1}}))
        for n2, s2 in sections:
            policies.append(('preset=%s groups{g1}=%s' % (n1, n2), {'preset': s1, 'groups': {'g1': s2}}))
    # an EMPTY group list is left out of the model: whether "member of no group" counts as group information is not settled by the
    # property text (the engine denies; the unit test test_is_allowed_by_operation_policy_groups_empty pins that)
    groupsets = [('no group information', None), ('group g1', ['g1']), ('unknown group', ['gX']), ('groups gX,g1', ['gX', 'g1'])]

    def grants(section, is_owner):
        if not section:
            return False
        perm = (section.get(T) or {}).get(OP)
        return perm == ALL or (perm == OWNER and is_owner)

    def spec(pol, groups, is_owner):
        if not pol:
            return False
        if groups:
            if pol.get('groups'):
                return any(grants(pol['groups'].get(g), is_owner) for g in groups)
            return grants(pol.get('preset'), is_owner)          # the policy defines no groups: the preset section decides
        return grants(pol.get('preset'), is_owner)

    decide = m.method('_is_allowed_by_operation_policy')
    dsite = m.site(decide, decide)
    meths = {k: v for k, v in m.methods.items()}
    mism = {}
    n = 0
    # engine fields that __init__ creates empty (memo tables, counters ...): part of the model, so that what the decision functions keep between
    # calls is seen by the history step below
    init_fields = {}
    for st_ in m.method('__init__').body:
        if isinstance(st_, ast.Assign) and len(st_.targets) == 1 and is_self_attr(st_.targets[0]) and st_.targets[0].attr not in ('_operation_policies', '_logger'):
            v_ = st_.value
            if isinstance(v_, ast.Constant) or (isinstance(v_, (ast.Dict, ast.List, ast.Set)) and not ast.dump(v_).count('elts=[') - 1 > 0 and not getattr(v_, 'keys', None) and not getattr(v_, 'elts', None)) \
                    or (isinstance(v_, ast.Call) and call_name(v_) in ('dict', 'list', 'set', 'collections.OrderedDict') and not v_.args and not v_.keywords):
                init_fields[st_.targets[0].attr] = v_

    def fresh_self(pol):
        sv = {'__attrs__': ('_operation_policies', '_logger') + tuple(init_fields), '_operation_policies': ({'P': pol} if pol is not None else {}), '_logger': Opaque('logger')}
        for k_, v_ in init_fields.items():
            sv[k_] = v_.value if isinstance(v_, ast.Constant) else ({} if isinstance(v_, ast.Dict) or (isinstance(v_, ast.Call) and call_name(v_) in ('dict', 'collections.OrderedDict')) else (set() if isinstance(v_, ast.Set) or (isinstance(v_, ast.Call) and call_name(v_) == 'set') else []))
        return sv

    def decide_on(selfv, groups, is_owner):
        f = Folder(models={'self._get_enum_string': lambda x: str(x)}, methods=meths, steps=50000)
        # the object belongs to alice; the requester is alice (the owner) or bob
        ident = ('alice' if is_owner else 'bob', None if groups is None else list(groups))
        try:
            return f.call_method(decide, selfv, ['P', ident, 'alice', T, OP], {})
        except Raised as ex:
            return 'raises %s' % ex.name
    try:
        for pname, pol in policies:
            for gname, groups in groupsets:
                for is_owner in (True, False):
                    selfv = fresh_self(pol)
                    got = decide_on(selfv, groups, is_owner)
                    n += 1
                    want = spec(pol, groups, is_owner)
                    if bool(got) is not want or isinstance(got, str):
                        # classes of disagreement (one finding per class, the first combination as witness)
                        if groups and pol and not pol.get('groups') and want and got in (False, None):
                            cls = ('KmipEngine.get_relevant_policy_section|policy exists and group given and not policy has groups -> none', m.method('get_relevant_policy_section'))
                        else:
                            cls = ('KmipEngine._is_allowed_by_operation_policy|decision-table|%s' % ('grants what the table denies' if want is False else 'denies what the table grants'), decide)
                        mism.setdefault(cls[0], (cls[1], '%s; %s; requester is %sthe owner -> %s (table: %s)' % (pname, gname, '' if is_owner else 'not ', got, want), 0))
                        fn_, w_, c_ = mism[cls[0]]
                        mism[cls[0]] = (fn_, w_, c_ + 1)
        # history step: the decision for a request does not depend on what the engine decided before - a different requester, another group
        # list, or the policy store as it was before the monitor replaced / removed the entry.  Each scenario of a reduced set is decided on an engine
        # that first decided a neighbouring scenario (same shared store object, updated in place as the monitor does) and on a fresh one.
        n_h = 0
        small = [(pn_, p_) for pn_, p_ in policies if p_ is None or set(p_) == {'preset'}] + [(pn_, p_) for pn_, p_ in policies if p_ is not None and set(p_) == {'groups'}][:3]
        alt_pols = [(pn_, p_) for pn_, p_ in small if pn_ in ('no such policy', 'preset=ALLOW_ALL', 'preset=ALLOW_OWNER', 'preset=DISALLOW_ALL')]
        for pname, pol in small:
            for gname, groups in groupsets:
                for is_owner in (True, False):
                    want_ = decide_on(fresh_self(pol), groups, is_owner)
                    preds = [(pname, pol, groups, not is_owner, 'another requester'), (pname, pol, (['g1'] if groups != ['g1'] else None), is_owner, 'other group information')]
                    preds += [(apn, ap, groups, is_owner, 'the policy as it was before the store changed') for apn, ap in alt_pols if apn != pname]
                    for ppn, ppol, pgroups, powner, what in preds:
                        selfv = fresh_self(ppol)
                        decide_on(selfv, pgroups, powner)
                        store = selfv['_operation_policies']
                        store.clear()
                        if pol is not None:
                            store['P'] = pol
                        got_ = decide_on(selfv, groups, is_owner)
                        n_h += 1
                        if bool(got_) is not bool(want_) or isinstance(got_, str) != isinstance(want_, str):
                            key_ = 'KmipEngine._is_allowed_by_operation_policy|decision-depends-on-history|%s' % what
                            mism.setdefault(key_, (decide, 'after deciding [%s; %s; requester is %sthe owner] the decision for [%s; %s; requester is %sthe owner] is %s, a fresh engine decides %s' % (
                                ppn, 'groups %s' % pgroups, '' if powner else 'not ', pname, gname, '' if is_owner else 'not ', got_, want_), 0))
                            fn_, w_, c_ = mism[key_]
                            mism[key_] = (fn_, w_, c_ + 1)
        ctx.count('decision_histories_folded', n_h)
    except Unfoldable as ex:
        ctx.note('C03.R5: the decision functions cannot be folded (%s); structural rules used instead' % ex)
        return False
    ctx.count('decision_table_combinations', n, 500)
    if not mism:
        ctx.ok('C03.R5', dsite, 'the access decision agrees with the decision table on all %d combinations of policy shape, group information and ownership' % n)
    for key, (fn_, witness, cnt) in sorted(mism.items()):
        ctx.fail('C03.R5', key, m.site(fn_, fn_), 'the access decision deviates from the decision table of the property on %d of %d model combinations; first: %s' % (cnt, n, witness))
    return True



IDENTITY_SOURCES = ('kmip/services/server/auth/slugs.py', 'kmip/services/server/auth/utils.py', 'kmip/services/server/auth/api.py', 'kmip/services/server/session.py')
IDENTITY_ENGINE_METHODS = ('process_request', '_verify_credential', '_is_allowed_by_operation_policy', 'is_allowed', 'get_relevant_policy_section')


def check_group_information_unchanged(ctx, m):
    """C03.R14: "no group information" (None) and "member of no group" ([]) are never folded into one another on the way to the decision."""
    from ..astutil import all_functions
    ctx.rule('C03.R14', 'between the identity sources (SLUGS connector, certificate helpers, KmipSession.authenticate) and the access decision nothing replaces a falsy value by None or [None] (or None by a list) under a truthiness / emptiness test, as `if not groups: groups = None`, `groups or None`, `x if x else None` do: the decision table treats the identity (user, None) - no group information, the preset section applies - and (user, []) - member of no group, nothing applies - differently, and the only legitimate test is the `is None` test of the decision function itself')
    fns = []
    for rel in IDENTITY_SOURCES:
        for qn, fn, cls in all_functions(ctx.src.tree(rel)):
            fns.append((rel, qn, fn))
    for name in IDENTITY_ENGINE_METHODS:
        if name in m.methods:
            fns.append((ENGINE, 'KmipEngine.' + name, m.methods[name]))
    ctx.count('identity_path_functions', len(fns), 12)

    def noneish(e):
        return (isinstance(e, ast.Constant) and e.value is None) or (isinstance(e, (ast.List, ast.Tuple)) and len(e.elts) == 1 and isinstance(e.elts[0], ast.Constant) and e.elts[0].value is None)

    def emptiness(t):
        """(text of X, True when the test holds for a falsy X) for a truthiness / emptiness test of X"""
        if isinstance(t, ast.UnaryOp) and isinstance(t.op, ast.Not):
            r = emptiness(t.operand)
            return (r[0], not r[1]) if r else None
        if isinstance(t, (ast.Name, ast.Attribute, ast.Subscript)):
            return U(t), False
        if isinstance(t, ast.Call) and call_name(t) == 'len' and len(t.args) == 1:
            return U(t.args[0]), False
        p = cmp_parts(t)
        if p and p[1] in ('Eq', 'NotEq', 'Gt', 'Lt', 'GtE', 'LtE'):
            a, b = p[0], p[2]
            if isinstance(a, ast.Call) and call_name(a) == 'len' and len(a.args) == 1 and isinstance(b, ast.Constant) and b.value in (0, 1):
                return U(a.args[0]), p[1] in ('Eq', 'Lt', 'LtE')
            if isinstance(b, (ast.List, ast.Tuple)) and not b.elts:
                return U(a), p[1] == 'Eq'
        return None
    for rel, qn, fn in fns:
        for n in walk_local(fn):
            bad = None
            if isinstance(n, ast.If):
                e = emptiness(n.test)
                if e:
                    arm = n.body if e[1] else n.orelse
                    for st in arm:
                        if isinstance(st, ast.Assign) and any(U(t_) == e[0] for t_ in st.targets) and noneish(st.value):
                            bad = st
            elif isinstance(n, ast.BoolOp) and isinstance(n.op, ast.Or) and noneish(n.values[-1]) and len(n.values) == 2:
                bad = n
            elif isinstance(n, ast.IfExp):
                e = emptiness(n.test)
                keep_ = n.body if (e and not e[1]) else n.orelse
                # the kept arm is X itself or something made of X (list(X), sorted(X), X[:]): either way a falsy X leaves as None
                if e and noneish(n.orelse if not e[1] else n.body) and (U(keep_) == e[0] or any(U(x_) == e[0] for x_ in ast.walk(keep_))):
                    bad = n
            if bad is not None:
                ctx.fail('C03.R14', '%s|falsy value replaced by None: %s' % (qn, ' '.join(U(bad).split())[:60]), '%s:%s %s' % (rel, bad.lineno, qn),
                         '%s turns a falsy value into None / [None]: an empty group list ("member of no group", nothing granted) reaches the decision as None ("no group information"), for which the preset section of the policy applies' % ' '.join(U(bad).split())[:80])
    if not any(f.rule == 'C03.R14' for f in ctx.findings):
        ctx.ok('C03.R14', 'identity sources and decision functions', '%d functions: no falsy-to-None normalisation' % len(fns))

def run(ctx):
    src = ctx.src
    m = EngineModel(src)
    for rid, text in (
        ('C03.R1', 'the data session is used only for add/commit/query; query occurs only in _get_object_type, the choke point, the lister and the Destroy delete of the access-checked identifier; _get_object_type is called only by the choke point'),
        ('C03.R3', 'every choke-point call passes the operation prescribed for the handler (own operation; GET for cryptographic use and indirect loads); the dispatch table is a bijection'),
        ('C03.R4', 'the choke point (and the lister) hand out an object only on the allowed edge of _is_allowed_by_operation_policy(object policy name, client identity, object owner, object type, operation); the other edge raises PermissionDenied'),
        ('C03.R5', 'decision functions are default-deny: truthy only for ALLOW_ALL, or ALLOW_OWNER with user == owner; missing policy/section/type/operation entries deny; section choice follows the documented table'),
        ('C03.R6', 'denial and not-found use the same message format applied to the requested identifier; nothing of the object flows into either'),
        ('C03.R7', '_owner is stored only by ManagedObject.__init__ (None) and, in creating handlers, on freshly constructed objects from self._client_identity[0]'),
        ('C03.R8', '_client_identity is stored only in __init__, the process_request reset and _verify_credential (from the connection credential parameter)'),
        ('C03.R9', "Locate's result list is derived only from _list_objects_with_access_controls(LOCATE) by filtering, sorting and slicing"),
    ):
        ctx.rule(rid, text)
    hop = m.handler_op()
    ctx.count('handlers', len(hop), 21)

    # ---------------- R1 who touches the store
    n_uses = 0
    query_sites = []
    for name, fn in m.methods.items():
        for n in walk_local(fn):
            if is_self_attr(n, '_data_session') and isinstance(n.ctx, ast.Load):
                n_uses += 1
                p = n._parent
                site = m.site(n, fn)
                if isinstance(p, ast.Attribute) and isinstance(p._parent, ast.Call) and p._parent.func is p:
                    meth = p.attr
                    if meth == 'delete' and len(p._parent.args) == 1 and isinstance(p._parent.args[0], ast.Name) and not p._parent.keywords:
                        # session.delete(obj): allowed for an object that came through the access-control choke point under Operation.DESTROY
                        g_ = CFG(fn)
                        rd_ = ReachingDefs(g_)
                        from ..dataflow import node_of_expr as _noe
                        vals = rd_.values(_noe(g_, p._parent), p._parent.args[0].id)
                        okd = bool(vals) and all(isinstance(v, ast.Call) and U(v.func) == 'self._get_object_with_access_controls' and len(v.args) >= 2
                                                 and enum_member(v.args[1]) == ('Operation', 'DESTROY') for v in vals)
                        ctx.check(okd, 'C03.R1', 'KmipEngine.%s|_data_session.delete' % name, site, 'session.delete of the object the choke point returned for Operation.DESTROY',
                                  'session.delete is applied to an object that did not come through the access-control choke point for Operation.DESTROY')
                    elif meth not in SESSION_METHODS_OK:
                        ctx.fail('C03.R1', 'KmipEngine.%s|_data_session.%s' % (name, meth), site,
                                 'store access through session.%s is outside the reviewed set (add/commit/query)' % meth)
                    elif meth == 'query':
                        query_sites.append((name, fn, p._parent))
                    else:
                        ctx.ok('C03.R1', site, 'session.%s' % meth)
                elif (isinstance(p, ast.Attribute) and p.attr in SESSION_COUNTED_COLLECTIONS and isinstance(p._parent, ast.Call) and isinstance(p._parent.func, ast.Name)
                      and p._parent.func.id == 'len' and p._parent.args == [p]):
                    ctx.ok('C03.R1', site, 'len(session.%s): the size of the pending unit of work, no object leaves the session' % p.attr)
                else:
                    ctx.fail('C03.R1', 'KmipEngine.%s|_data_session-escapes' % name, site,
                             'the data session is used other than by a direct method call (alias or argument): %s' % short(p))
            elif is_self_attr(n) and n.attr in ('_data_store', '_data_store_session_factory') and isinstance(n.ctx, ast.Load):
                okw = name == '__init__' or (name == '_process_batch' and n.attr == '_data_store_session_factory')
                ctx.check(okw, 'C03.R1', 'KmipEngine.%s|%s' % (name, n.attr), m.site(n, fn), 'store/session factory used in %s' % name,
                          'the store engine / session factory is used outside __init__/_process_batch')
    ctx.count('data_session_uses', n_uses, 15)
    ctx.count('query_sites', len(query_sites), 3)
    allowed_q = {'_get_object_type', CHOKE, LISTER, '_process_destroy'}
    for name, fn, call in query_sites:
        site = m.site(call, fn)
        if name not in allowed_q:
            ctx.fail('C03.R1', 'KmipEngine.%s|query' % name, site, 'object store queried outside the access-control choke point: %s' % short(call))
            continue
        if name == '_process_destroy':
            # must be query(ManagedObject).filter(ManagedObject.unique_identifier == <uid>).delete() with <uid> the access-checked identifier
            chain = call
            steps = []
            while isinstance(chain._parent, ast.Attribute) and isinstance(chain._parent._parent, ast.Call):
                steps.append(chain._parent.attr)
                chain = chain._parent._parent
            g = CFG(fn)
            rd = ReachingDefs(g)
            node = node_of_expr(g, chain)
            ok = steps == ['filter', 'delete']
            uidv = None
            if ok:
                filt = [c for c in ast.walk(chain) if isinstance(c, ast.Call) and isinstance(c.func, ast.Attribute) and c.func.attr == 'filter'][0]
                p = cmp_parts(filt.args[0]) if filt.args else None
                ok = bool(p) and p[1] == 'Eq' and U(p[0]).endswith('.unique_identifier') and isinstance(p[2], ast.Name)
                uidv = p[2].id if ok else None
            if ok:
                loads = [(n, c) for n, c in call_nodes(g, 'self.' + CHOKE)]
                ok = any(isinstance(c.args[0], ast.Name) and c.args[0].id == uidv and enum_member(c.args[1]) == ('Operation', 'DESTROY')
                         and g.dominates(n, node) and set(map(id, [d[2] for d in rd.reaching(n, uidv)])) == set(map(id, [d[2] for d in rd.reaching(node, uidv)]))
                         for n, c in loads)
            ctx.check(ok, 'C03.R1', 'KmipEngine._process_destroy|delete-access-checked', site,
                      'delete filters on the identifier that was loaded under Operation.DESTROY', 'the Destroy delete is not restricted to the identifier that passed the DESTROY access check')
        else:
            ctx.ok('C03.R1', site, 'query inside %s' % name)
    callers = [(n, c) for n, fn in m.methods.items() for c2, c in m.self_calls(fn) if c2 == '_get_object_type' for n in [n]]
    ctx.check(sorted(set(n for n, c in callers)) == [CHOKE], 'C03.R1', 'KmipEngine._get_object_type|callers', m.site(m.method('_get_object_type'), m.method('_get_object_type')),
              '_get_object_type is called only by the choke point', '_get_object_type is called from %s' % sorted(set(n for n, c in callers)))
    # no other module of the server package reaches into the store
    for rel in src.modules('kmip/services/server'):
        if rel == ENGINE:
            continue
        t = src.tree(rel)
        bad = [n for n in ast.walk(t) if isinstance(n, ast.Attribute) and n.attr in ('_data_session', '_data_store', '_data_store_session_factory', CHOKE, LISTER, '_get_object_type')]
        ctx.check(not bad, 'C03.R1', '%s|store-access' % rel, rel, 'no store access outside engine.py', 'store access outside the engine: %s' % [(b.lineno, U(b)) for b in bad])

    # ---------------- R3 operation argument
    cg = m.callgraph()
    n_loads = 0
    for name, fn in sorted(m.methods.items()):
        loads = m.load_sites(fn)
        if not loads:
            continue
        # handlers from which this method is reachable
        hs = [h for h in hop if name in m.reach(h)]
        for c in loads:
            n_loads += 1
            site = m.site(c, fn)
            b = bind_args(m.method(CHOKE), c)
            opm = enum_member(b.get('operation')) if b.get('operation') is not None else None
            if not hs:
                ctx.fail('C03.R3', 'KmipEngine.%s|load-outside-handlers' % name, site, 'access-controlled load in a method no handler reaches')
                continue
            if opm is None or opm[0] != 'Operation':
                ctx.fail('C03.R3', 'KmipEngine.%s|non-constant-operation' % name, site, 'the operation presented to the choke point is not an Operation constant: %s' % U(b.get('operation')))
                continue
            for h in hs:
                want = T_ACCESS_OP.get(hop[h], hop[h])
                ctx.check(opm[1] == want, 'C03.R3', 'KmipEngine.%s|op-for-%s' % (name, hop[h]), site,
                          '%s loads under Operation.%s' % (hop[h], want),
                          'handler for %s checks access for Operation.%s; the policy model requires Operation.%s' % (hop[h], opm[1], want))
    ctx.count('load_sites', n_loads, 10)
    lister_calls = [(n, c) for n, fn in m.methods.items() for c in walk_local(fn) if isinstance(c, ast.Call) and is_self_attr(c.func, LISTER)]
    ctx.count('list_sites', len(lister_calls))
    ctx.check(len(lister_calls) >= 1, 'C03.R3', 'KmipEngine|filtered-lister-unused', m.site(m.method(LISTER), m.method(LISTER)), 'the access-filtered lister is used', 'no handler obtains its candidates from the access-filtered lister')
    for n, c in lister_calls:
        om = enum_member(c.args[0]) if c.args else None
        hs = [h for h in hop if n in m.reach(h)]
        ctx.check(om is not None and all(om[1] == T_ACCESS_OP.get(hop[h], hop[h]) for h in hs) and hs, 'C03.R3', 'KmipEngine.%s|list-op' % n, m.site(c, m.methods[n]),
                  'list filtered under Operation.%s' % (om[1] if om else '?'), 'objects are listed under %s, not the handler operation' % U(c.args[0] if c.args else None))

    # ---------------- R4 choke point and lister bodies
    check_decision_points(ctx, m, 'C03.R4', (CHOKE, LISTER))
    decide = m.method('_is_allowed_by_operation_policy')

    # ---------------- R5 decision table (by folding over a finite model of policies, groups and owners; the spelling-based
    #                  analysis below is the fallback when the functions use something the folder does not model)
    if not fold_decision_table(ctx, m):
        # ---------------- R5 decision trees
        ia = m.method('is_allowed')
        g = CFG(ia)
        rd = ReachingDefs(g)
        ips = params(ia)
        isite = m.site(ia, ia)

        def chain_of(var, node):
            """Follow single reaching definitions X = Y.get(K) -> list of keys, root expression."""
            keys = []
            cur, nd = var, node
            for _ in range(6):
                vals = rd.reaching(nd, cur)
                if len(vals) != 1 or not isinstance(vals[0][1], ast.Call):
                    return keys, cur
                c = vals[0][1]
                if isinstance(c.func, ast.Attribute) and c.func.attr == 'get' and isinstance(c.func.value, ast.Name) and c.args:
                    keys.append(U(c.args[0]))
                    cur, nd = c.func.value.id, vals[0][2]
                elif call_name(c) == 'self.get_relevant_policy_section':
                    keys.append('section(%s)' % ','.join(U(a) for a in c.args))
                    return keys, 'ROOT'
                else:
                    return keys, cur
            return keys, cur
        n_ret = 0
        for pn, lab in g.exit.pred:
            s = pn.stmt
            n_ret += 1
            rs = m.site(s, ia) if s is not None else isite
            if not isinstance(s, ast.Return):
                ctx.fail('C03.R5', 'KmipEngine.is_allowed|falls-off', rs, 'is_allowed can fall off its end')
                continue
            v = s.value
            edges = dominating_edges(g, pn)
            pol = None       # policy constant established on this path
            owner = False
            polvar_ok = False
            for t, l2 in edges:
                p = cmp_parts(t.stmt)
                if p and p[1] == 'Eq' and l2 == 'T':
                    em = enum_member(p[2], 'Policy')
                    if em and isinstance(p[0], ast.Name):
                        keys, root = chain_of(p[0].id, t)
                        if root == 'ROOT' and keys[:2] == [ips[5], ips[4]] and keys[2] == 'section(%s,%s)' % (ips[0], ips[2]):
                            pol = em[1]
                    if isinstance(p[0], ast.Name) and isinstance(p[2], ast.Name) and {p[0].id, p[2].id} == {ips[1], ips[3]}:
                        if all(d[2] is None for d in rd.reaching(t, p[0].id) + rd.reaching(t, p[2].id)):
                            owner = True
            if isinstance(v, ast.Constant) and v.value in (False, None):
                ctx.ok('C03.R5', rs, 'deny')
                continue
            if isinstance(v, ast.Constant) and v.value is True:
                ok = pol == 'ALLOW_ALL' or (pol == 'ALLOW_OWNER' and owner)
                ctx.check(ok, 'C03.R5', 'KmipEngine.is_allowed|grant@%s' % ('/'.join(sorted(set(U(t.stmt) + ':' + l for t, l in edges)))[:120]), rs,
                          'grant under %s%s' % (pol, ' and user == owner' if owner else ''),
                          'is_allowed grants access on a path that establishes neither ALLOW_ALL nor (ALLOW_OWNER and user == owner); guards: %s'
                          % [(short(t.stmt, 50), l) for t, l in edges])
                continue
            # return of an expression: only the owner comparison under ALLOW_OWNER is a recognised grant form
            p = cmp_parts(v)
            ok = bool(p) and p[1] == 'Eq' and isinstance(p[0], ast.Name) and isinstance(p[2], ast.Name) and {p[0].id, p[2].id} == {ips[1], ips[3]} and pol == 'ALLOW_OWNER'
            ctx.check(ok, 'C03.R5', 'KmipEngine.is_allowed|return-expr %s' % short(v, 60), rs, 'returns user == owner under ALLOW_OWNER',
                      'is_allowed returns a non-constant value that is not the owner comparison under ALLOW_OWNER: %s' % short(v))
        ctx.count('is_allowed_returns', n_ret, 5)
        # every missing-entry test must lead to deny: all tests on the lookup chain variables: falsy edge cannot reach a grant
        grants = [pn for pn, l in g.exit.pred if isinstance(pn.stmt, ast.Return) and not (isinstance(pn.stmt.value, ast.Constant) and pn.stmt.value.value in (False, None))]
        for var_role in ('policy_section', 'object_policy', 'operation_object_policy'):
            pass
        lookups = [n for n in g.nodes if n.kind == 'stmt' and isinstance(n.stmt, ast.Assign) and isinstance(n.stmt.value, ast.Call)
                   and (call_name(n.stmt.value) == 'self.get_relevant_policy_section' or (isinstance(n.stmt.value.func, ast.Attribute) and n.stmt.value.func.attr == 'get'))]
        ctx.count('policy_lookups', len(lookups), 3)
        for ln in lookups:
            var = ln.stmt.targets[0].id
            guarded = False
            for t in g.nodes:
                if t.kind != 'test':
                    continue
                isnone = is_none_test(t.stmt)
                falsy_label = None
                if isinstance(t.stmt, ast.Name) and t.stmt.id == var:
                    falsy_label = 'F'
                elif isnone and isinstance(isnone[1], ast.Name) and isnone[1].id == var:
                    falsy_label = 'T' if isnone[0] == 'is' else 'F'
                if falsy_label and g.dominates(ln, t):
                    succ = edge_successors(t, falsy_label)
                    if all(not any(gr.id in g.reachable(s_) for gr in grants) for s_ in succ):
                        # and every grant is dominated by the opposite edge
                        if all(g.edge_dominates(t, 'T' if falsy_label == 'F' else 'F', gr) for gr in grants):
                            guarded = True
            ctx.check(guarded, 'C03.R5', 'KmipEngine.is_allowed|missing-%s-denies' % var, m.site(ln.stmt, ia),
                      'a missing %s entry cannot reach a grant' % var, 'a missing/empty %s does not force a deny before a grant can be returned' % var)

        # get_relevant_policy_section as a decision tree over atoms
        gs = m.method('get_relevant_policy_section')
        gg = CFG(gs)
        grd = ReachingDefs(gg)
        gps = params(gs)
        gsite = m.site(gs, gs)

        def classify_value(v, node):
            if v is None or (isinstance(v, ast.Constant) and v.value is None):
                return 'none'
            if isinstance(v, ast.Call) and isinstance(v.func, ast.Attribute) and v.func.attr == 'get' and v.args and isinstance(v.args[0], ast.Constant) and v.args[0].value == 'preset':
                return 'preset'
            if isinstance(v, ast.Name):
                vals = grd.values(node, v.id)
                if len(vals) == 1 and isinstance(vals[0], ast.Call) and isinstance(vals[0].func, ast.Attribute) and vals[0].func.attr == 'get':
                    c = vals[0]
                    if c.args and isinstance(c.args[0], ast.Name) and c.args[0].id == gps[1]:
                        return 'group-section'
                    if c.args and isinstance(c.args[0], ast.Constant) and c.args[0].value == 'preset':
                        return 'preset'
            return 'other:' + U(v)

        def atom_of(test, node):
            """-> atom in {'B' bundle exists,'G' group given,'H' policy has groups,'P' group section exists} or None"""
            if isinstance(test, ast.Name):
                if test.id == gps[1]:
                    return 'G'
                vals = grd.values(node, test.id)
                if len(vals) == 1 and isinstance(vals[0], ast.Call) and isinstance(vals[0].func, ast.Attribute) and vals[0].func.attr == 'get' and vals[0].args:
                    a = vals[0].args[0]
                    if isinstance(a, ast.Name) and a.id == gps[0] and U(vals[0].func.value) == 'self._operation_policies':
                        return 'B'
                    if isinstance(a, ast.Constant) and a.value == 'groups':
                        return 'H'
                    if isinstance(a, ast.Name) and a.id == gps[1]:
                        return 'P'
            nt = is_none_test(test)
            if nt:
                a = atom_of(nt[1], node)
                return a
            return None
        rows = []
        for pn, lab in gg.exit.pred:
            s = pn.stmt
            if not isinstance(s, ast.Return):
                ctx.fail('C03.R5', 'KmipEngine.get_relevant_policy_section|falls-off', gsite, 'function can fall off its end')
                continue
            cond = {}
            for t, l2 in dominating_edges(gg, pn):
                a = atom_of(t.stmt, t)
                if a is None:
                    raise AnalysisError('unrecognised construct: guard %s in get_relevant_policy_section' % short(t.stmt))
                nt = is_none_test(t.stmt)
                val = (l2 == 'T')
                if nt and nt[0] == 'is':
                    val = not val
                cond[a] = val
            rows.append((cond, classify_value(s.value, pn), s))
        ctx.count('policy_section_returns', len(rows), 3)
        T_SECTION = {}   # (B,G,H,P) -> expected
        for B, G, H, P in itertools.product((True, False), repeat=4):
            if not B:
                exp = 'none'
            elif G and H:
                exp = 'group-section' if P else 'none'
            else:
                exp = 'preset'      # no group information, or group information but the policy defines no groups (docs/source/server.rst)
            T_SECTION[(B, G, H, P)] = exp
        mismatches = {}
        for key, exp in sorted(T_SECTION.items()):
            asg = dict(zip('BGHP', key))
            hit = [r for r in rows if all(asg[a] == v for a, v in r[0].items())]
            if len(hit) != 1:
                raise AnalysisError('unrecognised construct: decision tree of get_relevant_policy_section is not a partition (assignment %s matches %d returns)' % (asg, len(hit)))
            got = hit[0][1]
            if got == 'group-section' and not asg['P']:
                got = 'none'    # returning the (falsy) lookup result is a deny
            if got != exp:
                mismatches.setdefault((tuple(sorted(hit[0][0].items())), got, exp), []).append(asg)
        n_ok = len(T_SECTION) - sum(len(v) for v in mismatches.values())
        for i in range(n_ok):
            pass
        ctx.ok('C03.R5', gsite, '%d of %d atom assignments select the documented section' % (n_ok, len(T_SECTION)))
        for (cond, got, exp), asgs in sorted(mismatches.items(), key=str):
            desc = ' and '.join(('' if v else 'not ') + {'B': 'policy exists', 'G': 'group given', 'H': 'policy has groups', 'P': 'group section exists'}[a] for a, v in cond)
            ctx.fail('C03.R5', 'KmipEngine.get_relevant_policy_section|%s -> %s' % (desc, got), gsite,
                     'policy section choice deviates from the documented table: when %s the function yields %s, expected %s' % (desc, got, exp), assignments=asgs)
        # _is_allowed_by_operation_policy
        df = decide
        dg = CFG(df)
        drd = ReachingDefs(dg)
        dps = params(df)
        dsite = m.site(df, df)
        ok = True
        why = ''
        grants_ = []
        for pn, lab in dg.exit.pred:
            s = pn.stmt
            if not isinstance(s, ast.Return):
                ok = False
                why = 'falls off'
                continue
            if isinstance(s.value, ast.Constant) and s.value.value in (False, None):
                continue
            if isinstance(s.value, ast.Constant) and s.value.value is True:
                est = False
                for t, l2 in dominating_edges(dg, pn):
                    if isinstance(t.stmt, ast.Name) and l2 == 'T':
                        vals = drd.values(t, t.stmt.id)
                        if len(vals) == 1 and isinstance(vals[0], ast.Call) and call_name(vals[0]) == 'self.is_allowed':
                            b = bind_args(ia, vals[0])
                            okb = all(isinstance(b.get(x), ast.Name) for x in ips)
                            if okb:
                                okb = b[ips[0]].id == dps[0] and b[ips[3]].id == dps[2] and b[ips[4]].id == dps[3] and b[ips[5]].id == dps[4]
                                uv = drd.values(t, b[ips[1]].id)
                                okb = okb and len(uv) == 1 and U(uv[0]) == '%s[0]' % dps[1]
                                gv = drd.values(t, b[ips[2]].id)
                                okb = okb and len(gv) == 1 and isinstance(gv[0], tuple) and gv[0][0] == 'iter'
                                if okb:
                                    itv = gv[0][1]
                                    srcs = drd.values([d for d in drd.reaching(t, b[ips[2]].id)][0][2], itv.id) if isinstance(itv, ast.Name) else []
                                    okb = bool(srcs) and all(U(x) in ('%s[1]' % dps[1], '[None]') for x in srcs if isinstance(x, ast.AST)) and all(isinstance(x, ast.AST) for x in srcs)
                            est = est or okb
                if not est:
                    ok = False
                    why = 'grant at line %s not backed by is_allowed(policy, user, group, owner, type, operation)' % s.lineno
            else:
                ok = False
                why = 'returns %s' % short(s.value)
        ctx.check(ok, 'C03.R5', 'KmipEngine._is_allowed_by_operation_policy|grant-iff-some-group-allowed', dsite,
                  'True only when is_allowed(...) holds for the user and one of the session groups ([None] when no group information)',
                  'the group loop can grant without a true is_allowed verdict: %s' % why)

    # ---------------- R6 masking
    cp = m.method(CHOKE)
    got = m.method('_get_object_type')

    def msg_of(fn, excname):
        out = []
        for n in walk_local(fn):
            if isinstance(n, ast.Raise) and isinstance(n.exc, ast.Call) and call_name(n.exc) == excname and n.exc.args:
                out.append(n.exc.args[0])
        return out
    pd = msg_of(cp, 'exceptions.PermissionDenied')
    nf = msg_of(got, 'exceptions.ItemNotFound')
    okm = len(pd) == 1 and len(nf) == 1

    def fmt_parts(e):
        if isinstance(e, ast.Call) and isinstance(e.func, ast.Attribute) and e.func.attr == 'format' and isinstance(e.func.value, ast.Constant):
            return e.func.value.value, [U(a) for a in e.args]
        if isinstance(e, ast.BinOp) and isinstance(e.op, ast.Mod) and isinstance(e.left, ast.Constant):
            return e.left.value, [U(e.right)]
        if isinstance(e, ast.Constant):
            return e.value, []
        return None
    if okm:
        a, b = fmt_parts(pd[0]), fmt_parts(nf[0])
        okm = bool(a) and bool(b) and a[0] == b[0] and a[1] == [params(cp)[0]] and b[1] == [params(got)[0]]
    ctx.check(okm, 'C03.R6', 'KmipEngine|denial-text-equals-not-found-text', m.site(cp, cp),
              'PermissionDenied and ItemNotFound use the same format on the requested identifier', 'the denial message differs from the not-found message (or includes more than the requested identifier)')

    # ---------------- R7 owner write-set
    n_owner = 0
    for rel in src.modules('kmip', demos=True):
        t = src.tree(rel)
        for q, fn, cls in all_functions(t):
            for n in walk_local(fn):
                tgt = None
                if isinstance(n, ast.Attribute) and n.attr == '_owner' and isinstance(n.ctx, (ast.Store, ast.Del)):
                    tgt = n
                elif isinstance(n, ast.Call) and call_name(n) == 'setattr' and len(n.args) >= 2 and not (isinstance(n.args[1], ast.Constant) and n.args[1].value != '_owner'):
                    if isinstance(n.args[1], ast.Constant):
                        tgt = n
                if tgt is None:
                    continue
                n_owner += 1
                site = '%s:%s %s' % (rel, n.lineno, q)
                if rel == PIEOBJ and q.endswith('.__init__') and is_self_attr(n) and isinstance(n._parent, ast.Assign) and isinstance(n._parent.value, ast.Constant) and n._parent.value.value is None:
                    ctx.ok('C03.R7', site, 'initialised to None')
                    continue
                ok = False
                if rel == ENGINE and cls is not None and cls.name == 'KmipEngine' and isinstance(n, ast.Attribute) and isinstance(n.value, ast.Name) and isinstance(n._parent, ast.Assign):
                    g2 = CFG(fn)
                    rd2 = ReachingDefs(g2)
                    node = node_of_expr(g2, n._parent)
                    vals = rd2.values(node, n.value.id)
                    fresh = bool(vals) and all(isinstance(v, ast.Call) and ((call_name(v) or '').startswith('objects.') or (isinstance(v.func, ast.Attribute) and v.func.attr == 'convert')) for v in vals)
                    from ..dataflow import resolve
                    oval, _on = resolve(rd2, node, n._parent.value)       # a hoisted `owner = self._client_identity[0]` is the same value
                    ok = fresh and U(oval) == 'self._client_identity[0]' and fn.name in hop
                ctx.check(ok, 'C03.R7', '%s|_owner-store' % q, site, 'owner of a freshly constructed object set from the client identity',
                          'the owner of an object is (re)assigned outside object creation, or not from the authenticated client identity')
    ctx.count('owner_stores', n_owner)
    ctx.check(n_owner >= 1, 'C03.R7', 'kmip|owner-never-set', ENGINE, 'the owner field is assigned at object creation', 'no code sets the owner of new objects')

    # ---------------- R8 identity write-set
    fe = m.field_effects()
    n_id = 0
    for meth, (r, w) in sorted(fe.items()):
        for n in w.get('_client_identity', []):
            n_id += 1
            site = m.site(n, m.methods[meth])
            p = n._parent
            val = p.value if isinstance(p, ast.Assign) else None
            if meth in ('__init__', 'process_request'):
                ok = isinstance(val, ast.List) and all(isinstance(e, ast.Constant) and e.value is None for e in val.elts)
                ctx.check(ok, 'C03.R8', 'KmipEngine.%s|_client_identity-reset' % meth, site, 'reset to [None, None]', 'identity is set to %s in %s' % (U(val), meth))
            elif meth == '_verify_credential':
                vp = params(m.methods[meth])
                ok = isinstance(val, ast.Name) and val.id == vp[1]
                # call site binds it to process_request's credential parameter
                pr = m.method('process_request')
                cs = [c for c2, c in m.self_calls(pr) if c2 == '_verify_credential']
                prp = params(pr)
                ok = ok and len(cs) == 1 and isinstance(bind_args(m.methods[meth], cs[0]).get(vp[1]), ast.Name) and bind_args(m.methods[meth], cs[0])[vp[1]].id == prp[1]
                callers_ = [n2 for n2, f2 in m.methods.items() for c2, c in m.self_calls(f2) if c2 == '_verify_credential']
                ok = ok and callers_ == ['process_request']
                ctx.check(ok, 'C03.R8', 'KmipEngine._verify_credential|identity-from-connection-credential', site,
                          'identity = the credential the session established (process_request parameter)', 'the client identity is not taken from the session-established credential')
            else:
                ctx.fail('C03.R8', 'KmipEngine.%s|_client_identity-store' % meth, site, 'the client identity is assigned in %s' % meth)
    ctx.count('identity_stores', n_id, 1)

    # ---------------- R9 Locate provenance
    loc = m.method('_process_locate')
    lsite = m.site(loc, loc)
    assigns = {}
    for n in walk_local(loc):
        if isinstance(n, ast.Assign) and len(n.targets) == 1 and isinstance(n.targets[0], ast.Name):
            assigns.setdefault(n.targets[0].id, []).append(n.value)
    appends = {}
    for n in walk_local(loc):
        if isinstance(n, ast.Call) and isinstance(n.func, ast.Attribute) and n.func.attr in ('append', 'extend', 'insert') and isinstance(n.func.value, ast.Name):
            appends.setdefault(n.func.value.id, []).append(n)
    loopvars = {}
    for n in walk_local(loc):
        if isinstance(n, ast.For) and isinstance(n.target, ast.Name):
            loopvars.setdefault(n.target.id, []).append(n.iter)
        if isinstance(n, (ast.ListComp, ast.GeneratorExp)):
            for gen in n.generators:
                if isinstance(gen.target, ast.Name):
                    loopvars.setdefault(gen.target.id, []).append(gen.iter)
    resp = [c for c in walk_local(loc) if isinstance(c, ast.Call) and (call_name(c) or '').endswith('LocateResponsePayload')]
    ctx.need(len(resp) == 1, 'unrecognised construct: LocateResponsePayload construction')
    arg = [k.value for k in resp[0].keywords if k.arg == 'unique_identifiers']
    ctx.need(len(arg) == 1, 'unrecognised construct: unique_identifiers= argument')
    derived_memo = {}

    def derived_list(e, depth=0):
        """e evaluates to a list all of whose elements come from the access-filtered lister."""
        if depth > 12:
            return False
        if isinstance(e, ast.Call) and is_self_attr(e.func, LISTER):
            return True
        if isinstance(e, ast.Name):
            if e.id in derived_memo:
                return derived_memo[e.id]
            derived_memo[e.id] = True    # optimistic for cycles (managed_objects = managed_objects[...])
            ok = bool(assigns.get(e.id)) and all(derived_list(v, depth + 1) for v in assigns.get(e.id, []))
            for a in appends.get(e.id, []):
                ok = ok and a.func.attr == 'append' and derived_elem(a.args[0], depth + 1)
            derived_memo[e.id] = ok
            return ok
        if isinstance(e, ast.Call) and call_name(e) in ('sorted', 'list', 'reversed') and e.args:
            return derived_list(e.args[0], depth + 1)
        if isinstance(e, ast.Subscript) and isinstance(e.slice, ast.Slice):
            return derived_list(e.value, depth + 1)
        if isinstance(e, (ast.List,)) and not e.elts:
            return True
        if isinstance(e, ast.Call) and call_name(e) == 'list' and not e.args:
            return True
        if isinstance(e, ast.ListComp) and len(e.generators) == 1:
            return derived_list(e.generators[0].iter, depth + 1) and derived_elem(e.elt, depth + 1)
        return False

    def derived_elem(e, depth=0):
        if isinstance(e, ast.Name):
            its = loopvars.get(e.id, [])
            return bool(its) and not assigns.get(e.id) and all(derived_list(i, depth + 1) for i in its)
        return False
    a = arg[0]
    ok9 = False

    def id_of_derived(e):
        """str(<v>.unique_identifier) with v an element of a list derived from the access-filtered lister"""
        return isinstance(e, ast.Call) and call_name(e) == 'str' and len(e.args) == 1 and isinstance(e.args[0], ast.Attribute) \
            and e.args[0].attr == 'unique_identifier' and isinstance(e.args[0].value, ast.Name) and derived_elem(e.args[0].value)
    if isinstance(a, ast.Name):
        vals = assigns.get(a.id, [])
        ok9 = bool(vals)
        for v in vals:
            if isinstance(v, ast.ListComp) and len(v.generators) == 1:
                ok9 = ok9 and derived_list(v.generators[0].iter) and id_of_derived(v.elt)
            elif (isinstance(v, ast.List) and not v.elts) or (isinstance(v, ast.Call) and call_name(v) == 'list' and not v.args):
                pass
            else:
                ok9 = False
        for ap_ in appends.get(a.id, []):
            ok9 = ok9 and ap_.func.attr == 'append' and len(ap_.args) == 1 and id_of_derived(ap_.args[0])
        ok9 = ok9 and (any(isinstance(v, ast.ListComp) for v in vals) or bool(appends.get(a.id)))
    ctx.check(ok9, 'C03.R9', 'KmipEngine._process_locate|result-provenance', lsite,
              'returned identifiers are str(x.unique_identifier) of elements derived from the access-filtered list only',
              'Locate can return identifiers that do not come from the access-filtered list')
    check_policy_table_freshness(ctx)
    check_group_information_unchanged(ctx, m)
    # ---------------- R13 (lifted from C10)
    ctx.rule('C03.R13', "the identity an access decision is taken under is the requester's: the request prologue that stores the client identity and every decision that reads it run inside one critical section (lifted from C10.R1/R2) - otherwise a concurrently served session's header replaces the identity between the prologue and the batch, and objects are handed to (or created for) the wrong user")
    from ..report import Ctx as _LCtx, run_lifted as _run_lifted
    from . import c10 as _c10
    _sub = _LCtx('C10', 'quick', ctx.src, 0)
    _run_lifted(ctx, _c10, _sub)
    _lift = [f for f in _sub.findings if f.rule in ('C10.R1', 'C10.R2')]
    for f in _lift:
        ctx.fail('C03.R13', f.key, f.site, f.message)
    if not _lift:
        ctx.ok('C03.R13', 'lifted from C10', 'process_request, including the store of the client identity, is synchronised')
    # ---------------- R11 a handler around an access-controlled load treats "denied" and "absent" alike
    ctx.rule('C03.R11', 'where a call of the access-control choke point sits inside a try, the except arm that answers ItemNotFound is the same arm that answers PermissionDenied (or neither is caught): otherwise a denied indirect load (e.g. the wrapping key of Get) is answered differently from an absent one and reveals that the object exists')
    n_t = 0
    for name, fn in sorted(m.methods.items()):
        g11 = CFG(fn)
        for n, c in call_nodes(g11, 'self.' + CHOKE):
            if not n.tries:
                continue
            n_t += 1
            def arm_for(exc):
                for t in reversed(n.tries):
                    for h in t.handlers:
                        cc = handler_catches(h)
                        if '*' in cc or any(x.split('.')[-1] in (exc, 'KmipError') for x in cc):
                            return h
                return None
            a, b = arm_for('ItemNotFound'), arm_for('PermissionDenied')
            ctx.check(a is b, 'C03.R11', 'KmipEngine.%s|denied-and-absent-same-arm' % name, m.site(c, fn), 'ItemNotFound and PermissionDenied of this load are handled by the same arm' if a is not None else 'neither is caught here',
                      'ItemNotFound from this load is handled at line %s but PermissionDenied %s: the two outcomes reach the client with different reasons/messages' % (
                          getattr(a, 'lineno', None), ('at line %s' % b.lineno) if b is not None else 'propagates unchanged'))
    ctx.analysed['choke_point_calls_inside_try'] = n_t
    # ---------------- R12 the policy table the decisions read is kept in step with the policy files (lifted from C18)
    ctx.rule('C03.R12', 'the policy store the access decisions read never keeps a definition that no file provides any more: the monitor\'s shadow-stack maintenance rules hold (lifted from C18.R5-R10: restore after disassociate, no stale snapshots, no modification while iterating, reload drops stale shadow entries, the engine consults the store on every decision) - a permissive definition resurrected from a deleted file would grant what no policy grants')
    from ..report import Ctx as _LCtx
    from . import c18 as _c18
    _sub = _LCtx('C18', 'quick', ctx.src, 0)
    from ..report import run_lifted as _run_lifted
    _run_lifted(ctx, _c18, _sub)
    _lifted = [f for f in _sub.findings if f.rule in ('C18.R5', 'C18.R6', 'C18.R7', 'C18.R8', 'C18.R9', 'C18.R10')]
    for f in _lifted:
        ctx.fail('C03.R12', f.key, f.site, f.message)
    if not _lifted:
        ctx.ok('C03.R12', 'kmip/services/server/monitor.py', 'shadow-stack maintenance rules of the policy monitor hold')
    ctx.not_decided += ["SQLAlchemy filter(...).one() returning the row with that identifier", 'the content of operation policies at run time']
    ctx.assumptions += ['pie objects are only obtainable from the session (queries) or constructors', 'T_ACCESS_OP transcribes the property statement and the KMIP policy model']
