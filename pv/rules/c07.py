"""C07 - unique identifiers are never reused; a destroyed identifier stays dead."""
import ast

from ..astutil import U, dotted, walk_local, is_self_attr, call_name, short, enum_member, all_functions, params, kwarg
from ..cfg import CFG, calls_at
from ..dataflow import ReachingDefs, node_of_expr
from ..guards import call_nodes, cmp_parts
from ..engmodel import EngineModel, ENGINE, PIEOBJ
from ..piemodel import PieModel
from ..source import AnalysisError

EXPLANATION = (
    "Structural analysis of the identifier mechanism: the base table's primary key is an AUTOINCREMENT integer column and every subclass table "
    "keys on a foreign key to its parent; no code stores unique_identifier on a stored object except the constructor's None; Destroy deletes "
    "the base row selected by the access-checked identifier and commits on every path to its normal return; creating handlers read the new "
    "identifier only after the commit of the object they add()ed; lookups filter on equality with the requested identifier and demand exactly "
    "one row. Non-reuse itself is SQLite's AUTOINCREMENT guarantee (trusted); behaviour across kill/restart is not decided.")

FACTORY = 'kmip/pie/factory.py'


def run(ctx):
    src = ctx.src
    m = EngineModel(src)
    pie = PieModel(src)
    for rid, text in (
        ('C07.R1', "ManagedObject's table is AUTOINCREMENT with integer primary key 'uid'; each subclass table's uid is a primary-key foreign key to its parent table"),
        ('C07.R2', 'unique_identifier of a stored object is assigned nowhere except ManagedObject.__init__ (None): identifiers come only from the database'),
        ('C07.R3', 'Destroy deletes the base row of the access-checked identifier and commits, on every path to its normal return'),
        ('C07.R4', 'creating handlers read <new object>.unique_identifier only after the commit that follows its add()'),
        ('C07.R5', '_get_object_type selects by equality with the requested identifier and demands exactly one row; a missing row raises ItemNotFound'),
    ):
        ctx.rule(rid, text)
    # ---------------- R1
    mo = pie.classes.get('ManagedObject')
    ctx.need(mo is not None, 'anchor vanished: pie ManagedObject')
    stored = [c for c in pie.classes if pie.issub(c, 'ManagedObject')]
    ctx.count('managed_object_classes', len(stored), 11)
    tablenames = {}
    for c in stored:
        f = pie.own_fields(c)
        tn = f.get('__tablename__')
        if isinstance(tn, ast.Assign) and isinstance(tn.value, ast.Constant):
            tablenames[c] = tn.value.value
    for c in stored:
        f = pie.own_fields(c)
        site = '%s:%s %s' % (PIEOBJ, pie.classes[c].lineno, c)
        ta = f.get('__table_args__')
        auto = False
        if isinstance(ta, ast.Assign) and isinstance(ta.value, ast.Dict):
            for k, v in zip(ta.value.keys, ta.value.values):
                if isinstance(k, ast.Constant) and k.value == 'sqlite_autoincrement' and isinstance(v, ast.Constant) and v.value is True:
                    auto = True
        uid = f.get('unique_identifier')
        col = uid.value if isinstance(uid, ast.Assign) and isinstance(uid.value, ast.Call) and (call_name(uid.value) or '').endswith('Column') else None
        if c == 'ManagedObject':
            okc = col is not None and any(isinstance(a, ast.Constant) and a.value == 'uid' for a in col.args) and any((dotted(a) or '').endswith('Integer') for a in col.args) \
                and isinstance(kwarg(col, 'primary_key'), ast.Constant) and kwarg(col, 'primary_key').value is True \
                and not any(isinstance(a, ast.Call) and (call_name(a) or '').endswith('ForeignKey') for a in col.args)
            ctx.check(auto, 'C07.R1', 'ManagedObject|sqlite_autoincrement', site, "__table_args__ has 'sqlite_autoincrement': True",
                      'the base table is not AUTOINCREMENT: SQLite may reuse the rowid of a deleted object')
            ctx.check(okc, 'C07.R1', 'ManagedObject|uid-primary-key', site, "unique_identifier = Column('uid', Integer, primary_key=True)", 'the base identifier column is not an integer primary key named uid')
        else:
            parents = [b for b in pie.bases(c) if b in stored]
            fk = None
            if col is not None:
                for a in col.args:
                    if isinstance(a, ast.Call) and (call_name(a) or '').endswith('ForeignKey') and a.args and isinstance(a.args[0], ast.Constant):
                        fk = a.args[0].value
            pk = col is not None and isinstance(kwarg(col, 'primary_key'), ast.Constant) and kwarg(col, 'primary_key').value is True
            want = '%s.uid' % tablenames.get(parents[0]) if parents else None
            ctx.check(col is not None and pk and fk == want, 'C07.R1', '%s|uid-foreign-key' % c, site, 'uid is a primary-key foreign key to %s' % want,
                      'subclass table identifier is not a primary-key foreign key to its parent table (%s, expected %s)' % (fk, want))
    # ---------------- R2
    n_st = 0
    for rel in [PIEOBJ, ENGINE, FACTORY, 'kmip/pie/sqltypes.py']:
        t = src.tree(rel)
        for q, fn, cls in all_functions(t):
            for n in walk_local(fn):
                hit = None
                if isinstance(n, ast.Attribute) and n.attr in ('unique_identifier', 'uid') and isinstance(n.ctx, (ast.Store, ast.Del)):
                    hit = n
                elif isinstance(n, ast.Call) and call_name(n) == 'setattr' and len(n.args) >= 2 and isinstance(n.args[1], ast.Constant) and n.args[1].value in ('unique_identifier', 'uid'):
                    hit = n
                if hit is None:
                    continue
                n_st += 1
                site = '%s:%s %s' % (rel, n.lineno, q)
                if rel == PIEOBJ and q == 'ManagedObject.__init__' and is_self_attr(n) and isinstance(n._parent, ast.Assign) and isinstance(n._parent.value, ast.Constant) and n._parent.value.value is None:
                    ctx.ok('C07.R2', site, 'constructor initialises the identifier to None (assigned by the database at flush)')
                elif rel == PIEOBJ and cls is not None and not pie.issub(cls.name, 'ManagedObject') if cls is not None and cls.name in pie.classes else False:
                    ctx.ok('C07.R2', site, 'store on a non-managed helper class')
                else:
                    ctx.fail('C07.R2', '%s|unique_identifier-store' % q, site, 'the unique identifier of a stored object is assigned by code instead of the database: %s' % short(n._parent))
    ctx.count('identifier_store_sites', n_st, 1)
    # stores through setattr(obj, <computed name>, value): the abstract interpreter of the handlers resolves the field names a computed name can take
    from ..engai import EngineAI
    ai = EngineAI.shared(src)
    seen_dyn = set()
    for e in ai.events:
        if e['kind'] == 'mutation' and e['field'] in ('unique_identifier', 'uid') and (e['fn'], e['line']) not in seen_dyn:
            seen_dyn.add((e['fn'], e['line']))
            ctx.fail('C07.R2', 'KmipEngine.%s|unique_identifier-store-by-name' % e['fn'], '%s:%s KmipEngine.%s' % (ENGINE, e['line'], e['fn']),
                     'the unique identifier of a managed object can be assigned by code (%s, reached from %s): an identifier supplied in a request would bypass the database sequence and can name an identifier that was already handed out' % (e.get('how', 'store'), e['ctx'][0]))
        if e['kind'] == 'dynamic_field' and e['call'] == 'setattr' and (e['fn'], e['line']) not in seen_dyn:
            seen_dyn.add((e['fn'], e['line']))
            ctx.fail('C07.R2', 'KmipEngine.%s|dynamic-setattr' % e['fn'], '%s:%s KmipEngine.%s' % (ENGINE, e['line'], e['fn']),
                     'setattr on a managed object with a field name that is not a known constant (%s): could store the unique identifier' % e['field'])
    # ---------------- R3
    d = m.method('_process_destroy')
    g = CFG(d)
    dels = [n for n in g.nodes for c in calls_at(n) if isinstance(c.func, ast.Attribute) and c.func.attr == 'delete']
    coms = m.commit_nodes(g)
    dsite = m.site(d, d)
    ctx.check(len(dels) == 1 and g.all_paths_pass(g.entry, g.exit, dels), 'C07.R3', 'KmipEngine._process_destroy|delete-on-every-path', dsite,
              'every normal return passes the row delete', 'Destroy can return normally without deleting the row')
    ctx.check(bool(coms) and bool(dels) and all(g.all_paths_pass(dn, g.exit, coms) for dn in dels), 'C07.R3', 'KmipEngine._process_destroy|commit-after-delete', dsite,
              'the delete is committed before the normal return', 'Destroy can return normally without committing the delete')
    if len(dels) == 1:
        call = [c for c in calls_at(dels[0]) if isinstance(c.func, ast.Attribute) and c.func.attr == 'delete'][0]
        q = [c for c in ast.walk(call) if isinstance(c, ast.Call) and isinstance(c.func, ast.Attribute) and c.func.attr == 'query']
        base = len(q) == 1 and q[0].args and U(q[0].args[0]).endswith('ManagedObject')
        if not q and is_self_attr(call.func.value, '_data_session') and len(call.args) == 1 and isinstance(call.args[0], ast.Name):
            # unit-of-work form: session.delete(<the object loaded for this very request>) removes its row from every table of its class, the base row included
            drd = ReachingDefs(g)
            vals = drd.values(dels[0], call.args[0].id)
            base = bool(vals) and all(isinstance(v, ast.Call) and U(v.func) == 'self._get_object_with_access_controls' for v in vals)
        ctx.check(base, 'C07.R3', 'KmipEngine._process_destroy|deletes-base-row', m.site(call, d), 'the base-table row is deleted', 'the delete does not target the base table row (the identifier would stay resolvable)')
        # query form: the row is selected by its identifier and nothing else - any further criterion (owner, state, type ...) can make the bulk
        # delete match no row, and the handler answers Success all the same (nobody looks at the row count)
        flt = [c for c in ast.walk(call) if isinstance(c, ast.Call) and isinstance(c.func, ast.Attribute) and c.func.attr in ('filter', 'filter_by', 'where')]
        if q:
            crit = [a for f_ in flt for a in list(f_.args) + [k.value for k in f_.keywords]]
            only_uid = len(crit) == 1 and ((isinstance(crit[0], ast.Compare) and len(crit[0].ops) == 1 and isinstance(crit[0].ops[0], ast.Eq)
                                            and U(crit[0].left).endswith('.unique_identifier')) or
                                           any(k.arg == 'unique_identifier' for f_ in flt for k in f_.keywords))
            ctx.check(only_uid, 'C07.R3', 'KmipEngine._process_destroy|delete-criteria', m.site(call, d), 'the delete selects the row by its unique identifier alone',
                      'the bulk delete of Destroy is filtered by %s: with more than the identifier as criterion it can match no row (an object the requester may destroy under its policy but does not own, ...), the row stays, and Destroy still answers Success - the identifier is not dead' % [U(c_)[:60] for c_ in crit])
    # ---------------- R4
    n_reads = 0
    for h in m.handlers:
        fn = m.method(h)
        hg = CFG(fn)
        fresh_vars = set(n.stmt.targets[0].id for n in hg.nodes if n.kind == 'stmt' and isinstance(n.stmt, ast.Assign) and isinstance(n.stmt.targets[0], ast.Name)
                         and isinstance(n.stmt.value, ast.Call) and ((call_name(n.stmt.value) or '').startswith('objects.') or (isinstance(n.stmt.value.func, ast.Attribute) and n.stmt.value.func.attr == 'convert')))
        if not any(m.add_nodes(hg, v) for v in fresh_vars):
            continue
        hrd = ReachingDefs(hg)
        commits = m.commit_nodes(hg)
        for n in walk_local(fn):
            if isinstance(n, ast.Attribute) and n.attr == 'unique_identifier' and isinstance(n.ctx, ast.Load) and isinstance(n.value, ast.Name):
                node = node_of_expr(hg, n)
                vals = hrd.values(node, n.value.id)
                fresh = bool(vals) and all(isinstance(v, ast.Call) and ((call_name(v) or '').startswith('objects.') or (isinstance(v.func, ast.Attribute) and v.func.attr == 'convert')) for v in vals)
                if not fresh:
                    continue
                n_reads += 1
                addn = m.add_nodes(hg, n.value.id)
                ok = bool(addn) and any((hg.dominates(a, cn) or a is cn) and hg.dominates(cn, node) for a in addn for cn in commits)
                ctx.check(ok, 'C07.R4', 'KmipEngine.%s|%s.unique_identifier-after-commit' % (h, n.value.id), m.site(n, fn),
                          'identifier of the new object read after add() and commit()', 'the identifier of a new object is read before it was added and committed (it is None or provisional then)')
    ctx.count('new_identifier_reads', n_reads)
    # ---------------- R5
    got = m.method('_get_object_type')
    gg = CFG(got)
    p0 = params(got)[0]
    gs = m.site(got, got)
    qs = [c for c in walk_local(got) if isinstance(c, ast.Call) and isinstance(c.func, ast.Attribute) and c.func.attr == 'one']
    okq = False
    if len(qs) == 1:
        filt = [c for c in ast.walk(qs[0]) if isinstance(c, ast.Call) and isinstance(c.func, ast.Attribute) and c.func.attr == 'filter']
        p = cmp_parts(filt[0].args[0]) if len(filt) == 1 and filt[0].args else None
        okq = bool(p) and p[1] == 'Eq' and U(p[0]).endswith('ManagedObject.unique_identifier') and isinstance(p[2], ast.Name) and p[2].id == p0
    ctx.check(okq, 'C07.R5', 'KmipEngine._get_object_type|lookup-by-equality-one', gs, 'filter(unique_identifier == requested).one()', 'the type lookup is not an exact-match single-row query on the requested identifier')
    nf = False
    for h in [n for n in gg.nodes if n.kind == 'handler']:
        if any(x.endswith('NoResultFound') for x in (dotted(h.stmt.type) or '',)):
            rz = [s for s in ast.walk(h.stmt) if isinstance(s, ast.Raise) and isinstance(s.exc, ast.Call) and call_name(s.exc) == 'exceptions.ItemNotFound']
            nf = bool(rz)
    ctx.check(nf, 'C07.R5', 'KmipEngine._get_object_type|missing-row-is-not-found', gs, 'NoResultFound -> ItemNotFound', 'a missing row is not reported as ItemNotFound')
    # ---------------- R6 one spelling of the identifier per request
    ctx.rule('C07.R6', 'every store query that selects by unique identifier compares the column with the identifier exactly as the handler received it (payload field, ID placeholder or the choke point\'s parameter, through plain copies): the access-checked lookup, the type lookup and the Destroy delete then address the same row')
    n_f = 0
    for meth, fn in sorted(m.methods.items()):
        filts = [c for c in walk_local(fn) if isinstance(c, ast.Call) and isinstance(c.func, ast.Attribute) and c.func.attr in ('filter', 'filter_by', 'get')
                 and any(isinstance(x, ast.Attribute) and x.attr == 'unique_identifier' for a in c.args for x in ast.walk(a))]
        # calls that hand the identifier to the lookup helpers are sites of the same rule
        filts += [c for c in walk_local(fn) if isinstance(c, ast.Call) and is_self_attr(c.func) and c.func.attr in ('_get_object_type', '_get_object_with_access_controls') and c.args]
        if not filts:
            continue
        fg = CFG(fn)
        frd = ReachingDefs(fg)
        for c in filts:
            helper_call = is_self_attr(c.func)
            p = cmp_parts(c.args[0]) if c.args and not helper_call else None
            site = m.site(c, fn)
            if helper_call:
                p = (None, 'Eq', c.args[0])
            if not p or p[1] != 'Eq':
                ctx.fail('C07.R6', 'KmipEngine.%s|identifier-filter-shape' % meth, site, 'a query selects on unique_identifier by something other than equality: %s' % short(c))
                continue
            n_f += 1
            val = p[2] if helper_call or U(p[0]).endswith('unique_identifier') else p[0]
            node = node_of_expr(fg, c)
            bad = []
            seen = set()

            def trace(v, nd, depth=0):
                if isinstance(v, ast.Name):
                    for var, dv, dn in frd.reaching(nd, v.id):
                        if (var, id(dn)) in seen:
                            continue
                        seen.add((var, id(dn)))
                        if dn is None:
                            continue          # parameter of this method (callers are handlers / the choke point, checked at their own sites)
                        if isinstance(dv, tuple) and dv and dv[0] == 'iter':
                            trace(dv[1], dn, depth + 1)
                        elif isinstance(dv, ast.AST):
                            trace(dv, dn, depth + 1)
                        else:
                            bad.append('%s defined by %s' % (var, dv))
                elif isinstance(v, ast.Attribute):
                    root = v
                    while isinstance(root, ast.Attribute):
                        root = root.value
                    if is_self_attr(v, '_id_placeholder') or (isinstance(root, ast.Name) and root.id == 'payload') or v.attr == 'unique_identifier' or v.attr == 'unique_identifiers':
                        return
                    bad.append(U(v))
                elif isinstance(v, ast.IfExp):
                    trace(v.body, nd, depth + 1)
                    trace(v.orelse, nd, depth + 1)
                elif isinstance(v, ast.BoolOp):
                    for x in v.values:
                        trace(x, nd, depth + 1)
                elif isinstance(v, ast.Constant) and v.value is None:
                    return
                else:
                    bad.append(short(v))
            trace(val, node)
            ctx.check(not bad, 'C07.R6', 'KmipEngine.%s|identifier-as-received' % meth, site, 'the column is compared with the identifier as received (%s)' % U(val),
                      'the identifier compared with the column is a transformed value (%s): lookups in the same request that use the original spelling can address a different row or none (a Destroy that reports success without deleting, an object that stays readable)' % '; '.join(bad))
    ctx.count('identifier_filter_sites', n_f, 3)
    # ---------------- C07.R7 (lifted from C08)
    ctx.rule('C07.R7', 'Destroy removes the row only after every refusal: no failure is raised once the delete was issued (lifted from C08.R3), so a refused Destroy cannot be made permanent by a later commit of the batch')
    from ..report import Ctx as _LCtx
    from . import c08 as _lsrc
    _sub = _LCtx('C08', 'quick', ctx.src, 0)
    from ..report import run_lifted as _run_lifted
    _run_lifted(ctx, _lsrc, _sub)
    _lifted = [f for f in _sub.findings if f.rule == 'C08.R3' and '_process_destroy' in f.key]
    for f in _lifted:
        ctx.fail('C07.R7', f.key, f.site, f.message)
    if not _lifted:
        ctx.ok('C07.R7', 'kmip/services/server/engine.py', 'no raise after the delete in Destroy')
    # ---------------- C07.R8 (lifted from C10)
    ctx.rule('C07.R8', "requests are executed one at a time under the engine lock (lifted from C10.R1/R2): the ID placeholder and the data session are engine fields, so an unsynchronised second request between Create and Destroy-by-placeholder would make a Destroy delete another client's object")
    from ..report import Ctx as _LCtx_C07_R8
    from . import c10 as _lsrc_C07_R8
    _sub_C07_R8 = _LCtx_C07_R8('C10', 'quick', ctx.src, 0)
    from ..report import run_lifted as _run_lifted
    _run_lifted(ctx, _lsrc_C07_R8, _sub_C07_R8)
    _lifted_C07_R8 = [f for f in _sub_C07_R8.findings if f.rule in ('C10.R1', 'C10.R2')]
    for f in _lifted_C07_R8:
        ctx.fail('C07.R8', f.key, f.site, f.message)
    if not _lifted_C07_R8:
        ctx.ok('C07.R8', 'lifted from C10', 'process_request is synchronised by a wrapper that holds the lock around exactly one call and is what the decorator returns')
    # ---------------- C07.R9 (lifted from C09)
    ctx.rule('C07.R9', "what Destroy committed and which identifiers were issued survive a restart (lifted from C09.R3/R4/R5): the store is opened the same way by every start (schema creation is unconditional and idempotent, the connection stays in the driver's transactional mode) and nothing in the server or the object layer deletes, renames or truncates files - a removed journal / write-ahead log rolls committed Destroys back and rewinds the identifier counter, so a destroyed identifier would come back to life or be issued again")
    from ..report import Ctx as _LCtx_C07_R9
    from . import c09 as _lsrc_C07_R9
    _sub_C07_R9 = _LCtx_C07_R9('C09', 'quick', ctx.src, 0)
    _run_lifted(ctx, _lsrc_C07_R9, _sub_C07_R9)
    _lifted_C07_R9 = [f for f in _sub_C07_R9.findings if f.rule in ('C09.R4', 'C09.R5') or (f.rule == 'C09.R3' and 'schema' in f.key or f.rule == 'C09.R3' and 'sessions-bound' in f.key)]
    for f in _lifted_C07_R9:
        ctx.fail('C07.R9', f.key, f.site, f.message)
    if not _lifted_C07_R9:
        ctx.ok('C07.R9', 'lifted from C09', 'the store is opened transactionally and idempotently; no file of the store is removed')
    # ---------------- C07.R10 (lifted from C03)
    ctx.rule('C07.R10', "every load by identifier asks the store: the object the access-control choke point (and the lister) hands out is the result of the query by identifier executed in that very call (lifted from C03.R4 object-is-the-requested-one, C03.R1 data-session use): an object remembered from an earlier load - a memo in the session, a cache on the engine - would keep answering Get / GetAttributes / Destroy for an identifier that a Destroy in between has removed")
    from ..report import Ctx as _LCtx_C07_R10
    from . import c03 as _lsrc_C07_R10
    _sub_C07_R10 = _LCtx_C07_R10('C03', 'quick', ctx.src, 0)
    _run_lifted(ctx, _lsrc_C07_R10, _sub_C07_R10)
    _lifted_C07_R10 = [f for f in _sub_C07_R10.findings if (f.rule == 'C03.R4' and 'object-is-the-requested-one' in f.key) or (f.rule == 'C03.R1' and '_data_session-escapes' in f.key)]
    for f in _lifted_C07_R10:
        ctx.fail('C07.R10', f.key, f.site, f.message)
    if not _lifted_C07_R10:
        ctx.ok('C07.R10', 'lifted from C03', 'the choke point returns the row its own query found')
    ctx.not_decided += ['SQLite AUTOINCREMENT never reusing a rowid, also across restarts (trusted)', 'identifier behaviour when the process is killed between add() and commit() (C09)']
    ctx.assumptions += ['joined-table inheritance deletes/owns subclass rows through the base row (passive deletes / foreign keys)']
