"""C09 - crash consistency (structural part): one transaction per operation."""
import ast

from ..astutil import U, walk_local, is_self_attr, call_name, short
from ..cfg import CFG, calls_at
from ..guards import call_nodes
from ..engmodel import ENGINE
from ..engai import EngineAI
from ..source import AnalysisError

EXPLANATION = (
    "Path-sensitive abstract interpretation of every handler tracking (objects mutated/added/deleted since the last commit, number of "
    "commits on the path, mutations after a commit): every normal return of a mutating handler is reached with exactly one commit, nothing "
    "uncommitted and nothing mutated after the commit; read-only handlers never commit or mutate; both halves of a key pair are added before "
    "the single commit; schema creation precedes the session factory. This is the one-transaction-per-operation shape on which the "
    "all-or-nothing claim rests; atomicity and durability of one SQLite commit, and crash points inside it, are trusted, not decided.")



def check_no_other_transaction_control(ctx, m):
    """C09.R6: the one commit per operation is the only transaction boundary."""
    ctx.rule('C09.R6', 'the engine drives the data session with add / delete / query and exactly the commits counted by R2: no handler calls begin, begin_nested (a SAVEPOINT - with the sqlite driver its RELEASE commits when it is the outermost transaction), flush, rollback, execute, merge, expunge, close or any other session method - each of them is, or can become, a second transaction boundary inside one operation, so a crash between the two leaves the operation half applied')
    OK = {'add', 'add_all', 'commit', 'query', 'delete'}
    n = 0
    for name, fn in sorted(m.methods.items()):
        for x in walk_local(fn):
            if is_self_attr(x, '_data_session') and isinstance(x.ctx, ast.Load):
                p = getattr(x, '_parent', None)
                if isinstance(p, ast.Attribute) and p.value is x:
                    n += 1
                    ctx.check(p.attr in OK or p.attr in ('new', 'dirty', 'deleted'), 'C09.R6', 'KmipEngine.%s|session.%s' % (name, p.attr), m.site(x, fn), 'session.%s' % p.attr,
                              'session.%s is used in %s: besides the single commit of the operation this opens, flushes or ends a transaction (or may do so with the sqlite driver), so the operation is no longer applied in one piece' % (p.attr, name))
    # the same object under a local name: `with self._data_store_session_factory() as s:` / `s = self._data_store_session_factory()` /
    # a name stored into (or read from) self._data_session
    n_alias = 0
    for name, fn in sorted(m.methods.items()):
        al = set()
        for x in walk_local(fn):
            if isinstance(x, ast.With):
                for it in x.items:
                    if isinstance(it.optional_vars, ast.Name) and 'session_factory' in U(it.context_expr):
                        al.add(it.optional_vars.id)
            if isinstance(x, ast.Assign) and len(x.targets) == 1:
                t, v = x.targets[0], x.value
                if isinstance(t, ast.Name) and ('session_factory' in U(v) or is_self_attr(v, '_data_session')):
                    al.add(t.id)
                if is_self_attr(t, '_data_session') and isinstance(v, ast.Name):
                    al.add(v.id)
        for x in walk_local(fn):
            if isinstance(x, ast.Name) and x.id in al and isinstance(x.ctx, ast.Load):
                p = getattr(x, '_parent', None)
                if isinstance(p, ast.Attribute) and p.value is x:
                    n_alias += 1
                    ctx.check(p.attr in OK or p.attr in ('new', 'dirty', 'deleted'), 'C09.R6', 'KmipEngine.%s|session.%s' % (name, p.attr), m.site(x, fn), 'session.%s' % p.attr,
                              'session.%s is used in %s (on the local name %s of the data session): besides the single commit of the operation this opens, flushes or ends a transaction, or changes how the connection commits (autocommit: every statement is its own transaction), so an operation is no longer applied in one piece' % (p.attr, name, x.id))
    ctx.analysed['data_session_alias_member_uses'] = n_alias
    ctx.count('data_session_member_uses', n, 15)

def run(ctx):
    src = ctx.src
    ai = EngineAI.shared(src)
    m = ai.m
    ctx.rule('C09.R1', 'on every path of every handler: at most one commit(); every add/delete/mutation of a stored or new object precedes it')
    ctx.rule('C09.R2', 'every normal return of a handler that mutated, added or deleted is reached after the commit (nothing pending): an acknowledged operation is committed')
    ctx.rule('C09.R3', 'CreateKeyPair adds both objects before its single commit; the schema is created in __init__ before the session factory is built; one session per batch')
    if ai.bounds_hit:
        raise AnalysisError('analysis bound hit: %s' % ai.bounds_hit[:3])
    ctx.count('handlers_interpreted', len(m.handlers), 21)
    rets = {}
    for e in ai.events:
        if e['kind'] == 'return':
            rets.setdefault(e['fn'], []).append(e)
    muts = {}
    for e in ai.events:
        if e['kind'] in ('mutation', 'add', 'delete'):
            root = e['ctx'][0]
            if e['kind'] == 'mutation' and e['origin'] in ('copy',):
                continue
            muts.setdefault(root, set()).add(e['kind'] if e['kind'] != 'mutation' else 'mutation:' + e['origin'])
    commits = {}
    for e in ai.events:
        if e['kind'] == 'commit':
            commits.setdefault(e['ctx'][0], []).append(e)
    n_mut = 0
    for h in m.handlers:
        fn = m.method(h)
        site = m.site(fn, fn)
        rs = rets.get(h, [])
        ctx.need(rs, 'unrecognised construct: handler %s has no normal return in the analysis' % h)
        mutating = bool(muts.get(h)) or bool(commits.get(h))
        if mutating:
            n_mut += 1
        maxc = max(r['state']['commits'] for r in rs)
        minc = min(r['state']['commits'] for r in rs)
        after = sorted(set(x for r in rs for x in r['state']['mutated_after_commit']))
        pend = sorted(set(x for r in rs for x in r['state']['dirty'] if x not in ('fresh',)))
        # a fresh object that was never added is garbage, not pending state; 'added' stays dirty until commit
        if mutating:
            ctx.check(maxc <= 1 and not after, 'C09.R1', 'KmipEngine.%s|single-transaction' % h, site,
                      'every path commits at most once and mutates nothing afterwards (effects: %s)' % sorted(muts.get(h, [])),
                      'the operation is split over several transactions: up to %s commits on a path; mutated after a commit: %s' % ('2+' if maxc >= 2 else maxc, after))
            persistent = [x for x in muts.get(h, []) if x in ('add', 'delete', 'mutation:loaded', 'mutation:mixed', 'mutation:unknown')]
            if persistent:
                ctx.check(minc >= 1 and not pend, 'C09.R2', 'KmipEngine.%s|commit-before-return' % h, site,
                          'every normal return follows the commit; nothing pending',
                          'a normal return is reachable with uncommitted changes (%s) or without a commit (min commits on a returning path: %d)' % (pend, minc))
            else:
                ctx.ok('C09.R2', site, 'no persistent effect')
        else:
            ctx.check(maxc == 0 and not pend, 'C09.R1', 'KmipEngine.%s|read-only' % h, site, 'read-only handler: no commit, no mutation',
                      'handler without recorded mutation commits or leaves pending state')
    ctx.count('mutating_handlers', n_mut, 10)
    n_commit_sites = len(set((e['fn'], e['line']) for e in ai.events if e['kind'] == 'commit'))
    ctx.count('commit_sites', n_commit_sites)
    # every commit()/add()/delete() in engine.py was reached by the analysis (none hidden in an uninterpreted method)
    static = [(fn.name, c) for fn in m.methods.values() for c in walk_local(fn) if isinstance(c, ast.Call) and isinstance(c.func, ast.Attribute)
              and c.func.attr in ('commit', 'add', 'flush', 'rollback', 'merge', 'expunge') and is_self_attr(c.func.value, '_data_session')]
    seen_lines = set(e['line'] for e in ai.events if e['kind'] in ('commit', 'add'))
    for name, c in static:
        ctx.check(c.lineno in seen_lines, 'C09.R1', 'KmipEngine.%s|session.%s-reached' % (name, c.func.attr), m.site(c, m.methods[name]),
                  'session.%s analysed' % c.func.attr, 'a session.%s call is outside the analysed handlers (or of an unmodelled kind)' % c.func.attr)

    # ---------------- R3
    ckp = [e for e in ai.events if e['kind'] == 'add' and e['ctx'][0] == '_process_create_key_pair']
    lines = sorted(set((e['line'], tuple((e.get('obj') or {}).get('types') or ('?',))) for e in ckp))      # two add() sites, or one site reached with each half (a helper)
    cline = sorted(set(e['line'] for e in commits.get('_process_create_key_pair', [])))
    fn = m.method('_process_create_key_pair')
    ctx.check(len(lines) >= 2 and len(cline) == 1 and all(e['state']['commits'] == 0 for e in ckp), 'C09.R3',
              'KmipEngine._process_create_key_pair|both-adds-before-commit', m.site(fn, fn), 'both key objects are added before the single commit',
              'the two halves of a key pair are not added before one common commit')
    init = m.method('__init__')
    g = CFG(init)
    ca = call_nodes(g, '.create_all')
    sf = [n for n in g.nodes if n.kind == 'stmt' and isinstance(n.stmt, ast.Assign) and is_self_attr(n.stmt.targets[0], '_data_store_session_factory')]
    ctx.check(len(ca) == 1 and len(sf) == 1 and g.dominates(ca[0][0], sf[0]), 'C09.R3', 'KmipEngine.__init__|schema-before-sessions', m.site(init, init),
              'create_all() precedes the session factory', 'the schema is not created before the session factory is built')
    # the session factory is bound to the Engine (one pooled connection and one transaction per session), not to a long-lived Connection
    sfn = sf[0].stmt if sf else None
    okb = False
    if sfn is not None and isinstance(sfn.value, ast.Call):
        bind = next((k.value for k in sfn.value.keywords if k.arg == 'bind'), sfn.value.args[0] if sfn.value.args else None)
        if is_self_attr(bind):
            stores = [a for a in walk_local(init) if isinstance(a, ast.Assign) and any(is_self_attr(tg, bind.attr) for tg in a.targets)]
            okb = len(stores) == 1 and isinstance(stores[0].value, ast.Call) and (call_name(stores[0].value) or '').split('.')[-1] == 'create_engine'
    conns = [c for fn_ in m.methods.values() for c in walk_local(fn_) if isinstance(c, ast.Call) and isinstance(c.func, ast.Attribute) and c.func.attr in ('connect', 'raw_connection', 'begin')
             and ('_data_store' in U(c.func.value))]
    ctx.check(okb and not conns, 'C09.R3', 'KmipEngine.__init__|sessions-bound-to-engine', m.site(init, init),
              'sessionmaker(bind=<the create_engine result>); the engine never opens connections of its own',
              'the session factory is not bound to the create_engine result, or the engine opens its own connections (%s): a Session bound to a Connection that is already in a transaction only flushes on commit() - nothing reaches the file' % [U(c)[:50] for c in conns])
    pb = m.method('_process_batch')
    withs = [n for n in walk_local(pb) if isinstance(n, ast.With)]
    okw = len(withs) == 1 and call_name(withs[0].items[0].context_expr) == 'self._data_store_session_factory' and \
        any(isinstance(s, ast.Assign) and is_self_attr(s.targets[0], '_data_session') and U(s.value) == U(withs[0].items[0].optional_vars) for s in withs[0].body)
    stores = [meth for meth, (r, w) in m.field_effects().items() if '_data_session' in w]
    ctx.check(okw and stores == ['_process_batch'], 'C09.R3', 'KmipEngine._process_batch|one-session-per-batch', m.site(pb, pb),
              'a fresh session is opened per batch (context manager) and bound to _data_session only there', 'the data session is not a per-batch context-managed session')
    # ---------------- R4 nothing in the package takes the database connection out of transactional mode
    ctx.rule('C09.R4', 'the database connection stays in the driver\'s transactional mode: no autocommit/isolation_level option at create_engine / sessionmaker / execution_options, and any store to a connection\'s isolation_level/autocommit attribute is undone on every path to the function exit by a store of the value saved before it')
    from ..astutil import all_functions
    n_cfg = 0
    n_att = 0
    for rel in src.modules('kmip'):
        t = src.tree(rel)
        for c in ast.walk(t):
            if isinstance(c, ast.Call):
                cn = (call_name(c) or '')
                last = cn.split('.')[-1]
                if last in ('create_engine', 'sessionmaker', 'execution_options', 'scoped_session', 'connect'):
                    if last in ('create_engine', 'sessionmaker'):
                        n_cfg += 1
                    for kw in c.keywords:
                        if kw.arg in ('isolation_level', 'autocommit') and not (isinstance(kw.value, ast.Constant) and kw.value.value is False):
                            ctx.fail('C09.R4', '%s|%s(%s=)' % (rel, last, kw.arg), '%s:%s' % (rel, c.lineno),
                                     '%s is called with %s=%s: statements can then be made durable one by one, and Session.commit() no longer delimits the operation' % (cn, kw.arg, U(kw.value)))
        for qn, fn, cls in all_functions(t):
            stores = [n for n in walk_local(fn) if isinstance(n, ast.Assign) and len(n.targets) == 1 and isinstance(n.targets[0], ast.Attribute) and n.targets[0].attr in ('isolation_level', 'autocommit')]
            if not stores:
                continue
            g = CFG(fn)
            from ..dataflow import ReachingDefs, node_of_expr
            rd = ReachingDefs(g)
            for st in stores:
                n_att += 1
                site = '%s:%s %s' % (rel, st.lineno, qn)
                recv = U(st.targets[0].value)
                attr = st.targets[0].attr
                node = node_of_expr(g, st)
                # a restoring store: same receiver/attribute, value = a local whose only definition is a read of that attribute before this store
                def is_restore(o):
                    if not (U(o.targets[0].value) == recv and o.targets[0].attr == attr and isinstance(o.value, ast.Name)):
                        return False
                    on = node_of_expr(g, o)
                    vals = rd.values(on, o.value.id)
                    return bool(vals) and all(isinstance(v, ast.Attribute) and U(v.value) == recv and v.attr == attr for v in vals)
                if is_restore(st):
                    continue
                restores = [rn for o in stores if o is not st and is_restore(o) for rn in (g.by_stmt.get(id(o)) or [])]
                ok = bool(restores) and g.all_paths_pass(node, g.exit, restores)
                ctx.check(ok, 'C09.R4', '%s|store %s.%s' % (qn, recv, attr), site, 'the changed transaction mode is restored from the saved value on every path',
                          '%s.%s is set to %s and not restored from the saved value on every path to the function exit: the connection can stay in autocommit, so each INSERT/UPDATE/DELETE becomes durable on its own and commit() no longer makes an operation all-or-nothing' % (recv, attr, U(st.value)))
    ctx.count('engine_and_session_factory_sites', n_cfg, 2)
    ctx.analysed['transaction_mode_stores'] = n_att
    if n_att == 0:
        ctx.ok('C09.R4', 'kmip/**', 'no store to an isolation_level/autocommit attribute and no such option at %d engine/session factory sites' % n_cfg)
    # ---------------- R5 nobody but SQLite touches the files of the store
    ctx.rule('C09.R5', 'no code of the server or of the object store layer (kmip/services/server, kmip/pie) deletes, renames or truncates files (os.remove/unlink/rename/replace/rmdir/truncate, shutil.*, Path.unlink/rename): after an unclean shutdown the journal / write-ahead-log files next to the database are the only copy of acknowledged commits, and only SQLite may dispose of them')
    n_fs = 0
    FS = {'os.remove', 'os.unlink', 'os.rename', 'os.replace', 'os.rmdir', 'os.removedirs', 'os.truncate', 'shutil.rmtree', 'shutil.move', 'shutil.copyfile', 'shutil.copy'}
    for rel in [r for r in src.modules('kmip') if r.startswith('kmip/services/server/') or r.startswith('kmip/pie/')]:
        t = src.tree(rel)
        for c in ast.walk(t):
            if not isinstance(c, ast.Call):
                continue
            cn = call_name(c) or ''
            hit = cn in FS or (isinstance(c.func, ast.Attribute) and c.func.attr in ('unlink', 'rmtree', 'truncate') and not cn.startswith('self._data_session'))
            if hit:
                n_fs += 1
                ctx.fail('C09.R5', '%s|%s' % (rel, cn or c.func.attr), '%s:%s' % (rel, c.lineno), '%s removes / replaces / truncates a file: if it can name a file of the object store (database, -journal, -wal, -shm), commits acknowledged before an unclean shutdown are lost at the next start' % (cn or c.func.attr))
    ctx.analysed['file_removal_calls'] = n_fs
    if n_fs == 0:
        ctx.ok('C09.R5', 'kmip/**', 'no file removal / rename / truncate call in the package')
    check_no_other_transaction_control(ctx, m)
    ctx.not_decided += ['process death between SQL statements inside one commit (SQLite journal)', 'durability of an acknowledged commit (fsync behaviour of SQLite)',
                        'that a store left by a crash can be opened and listed']
    ctx.assumptions += ['one Session.commit() is one atomic, durable SQLite transaction covering all rows of joined-table objects',
                        'Session.add/mutations are not flushed to disk before commit() in a way visible after a crash']
